module verif

go 1.23

require github.com/martian-lang/martian v0.0.0

require golang.org/x/sys v0.30.0

replace github.com/martian-lang/martian => /repo
