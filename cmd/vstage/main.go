// vstage: the stage executable of the real-binary tier ("tier B").
//
// One executable serves every stage of a progen program.  It is started by the
// real mrjob (src comp "<stage name>"; the mro directory holds one symlink per
// stage name pointing here) and speaks the stage protocol through the
// repository's own Go adapter (martian/adapter.RunStage).  The stage function
// it evaluates is the reference stage library of lib/progen - the same
// function the in-package model job of overlay/core/psx.go evaluates - so a
// run with real processes and a run of the model are comparable job by job.
//
// The control directory $VERIF_CTL (set in mrp's environment and inherited)
// holds:
//
//	stages.gob        the program's declarations (filetypes, structs, stages)
//	obs/              one JSON record per executed job (written here)
//	fault.json        optional: {"job": key, "kind": k, "times": n}
//	fault.fired       one line appended per firing of the fault
//	slow.json         optional: {key: milliseconds} the job sleeps before its body
//	gate/<key>        optional: the job announces itself in at/<key> and
//	                  waits until go/<key> exists
package main

import (
	"encoding/gob"
	"encoding/json"
	"fmt"
	"os"
	"path/filepath"
	"regexp"
	"strings"
	"syscall"
	"time"

	"golang.org/x/sys/unix"

	"github.com/martian-lang/martian/martian/adapter"
	"github.com/martian-lang/martian/martian/core"

	"verif/lib/progen"
)

type obsRecord struct {
	Key       string   `json:"key"`
	Uniq      string   `json:"uniq"` // run file name (job name with the attempt's uniquifier)
	Stage     string   `json:"stage"`
	Phase     string   `json:"phase"`
	MdPath    string   `json:"md"`
	FilesPath string   `json:"files"`
	Args      string   `json:"args"`
	ChunkDefs string   `json:"chunk_defs,omitempty"`
	ChunkOuts string   `json:"chunk_outs,omitempty"`
	StartNs   int64    `json:"start_ns"`
	EndNs     int64    `json:"end_ns"`
	Pid       int      `json:"pid"`
	Fault     string   `json:"fault,omitempty"`
	How       string   `json:"how"`
	Problems  []string `json:"problems,omitempty"`
	Written   []string `json:"written,omitempty"`
	Adapter   string   `json:"adapter,omitempty"`
	Threads   float64  `json:"threads"`
	MemGB     float64  `json:"mem_gb"`
	VMemGB    float64  `json:"vmem_gb"`
}

var uniqRe = regexp.MustCompile(`\.u[0-9a-f]{10}$`)

var (
	ctl   string
	rec   obsRecord
	prog  progen.Program
	stage *progen.Stage
)

func monoNs() int64 {
	// CLOCK_MONOTONIC is system wide on Linux: comparable across processes
	var ts unix.Timespec
	unix.ClockGettime(unix.CLOCK_MONOTONIC, &ts)
	return ts.Sec*1e9 + ts.Nsec
}

func writeObs() {
	rec.EndNs = monoNs()
	b, _ := json.Marshal(&rec)
	dir := filepath.Join(ctl, "obs")
	os.MkdirAll(dir, 0o755)
	name := fmt.Sprintf("%020d-%d.json", rec.StartNs, rec.Pid)
	tmp := filepath.Join(dir, "."+name)
	os.WriteFile(tmp, b, 0o644)
	os.Rename(tmp, filepath.Join(dir, name))
}

func readFault(key string) string {
	b, err := os.ReadFile(filepath.Join(ctl, "fault.json"))
	if err != nil {
		return ""
	}
	var f struct {
		Job   string `json:"job"`
		Kind  string `json:"kind"`
		Times int    `json:"times"`
	}
	if json.Unmarshal(b, &f) != nil || f.Job != key {
		return ""
	}
	fired := 0
	if fb, err := os.ReadFile(filepath.Join(ctl, "fault.fired")); err == nil {
		fired = strings.Count(string(fb), "\n")
	}
	if f.Times > 0 && fired >= f.Times {
		return ""
	}
	if fh, err := os.OpenFile(filepath.Join(ctl, "fault.fired"), os.O_WRONLY|os.O_CREATE|os.O_APPEND, 0o644); err == nil {
		fmt.Fprintf(fh, "%s %s\n", key, f.Kind)
		fh.Close()
	}
	return f.Kind
}

func exists(p string) bool { _, err := os.Lstat(p); return err == nil }

func safeName(key string) string { return strings.ReplaceAll(key, "/", "%2F") }

// given: what a stage written in another language was handed by its adapter
// (nil: read the metadata files, as a stage on the Go adapter does).
var given *pyRequest

// body evaluates the stage function for this job.
func body(md *core.Metadata, phase string) (*progen.StageResult, string, error) {
	var argsRaw json.RawMessage
	argsText := ""
	if given != nil {
		argsRaw = given.Args
		argsText = string(given.Args)
	} else if b, err := os.ReadFile(md.MetadataFilePath(core.ArgsFile)); err == nil {
		argsRaw = b
		argsText = string(b)
	} else {
		argsText = "UNREADABLE: " + err.Error()
	}
	rec.Args = argsText
	args, perr := progen.ParseJSON(argsRaw)
	if perr != nil {
		args = progen.Obj(nil)
		rec.Args = "UNPARSEABLE: " + argsText
	}
	io := &progen.StageIO{Stage: stage, Phase: phase, Args: args, FilesPath: md.FilesPath()}
	if given != nil {
		if t, e := progen.ParseJSON(given.Outs); e == nil {
			io.OutsTemplate = t
		}
		if phase == "join" {
			rec.ChunkDefs, rec.ChunkOuts = string(given.ChunkDefs), string(given.ChunkOuts)
			if v, e := progen.ParseJSON(given.ChunkDefs); e == nil && v.K == progen.VArr {
				io.ChunkDefs = v.A
			}
			if v, e := progen.ParseJSON(given.ChunkOuts); e == nil && v.K == progen.VArr {
				io.ChunkOuts = v.A
			}
		}
	} else if b, err := os.ReadFile(md.MetadataFilePath(core.OutsFile)); err == nil {
		if t, e := progen.ParseJSON(b); e == nil {
			io.OutsTemplate = t
		}
	}
	if phase == "join" && given == nil {
		if b, err := os.ReadFile(md.MetadataFilePath(core.ChunkDefsFile)); err == nil {
			rec.ChunkDefs = string(b)
			if v, e := progen.ParseJSON(b); e == nil && v.K == progen.VArr {
				io.ChunkDefs = v.A
			}
		}
		if b, err := os.ReadFile(md.MetadataFilePath(core.ChunkOutsFile)); err == nil {
			rec.ChunkOuts = string(b)
			if v, e := progen.ParseJSON(b); e == nil && v.K == progen.VArr {
				io.ChunkOuts = v.A
			}
		}
	}
	io.WriteFile = func(pth, content string) {
		if !filepath.IsAbs(pth) {
			pth = filepath.Join(md.FilesPath(), pth)
		}
		os.MkdirAll(filepath.Dir(pth), 0o755)
		os.WriteFile(pth, []byte(content), 0o644)
		rec.Written = append(rec.Written, pth)
	}
	io.TempPath = filepath.Join(filepath.Dir(md.MetadataFilePath(core.ArgsFile)), "tmp")
	io.Symlink = func(target, link string) {
		os.MkdirAll(filepath.Dir(link), 0o755)
		os.Symlink(target, link)
	}
	io.OutsideDir = filepath.Join(ctl, "outside")
	io.CheckFile = func(pth string) {
		info, err := os.Stat(pth)
		if err != nil {
			rec.Problems = append(rec.Problems, "file "+pth+" named in the arguments is missing: "+err.Error())
			return
		}
		if info.IsDir() {
			if ents, err := os.ReadDir(pth); err != nil || len(ents) == 0 {
				rec.Problems = append(rec.Problems, "directory "+pth+" named in the arguments is empty or unreadable")
			}
			return
		}
		if b, err := os.ReadFile(pth); err != nil || !strings.HasPrefix(string(b), "FILEW\n") {
			rec.Problems = append(rec.Problems, "file "+pth+" does not have the content its producer wrote")
		}
	}
	r, err := progen.Exec(&prog, io)
	full := ""
	if err == nil && phase != "split" {
		// merge with the pre-populated template, as the model job does
		o := progen.Obj(map[string]*progen.Val{})
		if io.OutsTemplate != nil && io.OutsTemplate.K == progen.VObj {
			for k, v := range io.OutsTemplate.O {
				o.O[k] = v
			}
		}
		for k, v := range r.Outs.O {
			if _, declared := o.O[k]; declared || io.OutsTemplate == nil {
				o.O[k] = v
			}
		}
		full = o.JSON()
	}
	return r, full, err
}

func die(kind string) {
	rec.How = kind
	writeObs()
	switch kind {
	case "exit1":
		os.Exit(1)
	case "kill9":
		syscall.Kill(os.Getpid(), syscall.SIGKILL)
	case "segv":
		syscall.Kill(os.Getpid(), syscall.SIGSEGV)
	case "abrt":
		syscall.Kill(os.Getpid(), syscall.SIGABRT)
	case "kill-monitor":
		// the job monitor (mrjob, this process's parent) dies
		syscall.Kill(os.Getppid(), syscall.SIGKILL)
	case "errors-nojournal":
		// the failure is recorded in _errors, but the monitor dies before
		// the journal entry that makes mrp look at the file is written
		os.WriteFile(filepath.Join(rec.MdPath, "_errors"), []byte("verif: stage failed; the monitor died before the journal entry"), 0o644)
		syscall.Kill(os.Getppid(), syscall.SIGKILL)
	}
	time.Sleep(5 * time.Second)
	os.Exit(3)
}

func prologue(md *core.Metadata, phase string) string {
	ctl = os.Getenv("VERIF_CTL")
	rec.Pid = os.Getpid()
	rec.StartNs = monoNs()
	rec.Phase = phase
	rec.MdPath = filepath.Dir(md.MetadataFilePath(core.ArgsFile))
	rec.FilesPath = md.FilesPath()
	rec.Stage = filepath.Base(os.Args[0])
	rec.Uniq = filepath.Base(os.Args[len(os.Args)-1])
	if given != nil {
		rec.Stage = filepath.Base(given.Argv[1])
		rec.Uniq = filepath.Base(given.Argv[len(given.Argv)-1])
		rec.Adapter = "python"
	}
	rec.Key = uniqRe.ReplaceAllString(rec.Uniq, "") + "." + phase
	ji := adapter.GetJobInfo()
	if given != nil {
		md.ReadInto(core.JobInfoFile, ji)
	}
	rec.Threads, rec.MemGB, rec.VMemGB = ji.Threads, ji.MemGB, ji.VMemGB
	if f, err := os.Open(filepath.Join(ctl, "stages.gob")); err == nil {
		if err := gob.NewDecoder(f).Decode(&prog); err != nil {
			panic("vstage: cannot read stages.gob: " + err.Error())
		}
		f.Close()
	} else {
		panic("vstage: " + err.Error())
	}
	stage = prog.Stage(rec.Stage)
	if stage == nil {
		panic("vstage: unknown stage " + rec.Stage)
	}
	if b, err := os.ReadFile(filepath.Join(ctl, "slow.json")); err == nil {
		var m map[string]int
		if json.Unmarshal(b, &m) == nil {
			if ms := m[rec.Key]; ms > 0 {
				time.Sleep(time.Duration(ms) * time.Millisecond)
			}
		}
	}
	if exists(filepath.Join(ctl, "gate", safeName(rec.Key))) {
		os.MkdirAll(filepath.Join(ctl, "at"), 0o755)
		os.WriteFile(filepath.Join(ctl, "at", safeName(rec.Key)), []byte(fmt.Sprint(rec.Pid)), 0o644)
		for i := 0; i < 60000 && !exists(filepath.Join(ctl, "go", safeName(rec.Key))); i++ {
			time.Sleep(2 * time.Millisecond)
		}
	}
	fault := readFault(rec.Key)
	rec.Fault = fault
	if given != nil {
		// process-level manifestations are performed by the python module
		return fault
	}
	switch fault {
	case "exit1", "kill9", "segv", "abrt", "kill-monitor", "errors-nojournal":
		die(fault)
	}
	return fault
}

func split(md *core.Metadata) (*core.StageDefs, error) {
	fault := prologue(md, "split")
	defer writeObs()
	switch fault {
	case "errors-early":
		rec.How = "errors"
		return nil, fmt.Errorf("verif: stage raised an error before producing output")
	case "assert-early":
		rec.How = "assert"
		return nil, adapter.StageAssertion("verif: stage assertion")
	case "panic":
		rec.How = "panic"
		panic("verif: stage code panic")
	}
	r, _, err := body(md, "split")
	if err != nil {
		rec.How = "errors"
		return nil, err
	}
	chunks := make([]json.RawMessage, 0, len(r.Chunks))
	for _, c := range r.Chunks {
		chunks = append(chunks, json.RawMessage(c.JSON()))
	}
	b, _ := json.Marshal(map[string]interface{}{"chunks": chunks})
	var defs core.StageDefs
	if err := json.Unmarshal(b, &defs); err != nil {
		rec.How = "errors"
		return nil, fmt.Errorf("verif: stage defs: %v", err)
	}
	switch fault {
	case "exit1-late", "kill9-late":
		// the chunk definitions are written (and journalled), then the process dies
		md.Write(core.StageDefsFile, &defs)
		md.UpdateJournal(core.StageDefsFile)
		die(strings.TrimSuffix(fault, "-late"))
	}
	rec.How = "complete"
	return &defs, nil
}

func mainOrJoin(phase string) adapter.MainFunc {
	return func(md *core.Metadata) (interface{}, error) {
		fault := prologue(md, phase)
		defer writeObs()
		switch fault {
		case "errors-early":
			rec.How = "errors"
			return nil, fmt.Errorf("verif: stage raised an error before producing output")
		case "assert-early":
			rec.How = "assert"
			return nil, adapter.StageAssertion("verif: stage assertion")
		case "panic":
			rec.How = "panic"
			panic("verif: stage code panic")
		}
		_, full, err := body(md, phase)
		if err != nil {
			rec.How = "errors"
			return nil, err
		}
		switch fault {
		case "no-outs":
			rec.How = "complete"
			return nil, nil
		case "exit1-late", "kill9-late":
			// the outputs are written, then the process dies
			os.WriteFile(md.MetadataFilePath(core.OutsFile), []byte(full), 0o644)
			die(strings.TrimSuffix(fault, "-late"))
		}
		rec.How = "complete"
		return json.RawMessage(full), nil
	}
}

// pyRequest is what pystages/<NAME>/__init__.py sends on stdin.
type pyRequest struct {
	Argv      []string        `json:"argv"` // martian_shell.py <module> <phase> <md> <files> <run file>
	Args      json.RawMessage `json:"args"`
	Outs      json.RawMessage `json:"outs"`
	ChunkDefs json.RawMessage `json:"chunk_defs"`
	ChunkOuts json.RawMessage `json:"chunk_outs"`
}

type pyResponse struct {
	Fault  string          `json:"fault,omitempty"`
	Chunks json.RawMessage `json:"chunks,omitempty"`
	Outs   json.RawMessage `json:"outs,omitempty"`
	Error  string          `json:"error,omitempty"`
}

// pyEval serves a stage written in python: the module hands over what the
// python adapter gave it, this process evaluates the stage function (and
// writes the files), the module returns the result through the adapter.
func pyEval() {
	var req pyRequest
	if err := json.NewDecoder(os.Stdin).Decode(&req); err != nil || len(req.Argv) < 6 {
		fmt.Println(`{"error": "vstage: bad request"}`)
		return
	}
	given = &req
	n := len(req.Argv)
	phase := req.Argv[n-4]
	md := core.NewMetadataRunWithJournalPath(filepath.Base(req.Argv[n-1]), req.Argv[n-3], req.Argv[n-2],
		filepath.Dir(req.Argv[n-1]), phase)
	var resp pyResponse
	fault := prologue(md, phase)
	switch fault {
	case "":
	case "no-outs":
	default:
		// the python module acts it out
		resp.Fault = fault
		rec.How = fault
		writeObs()
		b, _ := json.Marshal(&resp)
		os.Stdout.Write(b)
		return
	}
	r, full, err := body(md, phase)
	switch {
	case err != nil:
		resp.Error = err.Error()
		rec.How = "errors"
	case phase == "split":
		chunks := make([]json.RawMessage, 0, len(r.Chunks))
		for _, c := range r.Chunks {
			chunks = append(chunks, json.RawMessage(c.JSON()))
		}
		resp.Chunks, _ = json.Marshal(chunks)
		rec.How = "complete"
	default:
		if fault != "no-outs" {
			resp.Outs = json.RawMessage(full)
		}
		rec.How = "complete"
	}
	writeObs()
	b, _ := json.Marshal(&resp)
	os.Stdout.Write(b)
}

func main() {
	if len(os.Args) > 1 && os.Args[1] == "--pyeval" {
		pyEval()
		return
	}
	adapter.RunStage(split, mainOrJoin("main"), mainOrJoin("join"))
}
