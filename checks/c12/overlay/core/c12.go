//go:build verif

package core

// Harness bodies of the C12 check.  They run under the cooperative scheduler
// of package vshim; this file is only part of the c12 build, where
// resource_semaphore.go and maxjobs_semaphore.go use vshim.Mutex/Cond.

import (
	"fmt"
	"sort"
	"strings"

	"github.com/martian-lang/martian/martian/vshim"
)

// ---------------------------------------------------------------- semaphore

// refSem is the reference model: a FIFO queue served eagerly.
type refWaiter struct {
	tid int
	n   int64
}
type refSem struct {
	max, cur, reserved int64
	q                  []refWaiter
	granted            map[int]int // thread -> number of granted acquisitions
	refused            map[int]int
}

func (m *refSem) grant() {
	for len(m.q) > 0 && m.cur-m.reserved >= m.q[0].n {
		m.reserved += m.q[0].n
		m.granted[m.q[0].tid]++
		m.q = m.q[1:]
	}
}

// step is the critical section the model executes for an operation; phase
// distinguishes the acquire and the release half of "acq".
func (m *refSem) step(tid int, o SemOp, release bool) {
	switch o.Kind {
	case "acq", "hold":
		if release {
			m.reserved -= o.N
			m.grant()
			return
		}
		if m.cur-m.reserved >= o.N && len(m.q) == 0 {
			m.reserved += o.N
			m.granted[tid]++
		} else if o.N > m.max {
			m.refused[tid]++
		} else {
			m.q = append(m.q, refWaiter{tid, o.N})
		}
	case "actual":
		a := o.N + m.reserved
		if a > m.max {
			a = m.max
		}
		m.cur = a
		m.grant()
	case "size":
		m.cur = o.N
		m.grant()
	case "free":
		a := o.N + o.M
		if a > m.max {
			a = m.max
		}
		if o.M > m.reserved {
			a -= o.M - m.reserved
		}
		m.cur = a
		m.grant()
	case "obs":
	}
}

// SemResult is what one controlled execution of a SemScenario showed.
type SemResult struct {
	// States are the canonical implementation states seen after critical
	// sections (for distinct-state counting).
	States     []string
	Violations []string
	Outcome    string // canonical summary of the final state (for outcome counting)
	Steps      int    // model transitions compared
}

// VerifRunSem executes sc under the scheduler with the given choice prefix.
func VerifRunSem(sc SemScenario, prefix []int) (*vshim.Sched, *SemResult) {
	res := &SemResult{}
	viol := func(format string, a ...interface{}) {
		if len(res.Violations) < 8 {
			res.Violations = append(res.Violations, fmt.Sprintf(format, a...))
		}
	}
	var sem *ResourceSemaphore
	model := &refSem{max: sc.Max, cur: sc.Max, granted: map[int]int{}, refused: map[int]int{}}
	type cur struct {
		op      SemOp
		release bool
		active  bool
	}
	curOp := map[int]*cur{} // scheduler thread id -> operation in progress
	held := int64(0)        // what the harness threads believe they hold
	acquired := map[int]int{}
	refused := map[int]int{}
	finished := map[int]bool{}
	harnessOf := map[int]int{} // scheduler thread id -> harness thread index
	compare := func(where string) {
		res.Steps++
		{
			var q []string
			for _, w := range sem.waiters {
				q = append(q, fmt.Sprint(w.amount))
			}
			res.States = append(res.States, fmt.Sprintf("r%d c%d q%s h%d", sem.reserved, sem.curSize, strings.Join(q, ","), held))
		}
		if sem.reserved != model.reserved || sem.curSize != model.cur {
			viol("%s: reserved=%d size=%d, the FIFO reference model has reserved=%d size=%d", where, sem.reserved, sem.curSize, model.reserved, model.cur)
		}
		if len(sem.waiters) != len(model.q) {
			viol("%s: %d waiting request(s), the FIFO reference model has %d", where, len(sem.waiters), len(model.q))
		} else {
			for i, w := range sem.waiters {
				if w.amount != model.q[i].n {
					viol("%s: queue position %d waits for %d, the FIFO reference model has %d there", where, i, w.amount, model.q[i].n)
					break
				}
			}
		}
		if sem.reserved > sem.maxSize {
			viol("%s: %d reserved exceeds the limit %d", where, sem.reserved, sem.maxSize)
		}
		if len(sem.waiters) > 0 && sem.curSize-sem.reserved >= sem.waiters[0].amount {
			viol("%s: the oldest waiting request (%d) fits the free capacity %d but was not granted", where, sem.waiters[0].amount, sem.curSize-sem.reserved)
		}
	}
	body := func() {
		sem = NewResourceSemaphore(sc.Max, DefaultResourceFormatter("units"))
		vshim.Active().UnlockHook = func(m *vshim.Mutex, tid int) {
			if m != &sem.mu {
				return
			}
			c := curOp[tid]
			if c == nil || !c.active {
				viol("thread %d released the semaphore lock outside an operation", tid)
				return
			}
			model.step(tid, c.op, c.release)
			c.active = false
			compare(fmt.Sprintf("after %s%s by thread %d", map[bool]string{true: "release of ", false: ""}[c.release], c.op, harnessOf[tid]))
		}
		for i, ops := range sc.Threads {
			i, ops := i, ops
			vshim.Go(fmt.Sprintf("T%d", i), func() {
				tid := vshim.Active().Cur()
				harnessOf[tid] = i
				c := &cur{}
				curOp[tid] = c
				for _, o := range ops {
					switch o.Kind {
					case "acq", "hold":
						*c = cur{op: o, active: true}
						err := sem.Acquire(o.N)
						if err != nil {
							refused[tid]++
							continue
						}
						acquired[tid]++
						held += o.N
						if held > sc.Max {
							viol("threads hold %d of a resource limited to %d", held, sc.Max)
						}
						if o.Kind == "hold" {
							continue
						}
						vshim.Yield() // the job runs
						held -= o.N
						*c = cur{op: o, release: true, active: true}
						sem.Release(o.N)
					case "actual":
						*c = cur{op: o, active: true}
						sem.UpdateActual(o.N)
					case "size":
						*c = cur{op: o, active: true}
						sem.UpdateSize(o.N)
					case "free":
						*c = cur{op: o, active: true}
						sem.UpdateFreeUsed(o.N, o.M)
					case "obs":
						*c = cur{op: o, active: true}
						r := sem.Reserved()
						if r != model.reserved {
							viol("Reserved() = %d, the reference model has %d", r, model.reserved)
						}
						*c = cur{op: o, active: true}
						if a := sem.Available(); a != model.cur-model.reserved {
							viol("Available() = %d, the reference model has %d", a, model.cur-model.reserved)
						}
						*c = cur{op: o, active: true}
						if q := sem.QueueLength(); q != len(model.q) {
							viol("QueueLength() = %d, the reference model has %d", q, len(model.q))
						}
						*c = cur{op: o, active: true}
						if u := sem.InUse(); u != model.max-model.cur+model.reserved {
							viol("InUse() = %d, the reference model has %d", u, model.max-model.cur+model.reserved)
						}
					}
				}
				finished[tid] = true
			})
		}
	}
	s := vshim.RunOnce(prefix, 10000, body)
	if s.Panic != "" {
		viol("panic: %s", firstLines(s.Panic, 6))
	}
	if s.Err != "" {
		return s, res // replay divergence / step limit: the caller decides
	}
	// quiescence: who is blocked, and should they be?
	for tid, i := range harnessOf {
		if acquired[tid] != model.granted[tid] || refused[tid] != model.refused[tid] {
			viol("thread %d was granted %d and refused %d request(s); the FIFO reference model grants %d and refuses %d", i, acquired[tid], refused[tid], model.granted[tid], model.refused[tid])
		}
		if !finished[tid] {
			// blocked in Acquire: it must be in the model's queue
			inq := false
			for _, w := range model.q {
				if w.tid == tid {
					inq = true
				}
			}
			if !inq {
				viol("thread %d is blocked although the reference model granted or refused its request", i)
			}
		}
	}
	if sem != nil {
		var q []string
		for _, w := range sem.waiters {
			q = append(q, fmt.Sprint(w.amount))
		}
		var blocked []int
		for tid, i := range harnessOf {
			if !finished[tid] {
				blocked = append(blocked, i)
			}
		}
		sort.Ints(blocked)
		res.Outcome = fmt.Sprintf("reserved=%d size=%d queue=[%s] blocked=%v", sem.reserved, sem.curSize, strings.Join(q, ","), blocked)
	}
	return s, res
}

func firstLines(s string, n int) string {
	lines := strings.Split(s, "\n")
	if len(lines) > n {
		lines = lines[:n]
	}
	return strings.Join(lines, " / ")
}

// ----------------------------------------------------------------- max jobs

type JobsResult struct {
	// States are the canonical implementation states seen after critical
	// sections (for distinct-state counting).
	States     []string
	Violations []string
	Outcome    string
	Steps      int
}

// verifReattach does what RemoteJobManager.reattach does with its semaphore.
func verifReattach(sem *MaxJobsSemaphore, md *Metadata) {
	jm := &RemoteJobManager{jobSem: sem}
	jm.reattach(md)
}

// VerifRunJobs executes sc under the scheduler.
func VerifRunJobs(sc JobsScenario, prefix []int) (*vshim.Sched, *JobsResult) {
	res := &JobsResult{}
	viol := func(format string, a ...interface{}) {
		if len(res.Violations) < 8 {
			res.Violations = append(res.Violations, fmt.Sprintf(format, a...))
		}
	}
	var sem *MaxJobsSemaphore
	mds := make([]*Metadata, sc.Jobs)
	idx := map[*Metadata]int{}
	// reference model
	slots := map[int]bool{}
	live := func(j int) bool { // queued or waiting: may still be submitted
		st, ok := mds[j].getState()
		return !ok || st == Queued || st == Waiting
	}
	type attempt struct {
		j           int
		nonblocking bool
		active      bool
		// what the model decided: 0 undecided (waiting), 1 true, 2 false
		verdict int
	}
	cur := map[int]*attempt{}
	kind := map[int]string{} // what the thread is doing when it unlocks: acquire release find
	submitted := map[int]bool{}
	finished := map[int]bool{}
	harnessOf := map[int]int{}
	inAcquire := map[int]bool{}
	compare := func(where string) {
		res.Steps++
		if len(sem.running) > sem.Limit {
			viol("%s: %d jobs hold a slot, the limit is %d", where, len(sem.running), sem.Limit)
		}
		var real, ref []int
		for m := range sem.running {
			real = append(real, idx[m])
		}
		for j := range slots {
			ref = append(ref, j)
		}
		sort.Ints(real)
		sort.Ints(ref)
		{
			var st []string
			for _, m := range mds {
				x, _ := m.getState()
				st = append(st, string(x))
			}
			res.States = append(res.States, fmt.Sprintf("s%v w%d %s", real, len(sem.cond.VerifWaiters()), strings.Join(st, ",")))
		}
		if fmt.Sprint(real) != fmt.Sprint(ref) {
			viol("%s: slots are held by jobs %v, the reference model has %v", where, real, ref)
		}
	}
	body := func() {
		sem = NewMaxJobsSemaphore(sc.Limit)
		for j := range mds {
			mds[j] = NewMetadata(fmt.Sprintf("ID.ps.TOP.S%d.fork0.chnk0", j), fmt.Sprintf("/nonexistent/S%d", j))
			idx[mds[j]] = j

			verifSetState(mds[j], JobInfoFile) // queued
		}
		vshim.Active().UnlockHook = func(m *vshim.Mutex, tid int) {
			if m != &sem.lock {
				return
			}
			switch kind[tid] {
			case "acquire":
				a := cur[tid]
				if a == nil || !a.active {
					viol("thread %d released the lock outside an operation", tid)
					return
				}
				// one attempt of Acquire, decided on the state under the lock
				if len(slots) >= sc.Limit {
					switch {
					case !live(a.j):
						a.verdict = 2
					case slots[a.j]:
						a.verdict = 1
					case a.nonblocking:
						a.verdict = 2
					default:
						a.verdict = 0 // keeps waiting
					}
				} else if !live(a.j) {
					a.verdict = 2
				} else {
					slots[a.j] = true
					a.verdict = 1
				}
				compare(fmt.Sprintf("after an acquire attempt for job %d by thread %d", a.j, harnessOf[tid]))
			case "reattach":
				// a job an earlier mrp submitted and which is still running
				// takes its slot back
				slots[cur[tid].j] = true
				compare(fmt.Sprintf("after the re-attach of running job %d", cur[tid].j))
			case "release":
				delete(slots, cur[tid].j)
				compare(fmt.Sprintf("after the release of job %d", cur[tid].j))
			case "find":
				for j := range slots {
					if st, ok := mds[j].getState(); ok && st != Running && st != Queued {
						delete(slots, j)
					}
				}
				compare("after FindDone")
			}
		}
		// re-attach: these jobs run on the cluster whether the semaphore
		// knows them or not
		for _, j := range sc.Reattach {
			verifSetState(mds[j], LogFile) // running
			submitted[j] = true
			tid := vshim.Active().Cur()
			cur[tid] = &attempt{j: j, nonblocking: true, active: true}
			kind[tid] = "reattach"
			verifReattach(sem, mds[j])
			cur[tid].active = false
			kind[tid] = "none"
			if _, counted := sem.running[mds[j]]; !counted {
				viol("job %d is running on the cluster when mrp re-attaches, but does not count against --maxjobs afterwards", j)
			}
		}
		// re-attach: these jobs run on the cluster whether the semaphore
		// knows them or not
		for _, j := range sc.Reattach {
			verifSetState(mds[j], LogFile) // running
			submitted[j] = true
			tid := vshim.Active().Cur()
			cur[tid] = &attempt{j: j, nonblocking: true, active: true}
			kind[tid] = "reattach"
			verifReattach(sem, mds[j])
			cur[tid].active = false
			kind[tid] = "none"
			if _, counted := sem.running[mds[j]]; !counted {
				viol("job %d is running on the cluster when mrp re-attaches, but does not count against --maxjobs afterwards", j)
			}
		}
		for i, ops := range sc.Threads {
			i, ops := i, ops
			vshim.Go(fmt.Sprintf("T%d", i), func() {
				tid := vshim.Active().Cur()
				harnessOf[tid] = i
				for _, o := range ops {
					switch o.Kind {
					case "job", "lost", "try":
						if !live(o.J) {
							// as in execJob: a state other than queued/waiting returns before locking
						}
						a := &attempt{j: o.J, nonblocking: o.Kind == "try", active: true}
						cur[tid] = a
						kind[tid] = "acquire"
						earlyDead := !live(o.J)
						inAcquire[tid] = true
						ok := sem.Acquire(mds[o.J], a.nonblocking)
						inAcquire[tid] = false
						a.active = false
						if earlyDead {
							if ok {
								viol("Acquire succeeded for job %d which is no longer queued", o.J)
							}
							continue
						}
						want := a.verdict == 1
						if ok != want {
							viol("Acquire for job %d returned %v, the reference model says %v", o.J, ok, want)
						}
						if !ok {
							continue
						}
						submitted[o.J] = true
						n := 0
						for j := range submitted {
							if st, sok := mds[j].getState(); submitted[j] && (!sok || st == Queued || st == Running) {
								n++
							}
						}
						if n > sc.Limit {
							viol("%d jobs are submitted and unfinished at once, the limit is %d", n, sc.Limit)
						}
						// submitted, pending in the cluster's queue: still "queued"
						// (only _jobinfo exists) until the cluster starts it
						vshim.Yield()
						verifSetState(mds[o.J], LogFile) // running
						vshim.Yield()
						verifSetState(mds[o.J], CompleteFile)
						if o.Kind != "lost" {
							kind[tid] = "release"
							sem.Release(mds[o.J])
						}
						delete(submitted, o.J)
					case "finish":
						// a re-attached job ends on the cluster
						vshim.Yield()
						verifSetState(mds[o.J], CompleteFile)
						cur[tid] = &attempt{j: o.J}
						kind[tid] = "release"
						sem.Release(mds[o.J])
						delete(submitted, o.J)
					case "cancel":
						verifSetState(mds[o.J], Errors)
						vshim.Yield()
					case "find":
						kind[tid] = "find"
						sem.FindDone()
					}
				}
				finished[tid] = true
			})
		}
	}
	s := vshim.RunOnce(prefix, 10000, body)
	if s.Panic != "" {
		viol("panic: %s", firstLines(s.Panic, 6))
	}
	if s.Err != "" {
		return s, res
	}
	// quiescence: nobody may be blocked while a slot is free
	var blocked []int
	for tid, i := range harnessOf {
		if !finished[tid] {
			blocked = append(blocked, i)
			if inAcquire[tid] && sem != nil && len(sem.running) < sem.Limit {
				viol("thread %d still waits for a slot for job %d although only %d of %d slots are taken and nothing else can happen", i, cur[tid].j, len(sem.running), sem.Limit)
			}
		}
	}
	sort.Ints(blocked)
	if sem != nil {
		var real []int
		for m := range sem.running {
			real = append(real, idx[m])
		}
		sort.Ints(real)
		res.Outcome = fmt.Sprintf("slots=%v blocked=%v", real, blocked)
	}
	return s, res
}

// ------------------------------------------------------- local job manager

type LocalResult struct {
	// States are the canonical implementation states seen after critical
	// sections (for distinct-state counting).
	States     []string
	Violations []string
	Outcome    string
	Steps      int
}

// VerifRunLocal enqueues the jobs of sc on a real LocalJobManager whose
// executeLocal is the harness job body.
func VerifRunLocal(sc LocalScenario, prefix []int) (*vshim.Sched, *LocalResult) {
	res := &LocalResult{}
	viol := func(format string, a ...interface{}) {
		if len(res.Violations) < 8 {
			res.Violations = append(res.Violations, fmt.Sprintf(format, a...))
		}
	}
	var jm *LocalJobManager
	mds := make([]*Metadata, len(sc.Jobs))
	idx := map[*Metadata]int{}
	running := map[int]bool{}
	done := 0
	maxSeen := [2]float64{}
	body := func() {
		jm = newVerifLocalJM(sc)
		for j := range sc.Jobs {
			mds[j] = NewMetadata(fmt.Sprintf("ID.ps.TOP.S%d.fork0.chnk0", j), fmt.Sprintf("/nonexistent/S%d", j))
			idx[mds[j]] = j
			if j < len(sc.Killed) && sc.Killed[j] {
				verifSetState(mds[j], Errors)
			}
		}
		// the semaphores' sizes never change in this scenario, so what a
		// request is clamped to does not depend on when it is asked
		promised := make([]JobResources, len(sc.Jobs))
		for j := range sc.Jobs {
			promised[j] = jm.GetSystemReqs(&sc.Jobs[j])
		}
		VerifExecHook = func(md *Metadata) error {
			j := idx[md]
			running[j] = true
			res.Steps++
			res.States = append(res.States, fmt.Sprintf("run%v c%d m%d q%d/%d", keysOf(running), jm.centcoreSem.reserved, jm.memMBSem.reserved, len(jm.centcoreSem.waiters), len(jm.memMBSem.waiters)))
			// what the running jobs were promised
			var thr, mem, vmem float64
			for k := range running {
				thr += promised[k].Threads
				mem += promised[k].MemGB
				vmem += promised[k].VMemGB
			}
			if sc.VmemGB > 0 && vmem > float64(sc.VmemGB)+1e-9 {
				viol("jobs %v run at once with %g GB of virtual memory reserved, the limit is %d GB", keysOf(running), vmem, sc.VmemGB)
			}
			if thr > maxSeen[0] {
				maxSeen[0] = thr
			}
			if mem > maxSeen[1] {
				maxSeen[1] = mem
			}
			if thr > float64(sc.Cores)+1e-9 {
				viol("jobs %v run at once with %g threads reserved, the limit is %d cores", keysOf(running), thr, sc.Cores)
			}
			if mem > float64(sc.MemGB)+1e-9 {
				viol("jobs %v run at once with %g GB reserved, the limit is %d GB", keysOf(running), mem, sc.MemGB)
			}
			if jm.centcoreSem.reserved > int64(sc.Cores)*100 || jm.memMBSem.reserved > int64(sc.MemGB)*1024 {
				viol("semaphores hold %d centicores / %d MB, the limits are %d / %d", jm.centcoreSem.reserved, jm.memMBSem.reserved, sc.Cores*100, sc.MemGB*1024)
			}
			if jm.vmemMBSem != nil && jm.vmemMBSem.reserved > jm.maxVmemMB {
				viol("vmem semaphore holds %d MB, the limit is %d", jm.vmemMBSem.reserved, jm.maxVmemMB)
			}
			vshim.Yield() // the job runs
			delete(running, j)
			done++
			return nil
		}
		for j := range sc.Jobs {
			req := sc.Jobs[j]
			jm.Enqueue("/bin/true", []string{"x"}, nil, mds[j], &req, mds[j].fqname, 0, 0, false)
		}
	}
	s := vshim.RunOnce(prefix, 20000, body)
	VerifExecHook = nil
	if s.Panic != "" {
		viol("panic: %s", firstLines(s.Panic, 6))
	}
	if s.Err != "" {
		return s, res
	}
	live := 0
	for j := range sc.Jobs {
		if j >= len(sc.Killed) || !sc.Killed[j] {
			live++
		}
	}
	// whether a killed job still runs is not specified; the others must
	if done < live || done > len(sc.Jobs) {
		viol("%d of %d jobs ran although every request fits the limits after clamping; blocked threads: %v", done, len(sc.Jobs), s.Blocked)
	}
	if jm != nil && (jm.centcoreSem.reserved != 0 || jm.memMBSem.reserved != 0) {
		viol("after all jobs ended %d centicores and %d MB are still reserved", jm.centcoreSem.reserved, jm.memMBSem.reserved)
	}
	res.Outcome = fmt.Sprintf("done=%d peak=%g threads/%g GB", done, maxSeen[0], maxSeen[1])
	return s, res
}

// VerifSystemReqs evaluates GetSystemReqs for the request grid of C12.  avail is the current size of the
// memory semaphore (adaptive requests look at it).
func VerifSystemReqs(sc LocalScenario, req JobResources, availMB int64) JobResources {
	jm := newVerifLocalJM(sc)
	jm.memMBSem.UpdateSize(availMB)
	if jm.vmemMBSem != nil {
		jm.vmemMBSem.UpdateSize(availMB + 1024)
	}
	return jm.GetSystemReqs(&req)
}
