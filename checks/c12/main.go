//go:build verif

// C12: resource limits are never exceeded and never stall the pipestance.
//
// Exhaustive schedule exploration (iterative preemption bounding) of the real
// ResourceSemaphore, MaxJobsSemaphore and LocalJobManager.Enqueue under the
// cooperative scheduler of package vshim, in lock step with boring reference
// models, plus an exhaustive grid over GetSystemReqs.
package main

import (
	"encoding/json"
	"fmt"
	"math"
	"os"
	"os/exec"
	"path/filepath"
	"sort"
	"strings"
	"time"

	"github.com/martian-lang/martian/martian/core"
	"github.com/martian-lang/martian/martian/vshim"

	"verif/lib/c12sc"
	"verif/lib/ev"
	"verif/lib/psx"
	"verif/lib/vexp"
)

// Case is the replayable unit: one scenario and one schedule.
type Case struct {
	Kind    string              `json:"kind"`
	Sem     *core.SemScenario   `json:"sem,omitempty"`
	Jobs    *core.JobsScenario  `json:"jobs,omitempty"`
	Local   *core.LocalScenario `json:"local,omitempty"`
	Req     *core.JobResources  `json:"request,omitempty"`
	AvailMB int64               `json:"avail_mb,omitempty"`
	Choices []int               `json:"choices,omitempty"`
}

func (c Case) String() string {
	switch c.Kind {
	case "sem":
		return c.Sem.String()
	case "jobs":
		return c.Jobs.String()
	case "local":
		return c.Local.String()
	}
	return fmt.Sprintf("reqs{%s request=%g/%g/%g avail=%d}", c.Local.String(), c.Req.Threads, c.Req.MemGB, c.Req.VMemGB, c.AvailMB)
}

// run executes the case once with a choice prefix.
func (c Case) run(prefix []int) (s *vshim.Sched, viol []string, outcome string, steps int) {
	s, viol, outcome, states := c.runStates(prefix)
	return s, viol, outcome, len(states)
}

func (c Case) runStates(prefix []int) (s *vshim.Sched, viol []string, outcome string, states []string) {
	switch c.Kind {
	case "sem":
		s, r := core.VerifRunSem(*c.Sem, prefix)
		return s, r.Violations, r.Outcome, r.States
	case "jobs":
		s, r := core.VerifRunJobs(*c.Jobs, prefix)
		return s, r.Violations, r.Outcome, r.States
	case "local":
		s, r := core.VerifRunLocal(*c.Local, prefix)
		return s, r.Violations, r.Outcome, r.States
	}
	panic("kind " + c.Kind)
}

func sig(v string) string {
	words := strings.Fields(v)
	for i, w := range words {
		if strings.ContainsAny(w, "0123456789[(") {
			words[i] = "_"
		}
	}
	if len(words) > 9 {
		words = words[:9]
	}
	return "C12:" + strings.Join(words, "_")
}

// reqGrid checks GetSystemReqs over the whole request grid (no concurrency).
func reqGrid(r *ev.Run) {
	threads := []float64{-2, -1, -0.5, -0.001, 0, 0.001, 0.3, 1, 1.5, 2, 3.99, 4, 4.01, 5, 1e9, 1e300}
	mems := []float64{-8, -2, -0.5, -0.0001, 0, 0.0005, 0.5, 1, 3.9, 4, 4.1, 100, 1e300}
	vmems := []float64{-8, -1, 0, 0.5, 4, 7, 100}
	n := 0
	for _, cores := range []int{1, 2, 4} {
		for _, mem := range []int{1, 4} {
			for _, vmem := range []int{0, 6} {
				for _, dflt := range [][2]int{{1, 1}, {2, 2}, {8, 8}} {
					for _, avail := range []int64{int64(mem) * 1024, int64(mem) * 512, 1, 0} {
						sc := core.LocalScenario{Cores: cores, MemGB: mem, VmemGB: vmem, Default: dflt}
						for _, t := range threads {
							for _, m := range mems {
								for _, v := range vmems {
									req := core.JobResources{Threads: t, MemGB: m, VMemGB: v}
									res := core.VerifSystemReqs(sc, req, avail)
									n++
									var bad []string
									if !(res.Threads > 0) || res.Threads > float64(cores) {
										bad = append(bad, fmt.Sprintf("threads %g outside (0, %d]", res.Threads, cores))
									}
									if !(res.MemGB > 0) || res.MemGB > float64(mem) {
										bad = append(bad, fmt.Sprintf("memory %g GB outside (0, %d]", res.MemGB, mem))
									}
									if vmem > 0 && (res.VMemGB < 0 || res.VMemGB > float64(vmem)) {
										bad = append(bad, fmt.Sprintf("vmem %g GB outside [0, %d]", res.VMemGB, vmem))
									}
									if math.IsNaN(res.Threads) || math.IsNaN(res.MemGB) || math.IsNaN(res.VMemGB) {
										bad = append(bad, "NaN")
									}
									for _, b := range bad {
										c := Case{Kind: "reqs", Local: &sc, Req: &req, AvailMB: avail}
										sg := sig("GetSystemReqs: " + b)
										if math.Abs(t) >= 1e15 || math.Abs(m) >= 1e15 || math.Abs(v) >= 1e15 {
											// the request in MB does not fit an int64
											sg = "C12:GetSystemReqs:request-beyond-int64:" + strings.Fields(b)[0]
										}
										r.Report(ev.Finding{Sig: sg, What: c.String() + ": the normalised request has " + b, Case: c})
									}
								}
							}
						}
					}
				}
			}
		}
	}
	r.EvalN(int64(n))
	r.Set("request_grid_points", n)
}

// explore runs the schedule exploration of one case; returns false when the
// budget ran out.
func keys(m map[string]int) []string {
	var out []string
	for k := range m {
		out = append(out, k)
	}
	sort.Strings(out)
	return out
}

func explore(r *ev.Run, c Case, bound int, maxExecs int, sampleEvery int) {
	outcomes := map[string]int{}
	steps := 0
	reported := 0
	e := &vexp.Explorer{Bound: bound, MaxExecs: maxExecs,
		Stop: func() bool { return r.Expired("schedule enumeration") },
		Run: func(prefix []int) *vshim.Sched {
			s, _, _, _ := c.run(prefix)
			return s
		}}
	e.Run = nil
	var lastViol []string
	var lastOutcome string
	var lastSteps int
	states := map[string]struct{}{}
	e.Run = func(prefix []int) *vshim.Sched {
		s, v, o, st := c.runStates(prefix)
		lastViol, lastOutcome, lastSteps = v, o, len(st)
		for _, k := range st {
			states[k] = struct{}{}
		}
		return s
	}
	e.Check = func(s *vshim.Sched, choices []int) {
		outcomes[lastOutcome]++
		steps += lastSteps
		if len(lastViol) == 0 || reported >= 3 {
			return
		}
		v1 := append([]string{}, lastViol...)
		// the same schedule must fail the same way before it is believed
		_, v2, _, _ := c.run(choices)
		if strings.Join(v1, "\n") != strings.Join(v2, "\n") {
			r.Inconclusive(c.String() + ": schedule " + fmt.Sprint(choices) + " did not reproduce: " + v1[0])
			return
		}
		reported++
		cc := c
		cc.Choices = append([]int{}, choices...)
		for _, v := range v1 {
			r.Report(ev.Finding{Sig: sig(v), What: c.String() + " schedule " + fmt.Sprint(choices) + ": " + v, Case: cc})
		}
	}
	e.Explore()
	r.EvalN(int64(e.Execs))
	r.Add("schedules", int64(e.Execs))
	r.Add("transitions", int64(e.Transitions))
	r.Add("model_steps_compared", int64(steps))
	r.Add("states", int64(len(states)))
	r.Add("traces_validated_against_impl", int64(e.Execs))
	if sampleEvery > 0 && e.Execs > 0 {
		r.Sample(map[string]interface{}{"scenario": c.String(), "schedules": e.Execs, "distinct_states": len(states), "final_states": keys(outcomes)})
	}
	r.Distinct(c.String())
	for o := range outcomes {
		r.Outcome(c.Kind + ":" + o)
	}
	if len(outcomes) > 1 {
		r.Add("scenarios_with_several_outcomes", 1)
	}
	if e.Err != "" {
		r.Inconclusive(c.String() + ": " + e.Err)
	}
	if e.Capped && !r.Expired("") {
		r.Cap(fmt.Sprintf("%s: execution cap %d", c.String(), maxExecs))
	}
}

// racePass runs the free-running -race companion binary (same scenario
// bodies, unmodified sync) and records what the detector reported.  A report
// is evidence that the scheduling points are too coarse, not a violation of
// the property.
func racePass(r *ev.Run) {
	bin := filepath.Join(ev.Root(), ".build", "bin", "c12race")
	if _, err := os.Stat(bin); err != nil {
		r.Set("race_pass", "not built")
		return
	}
	dir, err := os.MkdirTemp("/dev/shm", "c12race-")
	if err != nil {
		return
	}
	defer os.RemoveAll(dir)
	budget := "6"
	if r.Thorough() {
		budget = "90"
	}
	cmd := exec.Command(bin)
	cmd.Env = append(os.Environ(), "GORACE=log_path="+filepath.Join(dir, "race")+" exitcode=0 halt_on_error=0", "C12RACE_BUDGET_S="+budget)
	out, _ := cmd.CombinedOutput()
	summary := map[string]int{}
	for _, l := range strings.Split(string(out), "\n") {
		if strings.HasPrefix(l, "C12RACE ") {
			json.Unmarshal([]byte(strings.TrimPrefix(l, "C12RACE ")), &summary)
		}
	}
	reports := 0
	first := ""
	logs, _ := filepath.Glob(filepath.Join(dir, "race*"))
	for _, f := range logs {
		b, _ := os.ReadFile(f)
		reports += strings.Count(string(b), "WARNING: DATA RACE")
		if first == "" && len(b) > 0 {
			first = ev.Short(string(b), 1500)
		}
	}
	r.Set("race_pass", map[string]interface{}{"free_running_runs": summary["runs"], "scenario_rounds": summary["scenario_rounds"],
		"threads_left_blocked": summary["left_blocked"], "data_race_reports": reports, "first_report": first})
	if reports > 0 {
		fmt.Printf("  note: the free-running -race pass reported %d data race(s); see evidence race_pass.first_report\n", reports)
	}
}

func main() {
	r := ev.New("C12", "model_checking")
	r.SetBudget(200*time.Second, 40*time.Minute)
	core.VerifQuiet()
	if r.ReplayPath != "" {
		var c Case
		if err := ev.LoadReplay(r.ReplayPath, &c); err != nil {
			fmt.Println(err)
			os.Exit(2)
		}
		r.Eval("replay")
		r.Sample(c)
		if c.Kind == "reqs" {
			res := core.VerifSystemReqs(*c.Local, *c.Req, c.AvailMB)
			fmt.Printf("GetSystemReqs -> threads=%g mem=%g vmem=%g\n", res.Threads, res.MemGB, res.VMemGB)
			reqGrid(r)
			r.Finish()
		}
		s, v1, o1, _ := c.run(c.Choices)
		_, v2, o2, _ := c.run(c.Choices)
		if strings.Join(v1, "\n") != strings.Join(v2, "\n") || o1 != o2 {
			fmt.Println("replay is not deterministic")
			os.Exit(2)
		}
		fmt.Println("outcome:", o1, "decisions:", len(s.Trace), s.Err)
		for _, v := range v1 {
			r.Report(ev.Finding{Sig: sig(v), What: c.String() + " schedule " + fmt.Sprint(c.Choices) + ": " + v, Case: c})
		}
		r.Finish()
	}
	bound := 2
	if r.Thorough() {
		bound = 3
	}
	var fam []Case
	for _, sc := range c12sc.Sem(r.Thorough()) {
		sc := sc
		fam = append(fam, Case{Kind: "sem", Sem: &sc})
	}
	for _, sc := range c12sc.Jobs(r.Thorough()) {
		sc := sc
		fam = append(fam, Case{Kind: "jobs", Jobs: &sc})
	}
	for _, sc := range c12sc.Local(r.Thorough()) {
		sc := sc
		fam = append(fam, Case{Kind: "local", Local: &sc})
	}
	if !ev.IsWorker() {
		reqGrid(r)
		nSem, nJobs, nLocal := 0, 0, 0
		for _, c := range fam {
			switch c.Kind {
			case "sem":
				nSem++
			case "jobs":
				nJobs++
			case "local":
				nLocal++
			}
		}
		r.Rule = fmt.Sprintf("stateless depth-first exploration of ALL schedules with at most %d preemptions (scheduling points: every Lock, Cond.Wait and its re-acquisition, blocking channel receive, goroutine start, and the point where a job 'runs'; resource_semaphore.go and maxjobs_semaphore.go are compiled with sync.Mutex/sync.Cond/<-c/close(c) mechanically replaced by scheduler-aware equivalents, go statements by spawns, executeLocal by the harness job body) of "+
			"(a) %d ResourceSemaphore scenarios: limit 4, 2-3 (thorough 4) threads each Acquire(n); hold; Release(n) with n in {1..5} (5 exceeds the limit), optionally re-acquiring, an observer, or an updater doing 1-2 of 8 UpdateActual/UpdateSize/UpdateFreeUsed operations; after EVERY critical section the real fields (reserved, current size, queue contents) are compared with a FIFO reference model stepped by the same operation, plus reserved <= limit, head-of-queue-fits => granted, holders' own ledger <= limit, and at quiescence granted/refused/blocked threads equal the model's; "+
			"(b) %d MaxJobsSemaphore scenarios: limits 1-2, three submitters (blocking, re-attach/non-blocking, completion without Release), duplicate metadata, cancellation while waiting, FindDone: slot set compared with a reference model after every critical section, |slots| <= limit, submitted-and-unfinished jobs <= limit, Acquire results equal the model's, and at quiescence nobody waits while a slot is free; "+
			"(c) %d LocalJobManager.Enqueue scenarios on the real code path (GetSystemReqs, cores -> memory -> vmem acquisition, deferred release): 2-3 jobs from 9 request shapes (default, exact, over the limit, adaptive, fractional), with and without a vmem limit: reservations of simultaneously running jobs <= limits, every job runs, nothing stays reserved; "+
			"(d) GetSystemReqs on the full grid of 3x2x2x3 limit settings x 4 availabilities x 16x13x7 requests: 0 < threads <= cores, 0 < mem <= limit, vmem <= limit. "+
			"A violating schedule is re-run and must reproduce before it is reported. distinct = scenarios; outcomes = distinct final states per scenario kind",
			bound, nSem, nJobs, nLocal)
		racePass(r)
		psx.TierBResources(r)
		r.Set("preemption_bound", bound)
		r.Set("scenarios", len(fam))
		r.RunWorkers(0)
		r.Assume("sync.Cond.Signal wakes the longest-waiting goroutine (what the Go runtime's notifyList does); a woken waiter still competes for the mutex with every other thread")
		r.Assume("all shared state of the two semaphores is accessed under their mutex: checked by the free-running -race pass of the same scenario bodies on the unmodified files (evidence key race_pass; 6 s in quick, 90 s in thorough); UpdateSize is only called with sizes up to the hard limit, as LocalJobManager does")
		r.Finish()
	}
	order := r.Rotate(len(fam))
	// cheap scenarios first inside every worker: keep the enumeration order
	sort.Ints(order)
	for wi, idx := range order {
		if !r.Mine(wi) {
			continue
		}
		if r.Expired("scenario enumeration") {
			break
		}
		maxExecs := 200000
		if r.Thorough() {
			maxExecs = 3000000
		}
		se := 0
		if wi%401 == 0 {
			se = 1
		}
		explore(r, fam[idx], bound, maxExecs, se)
	}
	r.Done()
}
