//go:build verif

// C13: final outputs are materialised faithfully under outs/.
package main

import "verif/lib/psx"

func main() { psx.OutsCheck() }
