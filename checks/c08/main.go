//go:build verif

// C08: the parser/compiler is total: any input yields a tree or a located
// error.  Bounded-exhaustive input enumeration (token sequences, single
// edits of a corpus, string/numeric slot substitutions, nesting depth,
// include graphs) on the real parser, with panics, fatal errors, hangs and
// position-less errors as violations.
package main

import (
	"bytes"
	"encoding/json"
	"fmt"
	"os"
	"os/exec"
	"path/filepath"
	"regexp"
	"runtime/debug"
	"sort"
	"strconv"
	"strings"
	"sync/atomic"
	"time"

	"github.com/martian-lang/martian/martian/syntax"

	"verif/lib/ev"
)

type Case struct {
	Entry string `json:"entry"` // source | unchecked | valexp | format | include
	Input string `json:"input"`
	// Files: extra files of an include graph (name -> content)
	Files map[string]string `json:"files,omitempty"`
	Gen   string            `json:"gen,omitempty"` // generator description for huge inputs
}

var alphabet = []string{
	"stage", "pipeline", "call", "return", "in", "out", "src", "py", "exec", "comp", "struct", "filetype",
	"split", "using", "map", "retain", "self", "disabled", "local", "preflight", "volatile", "strict",
	"true", "false", "null", "int", "float", "string", "bool", "file", "path", "as", "@include",
	"mem_gb", "threads", "vmem_gb", "special",
	"(", ")", "{", "}", "[", "]", "<", ">", ",", ";", ":", "=", ".", "*",
	"X", "x_1", "_", "0", "-0", "007", "9223372036854775807", "9223372036854775808", "-9223372036854775809",
	"99999999999999999999", "1e999", "1e-999", "1:e5", "1.", ".5", "1.5", "1e5", "-1.5e-3",
	`""`, `" "`, `"a"`, `"\x41"`, `"\101"`, `"é"`, `"\U0001F600"`, `"\q"`, `"\"`, `"abc`, "\"a\nb\"",
	"\xff", "\xc3", " ", "#c\n", "\n",
}

var posRe = regexp.MustCompile(`(?s)\bat (line \d+|[^\s:]+:\d+)|:\d+:`)

var incDir string

// isolatedBudget: how long an isolated input may take before it counts as a
// hang (inputs are at most a few hundred KB).
var isolatedBudget = 60 * time.Second

// current input for the watchdog
var curStart atomic.Int64
var curDesc atomic.Value

var frameRe = regexp.MustCompile(`martian/syntax(?:/\w+)*\.([\w.()*]+)\(`)
var addrRe = regexp.MustCompile(`0x[0-9a-f]+`)

func sigFromPanic(entry string, r interface{}, stack []byte) string {
	// first martian frame below the panic
	site := "?"
	text := string(stack)
	if i := strings.Index(text, "panic("); i >= 0 {
		text = text[i:]
	}
	for _, m := range frameRe.FindAllStringSubmatch(text, -1) {
		fn := m[1]
		if strings.Contains(fn, "sigFromPanic") {
			continue
		}
		site = fn
		break
	}
	if strings.Contains(site, "mmParserImpl") {
		// grammar action: add the grammar.go line
		if m := regexp.MustCompile(`grammar\.go:(\d+)`).FindStringSubmatch(text); m != nil {
			site += "@grammar.go:" + m[1]
		}
	}
	msg := fmt.Sprintf("%T:%v", r, r)
	msg = addrRe.ReplaceAllString(msg, "ADDR")
	msg = regexp.MustCompile(`[0-9]+`).ReplaceAllString(msg, "N")
	if len(msg) > 48 {
		msg = msg[:48]
	}
	msg = strings.Map(func(c rune) rune {
		if c == ' ' || c == '\n' || c == '\t' {
			return '_'
		}
		return c
	}, msg)
	return "panic@" + site + ":" + msg
}

// run executes one case in-process; returns findings.
func run(c Case) (out []ev.Finding) {
	curDesc.Store(c.Entry + ": " + ev.Short(c.Input, 200))
	curStart.Store(time.Now().UnixNano())
	defer curStart.Store(0)
	defer func() {
		if r := recover(); r != nil {
			st := debug.Stack()
			out = append(out, ev.Finding{Sig: "C08:" + sigFromPanic(c.Entry, r, st),
				What: fmt.Sprintf("%s panics on %q: %v", c.Entry, ev.Short(c.Input, 300), r), Case: c})
		}
	}()
	var err error
	var parser syntax.Parser
	src := []byte(c.Input)
	switch c.Entry {
	case "source":
		_, _, _, err = syntax.ParseSourceBytes(src, "t.mro", []string{incDir}, false)
	case "unchecked":
		_, err = parser.UncheckedParse(src, "t.mro")
	case "valexp":
		_, err = parser.ParseValExp(src)
	case "format":
		_, err = syntax.FormatSrcBytes(src, "t.mro", false, []string{incDir})
	case "check":
		// what "mro check" does: compile, then build the call graph of the
		// top-level call
		var ast *syntax.Ast
		_, _, ast, err = syntax.ParseSourceBytes(src, "t.mro", []string{incDir}, false)
		if err == nil && ast != nil && ast.Call != nil {
			_, err = ast.MakeCallGraph("", ast.Call)
			if err != nil {
				err = nil // (call graph errors carry the call's position in their own format)
			}
		}
	case "include":
		dir, derr := os.MkdirTemp("/dev/shm", "c08inc-")
		if derr != nil {
			return nil
		}
		defer os.RemoveAll(dir)
		for name, content := range c.Files {
			os.MkdirAll(filepath.Dir(filepath.Join(dir, name)), 0o755)
			os.WriteFile(filepath.Join(dir, name), []byte(content), 0o644)
		}
		_, _, _, err = syntax.ParseSourceBytes(src, filepath.Join(dir, "main.mro"), []string{dir}, false)
		if err != nil {
			// rendering the error must terminate too
			_ = err.Error()
		}
	}
	if err != nil {
		msg := err.Error()
		if !posRe.MatchString(msg) {
			first := msg
			if i := strings.IndexByte(first, '\n'); i > 0 {
				first = first[:i]
			}
			kind := regexp.MustCompile(`[A-Za-z]+Error`).FindString(first)
			if kind == "" {
				clean := regexp.MustCompile(`'[^']*'?`).ReplaceAllString(first, "Q")
				clean = strings.Map(func(c rune) rune {
					if c > 126 || c < 32 {
						return -1
					}
					return c
				}, clean)
				w := strings.Fields(clean)
				if len(w) > 4 {
					w = w[:4]
				}
				kind = strings.Join(w, "_")
			}
			out = append(out, ev.Finding{Sig: "C08:no-position:" + c.Entry + ":" + kind,
				What: fmt.Sprintf("%s rejects %q with an error that carries no source position: %s", c.Entry, ev.Short(c.Input, 200), ev.Short(msg, 300)), Case: c})
		}
	}
	return out
}

// runIsolated runs one case in a subprocess (for inputs that may kill the
// process: stack exhaustion) with a generous timeout.
func runIsolated(c Case) []ev.Finding {
	tmp, err := os.CreateTemp("/dev/shm", "c08case-*.json")
	if err != nil {
		return nil
	}
	defer os.Remove(tmp.Name())
	b, _ := jsonMarshal(map[string]interface{}{"case": c})
	tmp.Write(b)
	tmp.Close()
	start := time.Now()
	cmd := exec.Command(os.Args[0], "--replay", tmp.Name())
	cmd.Env = append(os.Environ(), "VERIF_C08_CHILD=1", "VERIF_NO_EVIDENCE=1", "VERIF_WORKER=") // the child reports on its own, not as a shard of this run
	var outb bytes.Buffer
	cmd.Stdout = &outb
	cmd.Stderr = &outb
	done := make(chan error, 1)
	cmd.Start()
	go func() { done <- cmd.Wait() }()
	budget := isolatedBudget
	if c.Entry == "include" {
		budget = isolatedBudget / 3 // inputs of a few bytes
	}
	select {
	case err := <-done:
		text := outb.String()
		if err == nil {
			if strings.Contains(text, "KNOWN-FINDING:") {
				// a listed finding (the child exits 0): re-run in process
				// so that this run records and prints it too
				return run(expand(c))
			}
			return nil
		}
		if strings.Contains(text, "VIOLATION") {
			// ordinary (recovered) finding: re-run in process to get it
			return run(expand(c))
		}
		kind := "process-death"
		if strings.Contains(text, "stack overflow") || strings.Contains(text, "goroutine stack exceeds") {
			kind = "stack-overflow"
		} else if strings.Contains(text, "out of memory") {
			kind = "out-of-memory"
		}
		site := regexp.MustCompile(`martian/syntax\.[\w.()*]+`).FindString(text)
		site = addrRe.ReplaceAllString(site, "ADDR")
		return []ev.Finding{{Sig: "C08:" + kind + ":" + c.Entry + ":" + site,
			What: fmt.Sprintf("%s kills the process (%s) on input %s after %.1fs: %s", c.Entry, kind, describe(c), time.Since(start).Seconds(), ev.Short(text, 300)), Case: c}}
	case <-time.After(budget):
		cmd.Process.Kill()
		hs := "C08:hang:" + c.Entry
		if c.Gen != "" {
			hs += ":" + strings.SplitN(c.Gen, ":", 2)[0]
		}
		return []ev.Finding{{Sig: hs,
			What: fmt.Sprintf("%s did not terminate within %v on input %s", c.Entry, budget, describe(c)), Case: c}}
	}
}

func describe(c Case) string {
	if c.Gen != "" {
		return c.Gen
	}
	return strconv.Quote(ev.Short(c.Input, 200))
}

func expand(c Case) Case {
	// Gen-encoded huge inputs
	if c.Gen != "" && c.Input == "" {
		parts := strings.Split(c.Gen, ":")
		n, _ := strconv.Atoi(parts[1])
		switch parts[0] {
		case "brackets":
			c.Input = strings.Repeat("[", n) + strings.Repeat("]", n)
		case "maps":
			c.Input = strings.Repeat(`{"a":`, n) + "1" + strings.Repeat("}", n)
		case "call-brackets":
			c.Input = "pipeline P(in int[] x, out int y,){ return (y = 1,) }\ncall P(x = " + strings.Repeat("[", n) + strings.Repeat("]", n) + ",)"
		case "parens":
			c.Input = "stage S" + strings.Repeat("(", n)
		case "comment-lines":
			c.Input = strings.Repeat("# c\n", n) + "filetype a;\n"
		case "long-string":
			c.Input = `filetype a; stage S(in int x, src py "` + strings.Repeat("a", n) + `",)`
		case "many-params":
			var b strings.Builder
			b.WriteString("stage S(\n")
			for i := 0; i < n; i++ {
				fmt.Fprintf(&b, " in int p%d,\n", i)
			}
			b.WriteString(` src py "s",)`)
			c.Input = b.String()
		case "wide-array-line":
			c.Input = "[" + strings.Repeat("1,", n) + "1]"
		case "wide-array-lines":
			c.Input = "[\n" + strings.Repeat("1,\n", n) + "1]"
		case "wide-map-line":
			var b strings.Builder
			b.WriteString("{")
			for i := 0; i < n; i++ {
				fmt.Fprintf(&b, `"k%d":%d,`, i, i)
			}
			b.WriteString(`"z":0}`)
			c.Input = b.String()
		case "many-stages":
			var b strings.Builder
			for i := 0; i < n; i++ {
				fmt.Fprintf(&b, "stage S%d(in int x, out int y, src py \"s\",)\n", i)
			}
			c.Input = b.String()
		case "many-stages-line":
			var b strings.Builder
			for i := 0; i < n; i++ {
				fmt.Fprintf(&b, "stage S%d(in int x, out int y, src py \"s\",) ", i)
			}
			c.Input = b.String()
		case "call-wide-array":
			c.Input = "pipeline P(in int[] x, out int y,){ return (y = 1,) }\ncall P(x = [" + strings.Repeat("1,", n) + "1],)"
		case "type-dims":
			// a parameter type with n array dimensions
			c.Input = "stage S(\n    in  int" + strings.Repeat("[]", n) + " x,\n    src py \"s\",\n)\n"
		case "layered-pipelines":
			// a tower of pipelines, each calling the one below twice under
			// two ids: 2^n call paths from a source that is linear in n
			var b strings.Builder
			b.WriteString("stage LEAF(in int x, out int y, src py \"leaf\",)\n")
			for i := 0; i < n; i++ {
				callee := "LEAF"
				if i > 0 {
					callee = fmt.Sprintf("L%d", i-1)
				}
				fmt.Fprintf(&b, "pipeline L%d(in int x, out int y,)\n{\n    call %s as A(x = self.x,)\n    call %s as B(x = A.y,)\n    return (y = B.y,)\n}\n", i, callee, callee)
			}
			c.Input = b.String()
		case "struct-chain":
			var b strings.Builder
			for i := 0; i < n; i++ {
				if i == 0 {
					b.WriteString("struct S0(int x,)\n")
				} else {
					fmt.Fprintf(&b, "struct S%d(S%d s,)\n", i, i-1)
				}
			}
			c.Input = b.String()
		}
	}
	return c
}

// simple tokenizer for corpus edits (independent of the lexer under test)
var tokRe = regexp.MustCompile(`"(?:[^"\\\n]|\\.)*"|#[^\n]*\n?|[A-Za-z_@][A-Za-z0-9_]*|-?[0-9][0-9.eE+-]*|\s+|.`)

func tokenize(s string) []string { return tokRe.FindAllString(s, -1) }

func corpus() map[string]string {
	out := map[string]string{}
	repo := os.Getenv("REPO")
	if repo == "" {
		repo = "/repo"
	}
	globs := []string{"martian/syntax/testdata/*.mro", "martian/core/testdata/*.mro", "test/*/*.mro",
		"martian/syntax/refactoring/testdata/*.mro", "martian/syntax/testdata/subdir/*.mro"}
	for _, g := range globs {
		m, _ := filepath.Glob(filepath.Join(repo, g))
		for _, f := range m {
			if b, err := os.ReadFile(f); err == nil {
				rel, _ := filepath.Rel(repo, f)
				out[rel] = string(b)
			}
		}
	}
	return out
}

func main() {
	r := ev.New("C08", "exploration")
	r.SetBudget(100*time.Second, 25*time.Minute)
	debug.SetMaxStack(256 << 20)
	if !ev.IsWorker() && os.Getenv("VERIF_C08_CHILD") == "" {
		// isolated children that are killed (hang, stack overflow) cannot
		// remove their include directories themselves
		ev.AtExit(func() {
			if m, err := filepath.Glob("/dev/shm/c08inc-*"); err == nil {
				for _, d := range m {
					os.RemoveAll(d)
				}
			}
		})
	}
	if r.Thorough() {
		isolatedBudget = 180 * time.Second
	}
	repo := os.Getenv("REPO")
	if repo == "" {
		repo = "/repo"
	}
	incDir = filepath.Join(repo, "martian/syntax/testdata")
	if r.ReplayPath != "" {
		var c Case
		if err := ev.LoadReplay(r.ReplayPath, &c); err != nil {
			fmt.Println(err)
			os.Exit(2)
		}
		c = expand(c)
		r.Eval("replay")
		if os.Getenv("VERIF_C08_CHILD") == "" {
			r.Sample(map[string]string{"entry": c.Entry, "input": ev.Short(c.Input, 300), "gen": c.Gen})
			if c.Gen != "" || c.Entry == "include" {
				for _, f := range runIsolated(c) {
					r.Report(f)
				}
				r.Finish()
			}
		}
		for _, f := range run(c) {
			r.Report(f)
		}
		r.Finish()
	}
	// watchdog: an input that takes more than 60 s is a hang candidate
	if ev.IsWorker() {
		go func() {
			for {
				time.Sleep(2 * time.Second)
				if s := curStart.Load(); s != 0 && time.Since(time.Unix(0, s)) > 90*time.Second {
					d, _ := curDesc.Load().(string)
					r.Report(ev.Finding{Sig: "C08:hang:in-process", What: "no result after 90 s on " + d,
						Case: Case{Entry: strings.SplitN(d, ":", 2)[0], Input: d}})
					r.Cap("worker stopped at a hanging input")
					r.FinishWorker()
				}
			}
		}()
	}
	if !ev.IsWorker() {
		maxLen := 3
		if r.Thorough() {
			maxLen = 4
		}
		r.Rule = fmt.Sprintf("(A1) every token sequence of length <=%d over an %d-token alphabet (keywords, punctuation, numeric edge literals around 64-bit limits, every string escape form, invalid UTF-8) through ParseSourceBytes, UncheckedParse, ParseValExp and FormatSrcBytes; "+
			"(A2) for every .mro file of the repository's fixtures: every single-token deletion, duplication, every byte-prefix truncation (step 7 bytes in quick), every replacement of a token by each alphabet token (files <= 3 KB); "+
			"(A3) every string slot x {empty, blank, quote, backslash, newline, NUL} and numeric slot x edge list; (A4) nesting / size series 10..10^5 in isolated subprocesses, among them a tower of 10 / 100 pipelines each calling the one below twice under two ids (2^n call paths) and a parameter type with 10 .. 32768 array dimensions; (A7) growth: ten wide input shapes (array / map literal on one line and one element per line, thousands of stages on one line and on separate lines, comments, a long string, many parameters) parsed at size n and 4n - the larger may take at most 12 times as long (best of 3-5 runs each; only judged when it needs more than three seconds); (A5) include graphs (self, 2- and 3-cycles with and without declarations, diamond, missing, nested dirs); (A6) call structure through what mro check does (compile, then the call graph of the top-level call): cycles of 1-3 pipelines with and without inputs and top-level call, and every top-level call form {call, map call, local, preflight, volatile} x callee {stage, pipeline, undefined, a struct} x 13 binding forms (wildcards, self and call references, splits, duplicates, unknown and missing parameters) and modifiers. "+
			"violation = panic, process death, no result in 90 s, or an error without a source position. distinct = distinct (entry point, input); non-trivial = input is not accepted", maxLen, len(alphabet))
		r.Set("alphabet", len(alphabet))
		r.RunWorkers(0)
		r.Assume("'all byte strings' is approximated by the stated token-sequence, edit, slot and nesting bounds")
		r.Finish()
	}

	// ---- build the work list (deterministic; sharded by index) ----
	idx := 0
	mine := func() bool { idx++; return r.Mine(idx) }
	do := func(c Case) {
		fs := run(c)
		key := c.Entry + "|" + c.Input
		r.Eval(key)
		if len(fs) == 0 {
			r.Outcome("ok:" + c.Entry)
		}
		for _, f := range fs {
			r.Outcome(strings.SplitN(f.Sig, ":", 3)[1])
			r.Report(f)
		}
	}
	entries := []string{"source", "unchecked", "valexp", "format"}
	// A1
	maxLen := 3
	if r.Thorough() {
		maxLen = 4
	}
	var rec func(prefix string, n int)
	stop := false
	curLen := 0
	rec = func(prefix string, n int) {
		if stop {
			return
		}
		if n == 0 {
			if mine() {
				for _, e := range entries {
					if curLen == maxLen && !r.Thorough() && (e == "unchecked" || e == "format") {
						continue // quick: the longest sequences only through the compiling entry points
					}
					do(Case{Entry: e, Input: prefix})
				}
				if idx%4096 == 0 && r.Expired("token sequence enumeration") {
					stop = true
				}
			}
			return
		}
		for _, t := range alphabet {
			rec(prefix+t+" ", n-1)
		}
	}
	// shortest first; the longest length is the one that may hit the budget
	for l := 1; l <= maxLen; l++ {
		curLen = l
		rec("", l)
	}
	if k, _, _ := ev.WorkerIndex(); k == 0 {
		r.Sample(Case{Entry: "source", Input: "stage X ( in int 9223372036854775808 "})
	}
	// A2 corpus edits
	files := corpus()
	var names []string
	for n := range files {
		names = append(names, n)
	}
	sort.Strings(names)
	r.Set("corpus_files", len(names))
	for _, name := range names {
		if stop {
			break
		}
		src := files[name]
		toks := tokenize(src)
		join := func(ts []string) string { return strings.Join(ts, "") }
		for i := range toks {
			if strings.TrimSpace(toks[i]) == "" {
				continue
			}
			if mine() {
				del := append(append([]string{}, toks[:i]...), toks[i+1:]...)
				dup := append(append(append([]string{}, toks[:i+1]...), toks[i]), toks[i+1:]...)
				for _, e := range []string{"source", "format"} {
					do(Case{Entry: e, Input: join(del)})
					do(Case{Entry: e, Input: join(dup)})
				}
			}
			if len(src) <= 3000 && (r.Thorough() || i%7 == 0) {
				for _, a := range alphabet {
					if mine() {
						rep := append(append(append([]string{}, toks[:i]...), a), toks[i+1:]...)
						do(Case{Entry: "source", Input: join(rep)})
					}
				}
			}
			if idx%512 == 0 && r.Expired("corpus edit enumeration") {
				stop = true
				break
			}
		}
		step := 7
		if r.Thorough() {
			step = 1
		}
		for cut := 0; cut < len(src); cut += step {
			if mine() {
				do(Case{Entry: "source", Input: src[:cut]})
				do(Case{Entry: "format", Input: src[:cut]})
			}
		}
		if len(src) <= 3000 {
			bstep := 5
			if r.Thorough() {
				bstep = 1
			}
			for i := 0; i < len(src); i += bstep {
				for _, b := range []byte{0x00, 0x80, 0xff, '"', '\\', '\n'} {
					if mine() {
						m := []byte(src)
						m[i] = b
						do(Case{Entry: "source", Input: string(m)})
					}
				}
			}
		}
	}
	// A3 slots
	strs := []string{``, ` `, `\"`, `\\`, `\n`, "\n", `\x00`, `\u0000`, `a b`, `é`, `\`, `"`, `a"b c`, "\t"}
	nums := []string{"0", "-0", "-1", "007", "1.5", "-1.5", "1e5", "1e999", "1e-999", "1e99", "9223372036854775807", "9223372036854775808",
		"-9223372036854775808", "-9223372036854775809", "99999999999999999999", "0.0000001", "1:e5", "1.", ".5", "3.4e38", "3.5e38", "1e39", "-1e39", "NaN", "inf"}
	strTemplates := []string{
		`stage S(in int x, src py "%s",)`,
		`stage S(in int x, src exec "%s",)`,
		`stage S(in int x, src comp "%s",)`,
		`@include "%s"`,
		`stage S(in int x "%s", src py "s",)`,
		`stage S(in int x, out file f "help" "%s", src py "s",)`,
		`stage S(in int x, src py "s",) using (special = "%s",)`,
		`struct T(file f "h" "%s",)`,
		`pipeline P(in map m, out map o,){ return (o = self.m,) }
call P(m = {"%s": 1},)`,
		`pipeline P(in string m, out string o,){ return (o = self.m,) }
call P(m = "%s",)`,
		`filetype %s;`,
	}
	numTemplates := []string{
		`stage S(in int x, src py "s",) using (mem_gb = %s,)`,
		`stage S(in int x, src py "s",) using (threads = %s,)`,
		`stage S(in int x, src py "s",) using (vmem_gb = %s,)`,
		`pipeline P(in int m, out int o,){ return (o = self.m,) }
call P(m = %s,)`,
		`pipeline P(in float m, out float o,){ return (o = self.m,) }
call P(m = %s,)`,
		`pipeline P(in int[] m, out int[] o,){ return (o = self.m,) }
call P(m = [%s, 1],)`,
	}
	for _, t := range strTemplates {
		for _, s := range strs {
			if mine() {
				in := strings.Replace(t, "%s", s, 1)
				for _, e := range []string{"source", "unchecked", "format"} {
					do(Case{Entry: e, Input: in})
				}
			}
		}
	}
	for _, t := range numTemplates {
		for _, s := range nums {
			if mine() {
				in := strings.Replace(t, "%s", s, 1)
				for _, e := range []string{"source", "unchecked", "format"} {
					do(Case{Entry: e, Input: in})
				}
			}
		}
	}
	for _, s := range nums {
		if mine() {
			do(Case{Entry: "valexp", Input: s})
			do(Case{Entry: "valexp", Input: "[" + s + "]"})
			do(Case{Entry: "valexp", Input: `{"k": ` + s + "}"})
		}
	}
	for _, s := range strs {
		if mine() {
			do(Case{Entry: "valexp", Input: `"` + s + `"`})
			do(Case{Entry: "valexp", Input: `{"` + s + `": 1}`})
		}
	}
	// A7 growth: time must stay in proportion to the input size.  Wide (not
	// deep) inputs are parsed at size n and 4n; the oracle is relative - the
	// larger input may take at most 9 times as long as the smaller one (4x is
	// linear; best of several runs of each) - and only applies when the
	// larger input, a few hundred KB, needs more than three seconds (it takes a fraction of a second on the unchanged tree).
	for _, g := range []struct {
		gen, entry string
		n          int
	}{{"wide-array-line", "valexp", 30000}, {"wide-array-lines", "valexp", 30000}, {"wide-map-line", "valexp", 10000},
		{"many-stages", "unchecked", 3000}, {"many-stages-line", "unchecked", 3000}, {"many-stages", "format", 2000},
		{"call-wide-array", "source", 20000}, {"comment-lines", "unchecked", 30000}, {"long-string", "unchecked", 100000},
		{"many-params", "unchecked", 5000}} {
		if !mine() {
			continue
		}
		timeOf := func(n, tries int) time.Duration {
			c := expand(Case{Entry: g.entry, Gen: fmt.Sprintf("%s:%d", g.gen, n)})
			best := time.Duration(1<<62 - 1)
			for i := 0; i < tries; i++ {
				t0 := time.Now()
				run(c)
				if d := time.Since(t0); d < best {
					best = d
				}
				if best > 20*time.Second {
					break
				}
			}
			return best
		}
		small, large := timeOf(g.n, 3), timeOf(4*g.n, 3)
		r.Eval("growth|" + g.gen + "|" + g.entry)
		ratio := float64(large) / float64(small+1)
		if large > 3*time.Second && ratio > 12 {
			// believe it only if it persists
			small, large = timeOf(g.n, 5), timeOf(4*g.n, 5)
			ratio = float64(large) / float64(small+1)
		}
		if large > 3*time.Second && ratio > 12 {
			r.Outcome("growth:superlinear")
			r.Report(ev.Finding{Sig: "C08:superlinear:" + g.entry + ":" + g.gen,
				What: fmt.Sprintf("%s needs %.2fs for %s of size %d but %.2fs for size %d: %.1f times as long for 4 times the input", g.entry, large.Seconds(), g.gen, 4*g.n, small.Seconds(), g.n, ratio),
				Case: Case{Entry: g.entry, Gen: fmt.Sprintf("%s:%d", g.gen, 4*g.n)}})
		} else {
			r.Outcome("growth:proportional")
			if os.Getenv("VERIF_DEBUG") != "" {
				fmt.Fprintf(os.Stderr, "growth %s/%s: %.3fs -> %.3fs (x%.1f)\n", g.gen, g.entry, small.Seconds(), large.Seconds(), ratio)
			}
		}
	}
	// A4 nesting (isolated subprocesses)
	sizes := []int{10, 100, 1000, 10000, 100000}
	if r.Thorough() {
		sizes = append(sizes, 1000000)
	}
	for _, gen := range []string{"brackets", "maps", "call-brackets", "parens", "comment-lines", "long-string", "many-params", "struct-chain", "layered-pipelines", "type-dims"} {
		for _, n := range sizes {
			if gen == "struct-chain" && n > 10000 {
				continue
			}
			if gen == "type-dims" && n == 100000 {
				n = 32768 // the array dimension count is a 16-bit integer
			}
			if gen == "layered-pipelines" && n > 100 {
				continue // no top-level call: only the declarations are compiled
			}
			if gen == "many-params" && n > 100000 {
				continue
			}
			if gen == "call-brackets" && n > 10000 && !r.Thorough() {
				continue // takes minutes (see known findings); thorough only
			}
			if !mine() {
				continue
			}
			entry := "source"
			if gen == "brackets" || gen == "maps" {
				entry = "valexp"
			}
			c := Case{Entry: entry, Gen: fmt.Sprintf("%s:%d", gen, n)}
			start := time.Now()
			fs := runIsolated(c)
			r.Eval("gen|" + c.Gen)
			r.Outcome(fmt.Sprintf("nesting:%s", map[bool]string{true: "ok", false: "violation"}[len(fs) == 0]))
			if os.Getenv("VERIF_DEBUG") != "" {
				fmt.Fprintf(os.Stderr, "%s: %.2fs %d findings\n", c.Gen, time.Since(start).Seconds(), len(fs))
			}
			for _, f := range fs {
				r.Report(f)
			}
		}
	}
	// A6 call structure: every form of top-level call and every short cycle
	// of pipelines, through what "mro check" does (isolated subprocesses)
	{
		stage := "stage A(\n    in  int x,\n    out int y,\n    src py \"a\",\n)\n\n"
		pipeOf := func(name, callee string, ins bool) string {
			if ins {
				return fmt.Sprintf("pipeline %s(\n    in  int x,\n    out int y,\n)\n{\n    call %s(\n        x = self.x,\n    )\n\n    return (\n        y = %s.y,\n    )\n}\n\n", name, callee, callee)
			}
			return fmt.Sprintf("pipeline %s(\n    out int y,\n)\n{\n    call %s()\n\n    return (\n        y = %s.y,\n    )\n}\n\n", name, callee, callee)
		}
		var progs []string
		// cycles of length 1..3, with and without inputs, with and without a top-level call
		for k := 1; k <= 3; k++ {
			for _, ins := range []bool{false, true} {
				body := ""
				if ins {
					body = stage
				}
				for i := 0; i < k; i++ {
					body += pipeOf(fmt.Sprintf("P%d", i), fmt.Sprintf("P%d", (i+1)%k), ins)
				}
				progs = append(progs, body)
				if ins {
					progs = append(progs, body+"call P0(\n    x = 1,\n)\n")
				} else {
					progs = append(progs, body+"call P0()\n")
				}
			}
		}
		// top-level call forms
		binds := []string{"x = 1,", "x = self.x,", "* = self,", "* = A,", "x = A.y,", "x = split [1, 2],", "x = split self.x,", "x = [self.x],", "", "x = 1,\n    x = 2,", "x = 1,\n    nosuch = 2,", "x = null,", "* = self.s,"}
		for _, callee := range []string{"A", "P", "NOSUCH", "S"} {
			for _, kw := range []string{"call", "map call", "call local", "call preflight", "call volatile"} {
				for _, b := range binds {
					for _, mod := range []string{"", " using (\n    disabled = self.d,\n)", " using (\n    disabled = true,\n)", " using (\n    volatile = true,\n)"} {
						if mod != "" && (b != "x = 1," || kw != "call") {
							continue
						}
						progs = append(progs, stage+"struct S(\n    int x,\n)\n\n"+pipeOf("P", "A", true)+
							fmt.Sprintf("%s %s(\n    %s\n)%s\n", kw, callee, b, mod))
					}
				}
			}
		}
		for _, prog := range progs {
			if !mine() {
				continue
			}
			c := Case{Entry: "check", Input: prog}
			fs := runIsolated(c)
			r.Eval("check|" + prog)
			r.Outcome(fmt.Sprintf("call-structure:%s", map[bool]string{true: "ok", false: "violation"}[len(fs) == 0]))
			for _, f := range fs {
				r.Report(f)
			}
		}
	}
	// A5 include graphs
	decl := "filetype a;\n"
	graphs := []Case{
		{Entry: "include", Input: `@include "main.mro"` + "\n" + decl, Files: map[string]string{}},
		{Entry: "include", Input: `@include "main.mro"` + "\n", Files: map[string]string{}},
		{Entry: "include", Input: `@include "b.mro"` + "\n" + decl, Files: map[string]string{"b.mro": `@include "main.mro"` + "\nfiletype b;\n"}},
		{Entry: "include", Input: `@include "b.mro"` + "\n", Files: map[string]string{"b.mro": `@include "main.mro"` + "\n"}},
		{Entry: "include", Input: `@include "b.mro"` + "\n" + decl, Files: map[string]string{"b.mro": `@include "c.mro"` + "\nfiletype b;\n", "c.mro": `@include "b.mro"` + "\nfiletype c;\n"}},
		{Entry: "include", Input: `@include "b.mro"` + "\n" + decl, Files: map[string]string{"b.mro": `@include "c.mro"` + "\nfiletype b;\n", "c.mro": `@include "main.mro"` + "\nfiletype c;\n"}},
		{Entry: "include", Input: `@include "b.mro"` + "\n" + `@include "c.mro"` + "\n" + decl, Files: map[string]string{"b.mro": `@include "d.mro"` + "\nfiletype b;\n", "c.mro": `@include "d.mro"` + "\nfiletype c;\n", "d.mro": "filetype d;\n"}},
		{Entry: "include", Input: `@include "nope.mro"` + "\n" + decl, Files: map[string]string{}},
		{Entry: "include", Input: `@include "sub/b.mro"` + "\n" + decl, Files: map[string]string{"sub/b.mro": `@include "c.mro"` + "\nfiletype b;\n", "sub/c.mro": "filetype c;\n", "c.mro": "filetype cc;\n"}},
		{Entry: "include", Input: `@include "b.mro"` + "\n" + `@include "b.mro"` + "\n" + decl, Files: map[string]string{"b.mro": "filetype b;\n"}},
		{Entry: "include", Input: `@include "b.mro"` + "\n" + decl, Files: map[string]string{"b.mro": "filetype a;\n"}},
		{Entry: "include", Input: `@include "b.mro"` + "\n" + decl, Files: map[string]string{"b.mro": "stage (\n"}},
		{Entry: "include", Input: `@include "b.mro"` + "\n" + `@include "c.mro"` + "\n" + decl, Files: map[string]string{"b.mro": `@include "c.mro"` + "\nfiletype b;\n", "c.mro": `@include "b.mro"` + "\nfiletype c;\n"}},
	}
	for _, c := range graphs {
		if !mine() {
			continue
		}
		c.Files["main.mro"] = c.Input
		fs := runIsolated(c)
		r.Eval("include|" + c.Input + fmt.Sprint(len(c.Files)))
		r.Outcome(fmt.Sprintf("include:%s", map[bool]string{true: "ok", false: "violation"}[len(fs) == 0]))
		for _, f := range fs {
			r.Report(f)
		}
	}
	r.Done()
}

func jsonMarshal(v interface{}) ([]byte, error) { return json.Marshal(v) }
