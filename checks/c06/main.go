//go:build verif

// C06: a failing job fails the pipestance, blocks only its dependents and is
// reported (fault enumeration).  See DESIGN.md 4/C06.
package main

import "verif/lib/psx"

func main() { psx.FaultCheck() }
