//go:build verif

// C05: an interrupted pipestance resumes to the same result (crash-point
// enumeration over the file-system effect history).  See DESIGN.md 4/C05.
package main

import "verif/lib/psx"

func main() { psx.CrashCheck() }
