//go:build verif

// C14: see DESIGN.md section 4.  Shares the file-flow exploration of lib/psx.
package main

import "verif/lib/psx"

func main() { psx.FileCheck("C14") }
