//go:build verif

// scratch: hand-written experiments against the harness (not a registered check).
package main

import (
	"encoding/json"
	"fmt"
	"os"

	"github.com/martian-lang/martian/martian/core"

	"verif/lib/progen"
	"verif/lib/psx"
)

func constMerge() *progen.Program {
	p := progen.Dataflow(progen.DataflowParams{Kind: "arr", Src: "gen", Size: 2, Cons: "id"})
	// replace: W pipeline returning a constant, mapped over GEN.arr
	p.Pipelines = nil
	w := &progen.Pipeline{Name: "W", Ins: []progen.Param{{T: progen.IntT, Name: "p"}},
		Outs: []progen.Param{{T: progen.IntT, Name: "r"}, {T: progen.IntT, Name: "k"}},
		Calls: []*progen.Call{{Callee: "ADD", Binds: []progen.Bind{{"a", progen.Self("p")}, {"b", progen.Lit(progen.Int(1))}}}},
		Ret:   []progen.Bind{{"r", progen.Ref("ADD", "sum")}, {"k", progen.Lit(progen.Int(3))}}}
	top := &progen.Pipeline{Name: "TOP", Ins: []progen.Param{{T: progen.IntT, Name: "n"}},
		Outs: []progen.Param{{T: progen.ArrayOf(progen.IntT), Name: "ks"}, {T: progen.ArrayOf(progen.IntT), Name: "rs"}, {T: progen.IntT, Name: "cnt"}},
		Calls: []*progen.Call{
			{Callee: "GEN", Binds: []progen.Bind{{"n", progen.Self("n")}}},
			{Callee: "W", Map: true, Binds: []progen.Bind{{"p", progen.SplitE(progen.Ref("GEN", "arr"))}}},
			{Callee: "LEN_INT_A", Binds: []progen.Bind{{"c", progen.Ref("W", "k")}}},
		},
		Ret: []progen.Bind{{"ks", progen.Ref("W", "k")}, {"rs", progen.Ref("W", "r")}, {"cnt", progen.Ref("LEN_INT_A", "n")}}}
	p.Stages = append(p.Stages, &progen.Stage{Name: "LEN_INT_A", Fn: "LEN", Ins: []progen.Param{{T: progen.ArrayOf(progen.IntT), Name: "c"}}, Outs: []progen.Param{{T: progen.IntT, Name: "n"}}})
	p.Pipelines = []*progen.Pipeline{w, top}
	p.Top = &progen.Call{Callee: "TOP", Binds: []progen.Bind{{"n", progen.Lit(progen.Int(2))}}}
	return p
}

func main() {
	core.VerifQuiet()
	var p *progen.Program
	switch os.Args[1] {
	case "ragged-all":
		for _, d := range progen.RaggedFamily(false) {
			q := progen.KeyFlow(d)
			ref, err := progen.Interpret(q)
			if err != nil {
				fmt.Println(d.String(), "REF-ERR", err)
				continue
			}
			res := psx.Run(q, psx.Schedule{}, psx.Options{})
			v := psx.CheckDataflow(ref, res)
			v = append(v, psx.CheckExactlyOnce(ref, res)...)
			first := ""
			if len(v) > 0 {
				first = v[0]
				if len(first) > 150 {
					first = first[:150]
				}
			}
			e := res.Err
			if len(e) > 120 {
				e = e[:120]
			}
			fmt.Printf("%s state=%s err=%q nviol=%d %s\n", d.String(), res.State, e, len(v), first)
		}
		return
	case "constmerge":
		p = constMerge()
	case "keys":
		var d progen.KeyParams
		if err := json.Unmarshal([]byte(os.Args[2]), &d); err != nil {
			panic(err)
		}
		p = progen.KeyFlow(d)
	}
	fmt.Println(p.MRO())
	ref, err := progen.Interpret(p)
	fmt.Println("ref err:", err)
	res := psx.Run(p, psx.Schedule{}, psx.Options{KeepDir: os.Getenv("KEEP") != ""})
	fmt.Println("dir:", res.Dir)
	fmt.Println("state:", res.State, "err:", res.Err, res.FatalFq, res.FatalLog)
	if res.PanicStack != "" {
		fmt.Println("PANIC STACK:\n" + res.PanicStack)
	}
	for _, j := range res.Jobs {
		fmt.Println("job", j.Key, j.ArgsText)
	}
	fmt.Println("outs:", res.TopOutsText)
	if ref != nil {
		fmt.Println("ref outs:", ref.TopOuts.Show())
		for _, v := range psx.CheckDataflow(ref, res) {
			fmt.Println("VIOL:", v)
		}
	}
}
