//go:build verif

// scratch: hand-written experiments against the harness (not a registered check).
package main

import (
	"encoding/json"
	"fmt"
	"os"

	"github.com/martian-lang/martian/martian/core"

	"verif/lib/progen"
	"verif/lib/psx"
)

func constMerge() *progen.Program {
	p := progen.Dataflow(progen.DataflowParams{Kind: "arr", Src: "gen", Size: 2, Cons: "id"})
	// replace: W pipeline returning a constant, mapped over GEN.arr
	p.Pipelines = nil
	w := &progen.Pipeline{Name: "W", Ins: []progen.Param{{T: progen.IntT, Name: "p"}},
		Outs:  []progen.Param{{T: progen.IntT, Name: "r"}, {T: progen.IntT, Name: "k"}},
		Calls: []*progen.Call{{Callee: "ADD", Binds: []progen.Bind{{"a", progen.Self("p")}, {"b", progen.Lit(progen.Int(1))}}}},
		Ret:   []progen.Bind{{"r", progen.Ref("ADD", "sum")}, {"k", progen.Lit(progen.Int(3))}}}
	top := &progen.Pipeline{Name: "TOP", Ins: []progen.Param{{T: progen.IntT, Name: "n"}},
		Outs: []progen.Param{{T: progen.ArrayOf(progen.IntT), Name: "ks"}, {T: progen.ArrayOf(progen.IntT), Name: "rs"}, {T: progen.IntT, Name: "cnt"}},
		Calls: []*progen.Call{
			{Callee: "GEN", Binds: []progen.Bind{{"n", progen.Self("n")}}},
			{Callee: "W", Map: true, Binds: []progen.Bind{{"p", progen.SplitE(progen.Ref("GEN", "arr"))}}},
			{Callee: "LEN_INT_A", Binds: []progen.Bind{{"c", progen.Ref("W", "k")}}},
		},
		Ret: []progen.Bind{{"ks", progen.Ref("W", "k")}, {"rs", progen.Ref("W", "r")}, {"cnt", progen.Ref("LEN_INT_A", "n")}}}
	p.Stages = append(p.Stages, &progen.Stage{Name: "LEN_INT_A", Fn: "LEN", Ins: []progen.Param{{T: progen.ArrayOf(progen.IntT), Name: "c"}}, Outs: []progen.Param{{T: progen.IntT, Name: "n"}}})
	p.Pipelines = []*progen.Pipeline{w, top}
	p.Top = &progen.Call{Callee: "TOP", Binds: []progen.Bind{{"n", progen.Lit(progen.Int(2))}}}
	return p
}

// unusedSplit: a stage inside a mapped sub-pipeline that does not use the
// split argument.
func unusedSplit(variant string) *progen.Program {
	p := progen.Dataflow(progen.DataflowParams{Kind: "arr", Src: "gen", Size: 2, Cons: "id"})
	p.Pipelines = nil
	I, A := progen.IntT, progen.ArrayOf(progen.IntT)
	inner := &progen.Pipeline{Name: "INNER", Ins: []progen.Param{{T: I, Name: "x"}, {T: I, Name: "n"}},
		Outs: []progen.Param{{T: I, Name: "y"}, {T: I, Name: "w"}},
		Calls: []*progen.Call{
			{Callee: "ADD", Alias: "USE", Binds: []progen.Bind{{"a", progen.Self("x")}, {"b", progen.Lit(progen.Int(1))}}},
			{Callee: "ADD", Alias: "WORK", Binds: []progen.Bind{{"a", progen.Self("n")}, {"b", progen.Lit(progen.Int(2))}}},
		},
		Ret: []progen.Bind{{"y", progen.Ref("USE", "sum")}, {"w", progen.Ref("WORK", "sum")}}}
	if variant == "split-unused" || variant == "split-only" {
		inner.Calls[1] = &progen.Call{Callee: "SUMS", Alias: "WORK", Binds: []progen.Bind{{"xs", progen.Lit(progen.Arr(progen.Int(1), progen.Int(2)))}, {"k", progen.Self("n")}}}
		inner.Ret[1] = progen.Bind{"w", progen.Ref("WORK", "total")}
	}
	if variant == "only-unused" || variant == "split-only" {
		inner.Calls = inner.Calls[1:]
		inner.Ret[0] = progen.Bind{"y", progen.Self("x")}
	}
	top := &progen.Pipeline{Name: "TOP", Ins: []progen.Param{{T: I, Name: "n"}},
		Outs: []progen.Param{{T: A, Name: "ys"}, {T: A, Name: "ws"}},
		Calls: []*progen.Call{
			{Callee: "GEN", Binds: []progen.Bind{{"n", progen.Self("n")}}},
			{Callee: "INNER", Map: true, Binds: []progen.Bind{{"x", progen.SplitE(progen.Ref("GEN", "arr"))}, {"n", progen.Self("n")}}},
		},
		Ret: []progen.Bind{{"ys", progen.Ref("INNER", "y")}, {"ws", progen.Ref("INNER", "w")}}}
	p.Pipelines = []*progen.Pipeline{inner, top}
	p.Top = &progen.Call{Callee: "TOP", Binds: []progen.Bind{{"n", progen.Lit(progen.Int(2))}}}
	return p
}

// noOutMapped: a stage without outputs mapped over an empty / null literal;
// and a map over the output of a stage that carries a disabled modifier.
func noOutMapped(variant string) *progen.Program {
	p := progen.Dataflow(progen.DataflowParams{Kind: "arr", Src: "gen", Size: 2, Cons: "id"})
	p.Pipelines = nil
	I, A := progen.IntT, progen.ArrayOf(progen.IntT)
	p.Stages = append(p.Stages, &progen.Stage{Name: "SINK", Fn: "PRE", Ins: []progen.Param{{T: I, Name: "n"}}})
	top := &progen.Pipeline{Name: "TOP", Ins: []progen.Param{{T: I, Name: "n"}, {T: progen.BoolT, Name: "flag"}},
		Outs: []progen.Param{{T: I, Name: "v"}}}
	switch variant {
	case "empty":
		top.Calls = []*progen.Call{{Callee: "SINK", Map: true, Binds: []progen.Bind{{"n", progen.SplitE(progen.TLit(p, progen.Arr(), A))}}}}
		top.Ret = []progen.Bind{{"v", progen.Self("n")}}
	case "null":
		top.Calls = []*progen.Call{{Callee: "SINK", Map: true, Binds: []progen.Bind{{"n", progen.SplitE(progen.TLit(p, progen.Null(), A))}}}}
		top.Ret = []progen.Bind{{"v", progen.Self("n")}}
	case "in-empty", "in-null":
		top.Ins = append(top.Ins, progen.Param{T: A, Name: "a"})
		top.Calls = []*progen.Call{{Callee: "SINK", Map: true, Binds: []progen.Bind{{"n", progen.SplitE(progen.Self("a"))}}}}
		top.Ret = []progen.Bind{{"v", progen.Self("n")}}
	case "dyn-src-false", "dyn-src-true":
		top.Outs = []progen.Param{{T: A, Name: "v"}}
		cn := int64(0)
		if variant == "dyn-src-true" {
			cn = 1
		}
		top.Calls = []*progen.Call{
			{Callee: "COND", Binds: []progen.Bind{{"n", progen.Lit(progen.Int(cn))}}},
			{Callee: "GEN", Binds: []progen.Bind{{"n", progen.Self("n")}}, Disabled: progen.Ref("COND", "b")},
			{Callee: "ADD", Map: true, Binds: []progen.Bind{{"a", progen.SplitE(progen.Ref("GEN", "arr"))}, {"b", progen.Lit(progen.Int(1))}}},
		}
		top.Ret = []progen.Bind{{"v", progen.Ref("ADD", "sum")}}
	case "dis-src-false", "dis-src-true":
		top.Outs = []progen.Param{{T: A, Name: "v"}}
		top.Calls = []*progen.Call{
			{Callee: "GEN", Binds: []progen.Bind{{"n", progen.Self("n")}}, Disabled: progen.Self("flag")},
			{Callee: "ADD", Map: true, Binds: []progen.Bind{{"a", progen.SplitE(progen.Ref("GEN", "arr"))}, {"b", progen.Lit(progen.Int(1))}}},
		}
		top.Ret = []progen.Bind{{"v", progen.Ref("ADD", "sum")}}
	}
	p.Pipelines = []*progen.Pipeline{top}
	p.Top = &progen.Call{Callee: "TOP", Binds: []progen.Bind{{"n", progen.Lit(progen.Int(2))}, {"flag", progen.Lit(progen.Bool(variant == "dis-src-true"))}}}
	progen.FixUnused(p)
	if variant == "in-empty" {
		p.Top.Binds = append(p.Top.Binds, progen.Bind{"a", progen.TLit(p, progen.Arr(), A)})
	} else if variant == "in-null" {
		p.Top.Binds = append(p.Top.Binds, progen.Bind{"a", progen.TLit(p, progen.Null(), A)})
	}
	return p
}

func main() {
	core.VerifQuiet()
	var p *progen.Program
	switch os.Args[1] {
	case "ragged-all":
		for _, d := range progen.RaggedFamily(false) {
			q := progen.KeyFlow(d)
			ref, err := progen.Interpret(q)
			if err != nil {
				fmt.Println(d.String(), "REF-ERR", err)
				continue
			}
			res := psx.Run(q, psx.Schedule{}, psx.Options{})
			v := psx.CheckDataflow(ref, res)
			v = append(v, psx.CheckExactlyOnce(ref, res)...)
			first := ""
			if len(v) > 0 {
				first = v[0]
				if len(first) > 150 {
					first = first[:150]
				}
			}
			e := res.Err
			if len(e) > 120 {
				e = e[:120]
			}
			fmt.Printf("%s state=%s err=%q nviol=%d %s\n", d.String(), res.State, e, len(v), first)
		}
		return
	case "constmerge":
		p = constMerge()
	case "noout":
		p = noOutMapped(os.Args[2])
	case "unused-split":
		p = unusedSplit(os.Args[2])
	case "keys":
		var d progen.KeyParams
		if err := json.Unmarshal([]byte(os.Args[2]), &d); err != nil {
			panic(err)
		}
		p = progen.KeyFlow(d)
	}
	fmt.Println(p.MRO())
	ref, err := progen.Interpret(p)
	fmt.Println("ref err:", err)
	var sched psx.Schedule
	if sj := os.Getenv("SCHED"); sj != "" {
		if err := json.Unmarshal([]byte(sj), &sched); err != nil {
			panic(err)
		}
	}
	res := psx.Run(p, sched, psx.Options{KeepDir: os.Getenv("KEEP") != ""})
	fmt.Println("dir:", res.Dir)
	fmt.Println("state:", res.State, "err:", res.Err, res.FatalFq, res.FatalLog)
	if res.PanicStack != "" {
		fmt.Println("PANIC STACK:\n" + res.PanicStack)
	}
	for _, j := range res.Jobs {
		fmt.Println("job", j.Key, j.ArgsText)
	}
	fmt.Println("outs:", res.TopOutsText)
	if ref != nil {
		fmt.Println("ref outs:", ref.TopOuts.Show())
		for _, v := range psx.CheckDataflow(ref, res) {
			fmt.Println("VIOL:", v)
		}
	}
}
