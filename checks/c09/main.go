//go:build verif

// C09: formatting is idempotent and preserves the program.  Bounded-
// exhaustive slot substitution over template programs plus the repository's
// fixtures; oracle: an independent canonical (position-free) rendering of the
// parsed trees, comment accounting, fixed point, and stand-alone
// compilability of the include-expanded rendering.
package main

import (
	"fmt"
	"os"
	"path/filepath"
	"regexp"
	"sort"
	"strings"
	"sync"
	"time"

	"github.com/martian-lang/martian/martian/syntax"

	"verif/lib/astcanon"
	"verif/lib/ev"
)

type Case struct {
	Kind  string            `json:"kind"` // single | multi
	Src   string            `json:"src"`
	Files map[string]string `json:"files,omitempty"`
	Desc  string            `json:"desc,omitempty"`
}

var incDir string

func parse(src string) (*syntax.Ast, error) {
	var p syntax.Parser
	return p.UncheckedParse([]byte(src), "t.mro")
}

var commentRe = regexp.MustCompile(`(?m)^\s*#(.*)$`)

func comments(src string) []string {
	// comments outside string literals: the templates never put '#' in strings
	var out []string
	for _, m := range commentRe.FindAllStringSubmatch(src, -1) {
		out = append(out, strings.TrimSpace(m[1]))
	}
	return out
}

func sig(kind, detail string) string {
	return "C09:" + kind + ":" + detail
}

func checkSingle(c Case) (out []ev.Finding) {
	defer func() {
		if r := recover(); r != nil {
			out = append(out, ev.Finding{Sig: sig("panic", c.Desc), What: fmt.Sprintf("formatter/parser panicked on %s: %v", c.Desc, r), Case: c})
		}
	}()
	src := c.Src
	ast1, err := parse(src)
	if err != nil {
		return nil // not an accepted source text
	}
	report := func(kind, what string) {
		out = append(out, ev.Finding{Sig: sig(kind, c.Desc), What: fmt.Sprintf("[%s] %s\n--- source ---\n%s", c.Desc, what, ev.Short(src, 1500)), Case: c})
	}
	f1, err := syntax.FormatSrcBytes([]byte(src), "t.mro", false, []string{incDir})
	if err != nil {
		report("format-fails", "the formatter rejects a source the parser accepts: "+err.Error())
		return
	}
	ast2, err := parse(f1)
	if err != nil {
		report("output-unparseable", "the formatter's output is not accepted by the parser: "+firstLine(err.Error())+"\n--- formatted ---\n"+ev.Short(f1, 1500))
		return
	}
	c1, c2 := astcanon.Canon(ast1), astcanon.Canon(ast2)
	if c1 != c2 {
		report("program-changed", "the formatted text denotes a different program:\n"+diffAt(c1, c2)+"\n--- formatted ---\n"+ev.Short(f1, 1200))
	}
	// comments
	dangling := strings.Contains(c.Desc, "dangling")
	in := comments(src)
	outc := comments(f1)
	count := map[string]int{}
	for _, x := range outc {
		count[x]++
	}
	seenIn := map[string]int{}
	for _, x := range in {
		seenIn[x]++
	}
	for x, n := range seenIn {
		if count[x] == 0 {
			report("comment-lost", fmt.Sprintf("comment %q is lost by formatting\n--- formatted ---\n%s", x, ev.Short(f1, 1200)))
		} else if !dangling && count[x] != n {
			report("comment-duplicated", fmt.Sprintf("comment %q occurs %d time(s) in the source and %d in the formatted text\n--- formatted ---\n%s", x, n, count[x], ev.Short(f1, 1200)))
		}
	}
	if !dangling {
		f2, err := syntax.FormatSrcBytes([]byte(f1), "t.mro", false, []string{incDir})
		if err != nil {
			report("reformat-fails", "formatting the formatted text fails: "+err.Error())
		} else if f2 != f1 {
			report("not-a-fixed-point", "format(format(s)) != format(s):\n"+diffAt(f1, f2))
		}
	}
	// if the source compiles, so must the formatted text
	if expanded, _, astc, err := syntax.ParseSourceBytes([]byte(src), "t.mro", []string{incDir}, false); err == nil {
		if _, _, _, err := syntax.ParseSourceBytes([]byte(f1), "t.mro", []string{incDir}, false); err != nil {
			report("output-does-not-compile", "the source compiles but its formatting does not: "+firstLine(err.Error()))
		}
		// the rendering mrp records (_mrosource) must compile on its own to
		// the same program
		if _, _, aste, err := syntax.ParseSourceBytes([]byte(expanded), "t.mro", []string{incDir}, false); err != nil {
			report("expanded-source-does-not-compile", "the include-expanded rendering of a compiling source does not compile: "+firstLine(err.Error())+"\n--- rendering ---\n"+ev.Short(expanded, 1200))
		} else if ce, cc := astcanon.Canon(aste), astcanon.Canon(astc); ce != cc && !strings.Contains(src, "@include") {
			report("expanded-source-changed", "the include-expanded rendering denotes a different program:\n"+diffAt(cc, ce))
		}
	}
	return out
}

func firstLine(s string) string {
	if i := strings.IndexByte(s, '\n'); i >= 0 {
		return s[:i]
	}
	return s
}

func diffAt(a, b string) string {
	i := 0
	for i < len(a) && i < len(b) && a[i] == b[i] {
		i++
	}
	lo := max(0, i-60)
	return fmt.Sprintf("  first difference at offset %d:\n  < %s\n  > %s", i, ev.Short(a[lo:], 200), ev.Short(b[lo:], 200))
}

func checkMulti(c Case) (out []ev.Finding) {
	defer func() {
		if r := recover(); r != nil {
			out = append(out, ev.Finding{Sig: sig("panic", c.Desc), What: fmt.Sprintf("panic on %s: %v", c.Desc, r), Case: c})
		}
	}()
	dir, err := os.MkdirTemp("/dev/shm", "c09-")
	if err != nil {
		return nil
	}
	defer os.RemoveAll(dir)
	for name, content := range c.Files {
		os.MkdirAll(filepath.Dir(filepath.Join(dir, name)), 0o755)
		os.WriteFile(filepath.Join(dir, name), []byte(content), 0o644)
	}
	mainPath := filepath.Join(dir, "main.mro")
	post, _, ast, err := syntax.ParseSourceBytes([]byte(c.Src), mainPath, []string{dir}, false)
	if err != nil {
		return nil
	}
	report := func(kind, what string) {
		out = append(out, ev.Finding{Sig: sig(kind, c.Desc), What: fmt.Sprintf("[%s] %s\n--- include-expanded ---\n%s", c.Desc, what, ev.Short(post, 1500)), Case: c})
	}
	_, _, ast2, err := syntax.ParseSourceBytes([]byte(post), filepath.Join(dir, "standalone", "x.mro"), nil, false)
	if err != nil {
		report("expanded-does-not-compile", "the include-expanded rendering does not compile on its own: "+firstLine(err.Error()))
		return
	}
	if ast.Call != nil {
		g1, e1 := ast.MakeCallGraph("ID.x.", ast.Call)
		g2, e2 := ast2.MakeCallGraph("ID.x.", ast2.Call)
		if (e1 == nil) != (e2 == nil) {
			report("expanded-callgraph-differs", fmt.Sprintf("call graph errors differ: %v vs %v", e1, e2))
		} else if e1 == nil {
			j1 := astcanon.Canon(g1)
			j2 := astcanon.Canon(g2)
			if j1 != j2 {
				report("expanded-callgraph-differs", "the resolved call graph of the include-expanded rendering differs:\n"+diffAt(j1, j2))
			}
		}
	}
	return out
}

// ---------------------------------------------------------------------------

const baseTemplate = `@C0@filetype txt;
@C1@filetype json;

@C2@struct @TNAME@(
    @C3@int a "help a",
    txt f "help f" "@OUTNAME@",
)

@C4@stage S1(
    @C5@in  int      x      "@HELP@",
    in  float    y,
    in  string   s,
    in  map      m,
    in  @TNAME@       @PNAME@,
    in  int[]    xs,
    in  map<int> mi,
    @C6@out int      o,
    out txt      f      "ho"  "name.txt",
    @C7@src @LANG@       "@SRC@",
) split (
    @C8@in  int      c,
    out int      co,
) using (
    @C9@mem_gb   = @MEM@,
    threads  = @THR@,
    vmem_gb  = @VMEM@,
    volatile = @VOL@,
    special  = "@SPECIAL@",
) retain (
    @C10@f,
)

@C11@pipeline P(
    in  int  a,
    in  bool d,
    out int  r,
    out txt  f,
    out int[] rs,
)
{
    @C12@call S1(
        @C13@x  = @INT@,
        y  = @FLOAT@,
        s  = @STR@,
        m  = @MAP@,
        @PNAME@ = @STRUCT@,
        xs = @ARR@,
        mi = @TMAP@,
    ) using (
        @C14@disabled = self.d,
        local    = @LOCAL@,
        volatile = true,
    )

    @C15@map call S1 as S2(
        x  = split [1, 2],
        y  = 1.5,
        s  = "s",
        m  = {},
        @PNAME@ = {a: 1, f: null},
        xs = [self.a, S1.o],
        mi = {"k": self.a},
    )

    @C16@return (
        @C17@r  = S1.o,
        f  = S1.f,
        rs = S2.o,
    )

    @C18@retain (
        @C19@S1.f,
        @C22@S2.o,
    )
}

@C20@call P(
    @C21@a = 1,
    d = false,
)
`

type slot struct {
	name string
	def  string
	vals []string
}

var slots = []slot{
	{"INT", "3", []string{"-3", "0", "-0", "007", "9223372036854775807", "-9223372036854775808", "null"}},
	{"FLOAT", "1.5", []string{"-1.5", "1e21", "1e-7", "100.0", "-0.0", "0.1", "2500000.0", "1e300", "5e-324", "9.5e18", "1.0e19", "123456789.125", "3", "null", "0.30000000000000004"}},
	{"STR", `"abc"`, []string{`""`, `" "`, `"a\"b"`, `"a\\b"`, `"a\nb"`, `"\t"`, `"é☺"`, `"\x41"`, `"\101"`, `"\u00e9"`, `"\U0001F600"`, `"#notcomment"`, `"'"`, "null"}},
	{"MAP", `{"k": 1}`, []string{`{}`, `{"a": {"b": []}}`, `{"z": 1, "a": 2, "m": 3}`, `{"k\"q": [1, 2.5, "s", null, true]}`, `{"": 1}`, "null", `{"a": {}, "b": [[]]}`}},
	{"STRUCT", `{a: 1, f: "x.txt"}`, []string{`{a: null, f: null}`, `{f: "y", a: -2}`, "null"}},
	{"ARR", `[1, 2]`, []string{`[]`, `[null]`, `[1]`, `[3, 2, 1, 0]`, "null"}},
	{"TMAP", `{"a": 1}`, []string{`{}`, `{"b": 2, "a": 1}`, `{"k k": null}`, "null"}},
	{"SRC", "stages/s1", []string{"stages/s1 arg1 arg2", "s", "a\\\"b c", "a\\\\b", "é", "  padded  ", "a\\tb"}},
	{"LANG", "py", []string{"exec", "comp"}},
	{"HELP", "help x", []string{"", `q\"uote`, `back\\slash`, "é", `line\nbreak`}},
	{"OUTNAME", "out.txt", []string{"o", "é.txt", `a\\b`}},
	{"SPECIAL", "hi", []string{`a\"b`, `a\\nb`, "é", ""}},
	{"MEM", "4", []string{"0.5", "1.5", "0.3", "100", "-1", "0", "1e2", "2.25", "0.001"}},
	{"THR", "2", []string{"0.3", "0.5", "16", "-1", "1.25"}},
	{"VMEM", "8", []string{"0.7", "1024", "3.5"}},
	{"VOL", "strict", []string{"false"}},
	{"LOCAL", "true", []string{"false"}},
	// identifiers wider than any column the formatter pads to
	{"TNAME", "ST", []string{"SAMPLE_LEVEL_ALIGNMENT_METRICS_X", "T", "A_TYPE_NAME_OF_EXACTLY_29_CHARS", "A_TYPE_NAME_OF_EXACTLY_30_CHARSX", "A_STRUCT_TYPE_WITH_A_NAME_OF_MORE_THAN_FORTY_CHARACTERS"}},
	{"PNAME", "st", []string{"a_parameter_name_of_more_than_thirty_five_characters", "p", "a_parameter_name_of_exactly_35_char", "a_parameter_name_of_exactly_34_cha"}},
}

func instantiate(sub map[string]string, commentAt map[int]string) string {
	s := baseTemplate
	for _, sl := range slots {
		v := sl.def
		if x, ok := sub[sl.name]; ok {
			v = x
		}
		s = strings.ReplaceAll(s, "@"+sl.name+"@", v)
	}
	for i := 22; i >= 0; i-- {
		rep := ""
		if c, ok := commentAt[i]; ok {
			rep = "# " + c + "\n"
			if strings.HasSuffix(c, " (blank line follows)") {
				rep += "\n"
			}
		}
		s = strings.ReplaceAll(s, fmt.Sprintf("@C%d@", i), rep)
	}
	return s
}

// optional clause variants: textual removals from the instantiated program
type clause struct{ name, from, to string }

var clauses = []clause{
	{"no-split", ") split (\n    in  int      c,\n    out int      co,\n) using (", ") using ("},
	{"empty-split", ") split (\n    in  int      c,\n    out int      co,\n) using (", ") split (\n) using ("},
	{"empty-split-legacy", ") split (\n    in  int      c,\n    out int      co,\n) using (", ") split using (\n) using ("},
	{"no-using", ") using (\n    mem_gb   = 4,\n    threads  = 2,\n    vmem_gb  = 8,\n    volatile = strict,\n    special  = \"hi\",\n) retain (", ") retain ("},
	{"no-stage-retain", ") retain (\n    f,\n)\n", ")\n"},
	{"no-pipeline-retain", "\n    retain (\n        S1.f,\n        S2.o,\n    )\n", ""},
	{"no-modifiers", ") using (\n        disabled = self.d,\n        local    = true,\n        volatile = true,\n    )", ")"},
	{"prefix-modifiers", "    call S1(\n", "    call local volatile S1(\n"},
	{"no-help", "\"help a\"", ""},
	{"no-call", "call P(\n    a = 1,\n    d = false,\n)\n", ""},
	{"wildcard", "a = 1,\n    d = false,", "a = 1,\n    d = true,"},
}

func corpusFiles() map[string]string {
	out := map[string]string{}
	repo := os.Getenv("REPO")
	if repo == "" {
		repo = "/repo"
	}
	for _, g := range []string{"martian/syntax/testdata/*.mro", "martian/core/testdata/*.mro", "test/*/*.mro", "martian/syntax/refactoring/testdata/*.mro"} {
		m, _ := filepath.Glob(filepath.Join(repo, g))
		for _, f := range m {
			if b, err := os.ReadFile(f); err == nil {
				rel, _ := filepath.Rel(repo, f)
				out[rel] = string(b)
			}
		}
	}
	return out
}

func main() {
	r := ev.New("C09", "exploration")
	r.SetBudget(90*time.Second, 20*time.Minute)
	repo := os.Getenv("REPO")
	if repo == "" {
		repo = "/repo"
	}
	incDir = filepath.Join(repo, "martian/syntax/testdata")
	if r.ReplayPath != "" {
		var c Case
		if err := ev.LoadReplay(r.ReplayPath, &c); err != nil {
			fmt.Println(err)
			os.Exit(2)
		}
		r.Eval("replay")
		r.Sample(map[string]string{"desc": c.Desc})
		var fs []ev.Finding
		if c.Kind == "multi" {
			fs = checkMulti(c)
		} else {
			fs = checkSingle(c)
		}
		for _, f := range fs {
			r.Report(f)
		}
		r.Finish()
	}
	var cases []Case
	add := func(desc string, sub map[string]string, cm map[int]string, mut func(string) string) {
		src := instantiate(sub, cm)
		if mut != nil {
			src = mut(src)
		}
		cases = append(cases, Case{Kind: "single", Src: src, Desc: desc})
	}
	add("base", nil, nil, nil)
	// 1-slot deviations
	for _, sl := range slots {
		for _, v := range sl.vals {
			add("slot:"+sl.name+"="+v, map[string]string{sl.name: v}, nil, nil)
		}
	}
	// 2-slot deviations (all pairs of values of different slots)
	for i, a := range slots {
		for _, b := range slots[i+1:] {
			for _, va := range a.vals {
				for _, vb := range b.vals {
					add("slots:"+a.name+"="+va+","+b.name+"="+vb, map[string]string{a.name: va, b.name: vb}, nil, nil)
				}
			}
		}
	}
	// comments before each element kind, singly and in pairs
	for i := 0; i <= 22; i++ {
		add(fmt.Sprintf("comment@%d", i), nil, map[int]string{i: fmt.Sprintf("comment number %d", i)}, nil)
		for j := i + 1; j <= 22; j++ {
			add(fmt.Sprintf("comments@%d,%d", i, j), nil, map[int]string{i: fmt.Sprintf("comment number %d", i), j: fmt.Sprintf("comment number %d", j)}, nil)
		}
	}
	// a comment separated from the element it precedes by an empty line
	for i := 0; i <= 22; i++ {
		add(fmt.Sprintf("comment-then-blank-line@%d", i), nil, map[int]string{i: fmt.Sprintf("comment number %d (blank line follows)", i)}, nil)
	}
	// dangling comments before each closing bracket
	{
		base := instantiate(nil, nil)
		lines := strings.Split(base, "\n")
		for li, l := range lines {
			t := strings.TrimSpace(l)
			if strings.HasPrefix(t, ")") || strings.HasPrefix(t, "}") || strings.HasPrefix(t, "]") {
				mod := append(append(append([]string{}, lines[:li]...), "    # dangling before line "+fmt.Sprint(li)), lines[li:]...)
				cases = append(cases, Case{Kind: "single", Src: strings.Join(mod, "\n"), Desc: fmt.Sprintf("dangling-comment@line%d", li)})
			}
		}
		// comments inside collections
		cases = append(cases, Case{Kind: "single", Desc: "comment-in-array", Src: strings.Replace(base, "xs = [1, 2],", "xs = [\n            # first element\n            1,\n            # second element\n            2,\n        ],", 1)})
		cases = append(cases, Case{Kind: "single", Desc: "comment-in-map", Src: strings.Replace(base, `m  = {"k": 1},`, "m  = {\n            # the key\n            \"k\": 1,\n        },", 1)})
		cases = append(cases, Case{Kind: "single", Desc: "comment-in-struct", Src: strings.Replace(base, `st = {a: 1, f: "x.txt"},`, "st = {\n            # field a\n            a: 1,\n            # field f\n            f: \"x.txt\",\n        },", 1)})
		cases = append(cases, Case{Kind: "single", Desc: "comment-then-blank-line-in-array", Src: strings.Replace(base, "xs = [1, 2],", "xs = [\n            # first element\n\n            1,\n            2,\n        ],", 1)})
		cases = append(cases, Case{Kind: "single", Desc: "comment-then-blank-line-in-map", Src: strings.Replace(base, `m  = {"k": 1},`, "m  = {\n            # the key\n\n            \"k\": 1,\n        },", 1)})
		cases = append(cases, Case{Kind: "single", Desc: "comment-before-resource-entry", Src: strings.Replace(base, "    threads  = 2,", "    # threads comment\n    threads  = 2,", 1)})
		cases = append(cases, Case{Kind: "single", Desc: "comment-before-prefix-modifier-call", Src: strings.Replace(strings.Replace(base, "    call S1(\n", "    # about the call\n    call local volatile S1(\n", 1), ") using (\n        disabled = self.d,\n        local    = true,\n        volatile = true,\n    )", ")", 1)})
		cases = append(cases, Case{Kind: "single", Desc: "comment-before-modifier-entry", Src: strings.Replace(base, "        local    = true,", "        # why local\n        local    = true,", 1)})
	}
	// the using block of a call: its three entries in each of their six
	// written orders (the formatter prints them sorted) x every subset of
	// {a comment between the last binding and ") using (", a comment before
	// each entry}
	{
		base := instantiate(nil, nil)
		block := "    ) using (\n        disabled = self.d,\n        local    = true,\n        volatile = true,\n    )"
		if strings.Count(base, block) == 1 {
			entries := []string{"disabled = self.d,", "local    = true,", "volatile = true,"}
			orders := [][]int{{0, 1, 2}, {0, 2, 1}, {1, 0, 2}, {1, 2, 0}, {2, 0, 1}, {2, 1, 0}}
			for oi, ord := range orders {
				for mask := 0; mask < 16; mask++ {
					var b strings.Builder
					if mask&8 != 0 {
						b.WriteString("        # dangling after the bindings\n")
					}
					b.WriteString("    ) using (\n")
					for pos, e := range ord {
						if mask&(1<<pos) != 0 {
							fmt.Fprintf(&b, "        # about entry %d of the using block\n", pos)
						}
						b.WriteString("        " + entries[e] + "\n")
					}
					b.WriteString("    )")
					desc := fmt.Sprintf("using-block:order=%d:comments=%04b", oi, mask)
					if mask&8 != 0 {
						desc += ":dangling"
					}
					cases = append(cases, Case{Kind: "single", Desc: desc, Src: strings.Replace(base, block, b.String(), 1)})
				}
			}
		} else {
			panic("C09: the template's using block has changed; update the using-block family")
		}
	}
	// optional clauses, singly and in pairs, and with each 1-slot deviation of the numeric slots
	for i, c1 := range clauses {
		c1 := c1
		add("clause:"+c1.name, nil, nil, func(s string) string { return strings.Replace(s, c1.from, c1.to, 1) })
		for _, c2 := range clauses[i+1:] {
			c2 := c2
			add("clauses:"+c1.name+"+"+c2.name, nil, nil, func(s string) string {
				return strings.Replace(strings.Replace(s, c1.from, c1.to, 1), c2.from, c2.to, 1)
			})
		}
	}
	// call modifiers: every combination of keyword-form and bound-form
	// local / preflight / volatile (+ disabled) on a call that may carry them
	{
		const modTemplate = `stage CHECK(
    in  int a,
    src comp "check",
)

stage WORK(
    in  int a,
    out int r,
    src comp "work",
)

pipeline P(
    in  int  a,
    in  bool d,
    out int  r,
)
{
    call@KW@ CHECK(
        a = self.a,
    )@USING@

    call WORK(
        a = self.a,
    )

    return (
        r = WORK.r,
    )
}
`
		kws := []string{"local", "preflight", "volatile"}
		vals := []string{"", "true", "false"}
		for kmask := 0; kmask < 8; kmask++ {
			kw := ""
			for i, k := range kws {
				if kmask&(1<<i) != 0 {
					kw += " " + k
				}
			}
			for _, bl := range vals {
				for _, bp := range vals {
					for _, bv := range vals {
						for _, dis := range []bool{false, true} {
							// the same modifier in both syntaxes has no defined meaning
							if (kmask&1 != 0 && bl != "") || (kmask&2 != 0 && bp != "") || (kmask&4 != 0 && bv != "") {
								continue
							}
							var entries []string
							if dis {
								entries = append(entries, "        disabled  = self.d,")
							}
							if bl != "" {
								entries = append(entries, "        local     = "+bl+",")
							}
							if bp != "" {
								entries = append(entries, "        preflight = "+bp+",")
							}
							if bv != "" {
								entries = append(entries, "        volatile  = "+bv+",")
							}
							using := ""
							if len(entries) > 0 {
								using = " using (\n" + strings.Join(entries, "\n") + "\n    )"
							}
							src := strings.Replace(strings.Replace(modTemplate, "@KW@", kw, 1), "@USING@", using, 1)
							cases = append(cases, Case{Kind: "single", Src: src,
								Desc: fmt.Sprintf("modifiers:kw=%s:local=%s:preflight=%s:volatile=%s:disabled=%v", strings.TrimSpace(strings.ReplaceAll(kw, " ", "+")), bl, bp, bv, dis)})
						}
					}
				}
			}
		}
	}
	// call orders: permutations of three independent calls + one dependent
	{
		calls := []string{
			"    call S1 as A(\n        x = 1,\n        y = 1.5,\n        s = \"s\",\n        m = {},\n        st = null,\n        xs = [],\n        mi = {},\n    )\n",
			"    call S1 as B(\n        x = A.o,\n        y = 1.5,\n        s = \"s\",\n        m = {},\n        st = null,\n        xs = [],\n        mi = {},\n    )\n",
			"    call S1 as C(\n        x = 2,\n        y = 1.5,\n        s = \"s\",\n        m = {},\n        st = null,\n        xs = [B.o],\n        mi = {},\n    )\n",
			"    call S1 as D(\n        x = 3,\n        y = 1.5,\n        s = \"s\",\n        m = {},\n        st = null,\n        xs = [],\n        mi = {},\n    )\n",
		}
		head := instantiate(nil, nil)
		head = head[:strings.Index(head, "pipeline P(")]
		perm := []int{0, 1, 2, 3}
		var permute func(k int)
		permute = func(k int) {
			if k == len(perm) {
				var b strings.Builder
				b.WriteString(head)
				b.WriteString("pipeline P(\n    in  int a,\n    out int r,\n)\n{\n")
				for _, i := range perm {
					b.WriteString(calls[i] + "\n")
				}
				b.WriteString("    return (\n        r = C.o,\n    )\n}\n")
				cases = append(cases, Case{Kind: "single", Src: b.String(), Desc: fmt.Sprintf("call-order:%v", perm)})
				return
			}
			for i := k; i < len(perm); i++ {
				perm[k], perm[i] = perm[i], perm[k]
				permute(k + 1)
				perm[k], perm[i] = perm[i], perm[k]
			}
		}
		permute(0)
	}
	// the repository's fixtures
	files := corpusFiles()
	var names []string
	for n := range files {
		names = append(names, n)
	}
	sort.Strings(names)
	for _, n := range names {
		cases = append(cases, Case{Kind: "single", Src: files[n], Desc: "fixture:" + n})
	}
	// multi-file programs
	stage := "stage S(\n    in  int x,\n    out int y,\n    src py \"s\",\n)\n"
	pipe := func(name, callee string) string {
		return "pipeline " + name + "(\n    in  int a,\n    out int b,\n)\n{\n    call " + callee + "(\n        x = self.a,\n    )\n\n    return (\n        b = " + callee + ".y,\n    )\n}\n"
	}
	pipe2 := "pipeline Q(\n    in  int a,\n    out int b,\n)\n{\n    call P(\n        a = self.a,\n    )\n\n    return (\n        b = P.b,\n    )\n}\n"
	multi := []Case{
		{Kind: "multi", Desc: "include-chain", Src: "@include \"p.mro\"\n\ncall P(\n    a = 1,\n)\n",
			Files: map[string]string{"p.mro": "@include \"s.mro\"\n\n" + pipe("P", "S"), "s.mro": "filetype txt;\n\n" + stage}},
		{Kind: "multi", Desc: "include-diamond", Src: "@include \"p.mro\"\n@include \"q.mro\"\n\ncall Q(\n    a = 1,\n)\n",
			Files: map[string]string{"p.mro": "@include \"s.mro\"\n\n" + pipe("P", "S"), "q.mro": "@include \"p.mro\"\n@include \"s.mro\"\n\n" + pipe2, "s.mro": stage}},
		{Kind: "multi", Desc: "include-nested-dir", Src: "@include \"sub/p.mro\"\n\ncall P(\n    a = 1,\n)\n",
			Files: map[string]string{"sub/p.mro": "@include \"deep/s.mro\"\n\n" + pipe("P", "S"), "sub/deep/s.mro": stage}},
		{Kind: "multi", Desc: "include-same-basename", Src: "@include \"x/p.mro\"\n\ncall P(\n    a = 1,\n)\n",
			Files: map[string]string{"x/p.mro": "@include \"y/p.mro\"\n\n" + pipe("P", "S"), "x/y/p.mro": stage}},
		{Kind: "multi", Desc: "include-with-quote-in-src", Src: "@include \"s.mro\"\n\n" + pipe("P", "S") + "\ncall P(\n    a = 1,\n)\n",
			Files: map[string]string{"s.mro": strings.Replace(stage, "\"s\"", "\"s a\\\"b\"", 1)}},
		{Kind: "multi", Desc: "include-with-comments", Src: "# top comment\n@include \"s.mro\"\n\n# about P\n" + pipe("P", "S") + "\ncall P(\n    a = 1,\n)\n",
			Files: map[string]string{"s.mro": "# stage file comment\n" + stage}},
	}
	cases = append(cases, multi...)

	r.Rule = fmt.Sprintf("a template program with %d literal/string/number/keyword slots: the base, every 1-slot and every 2-slot substitution from per-slot value lists (negative, huge and tiny numbers, every escape form, non-ASCII, nested empty collections, struct vs map literals, strings with quotes/backslashes in src/help/outname/special); "+
		"every optional clause removed singly and in pairs (split, using, retains, modifiers in both syntaxes, help, call); all 128 combinations of local/preflight/volatile each absent, in keyword form, bound true or bound false (+disabled) on one call; for compiling sources the include-expanded rendering (what mrp records as _mrosource) must compile on its own to the same program; a comment before each of 23 element positions singly and in pairs, dangling before every closing bracket, inside collections and resource/modifier lists; the three entries of a call's using block in each of their 6 written orders x every subset of 4 comment positions (before the block, before each entry); all 24 orders of 4 calls; every .mro fixture of the repository; 6 include graphs. "+
		"oracle: formatted text parses, canonical position-free tree equal, comments kept (exactly once when not dangling), fixed point, compiles if the source did, include-expanded text compiles alone with an equal call graph. distinct = distinct source texts; non-trivial = accepted by the parser", len(slots))
	if only := os.Getenv("VERIF_ONLY"); only != "" {
		var sel []Case
		for _, c := range cases {
			if strings.Contains(c.Desc, only) {
				sel = append(sel, c)
			}
		}
		cases = sel
	}
	r.Set("cases", len(cases))
	// pass 1: single-slot deviations decide which (kind, slot=value) fail on
	// their own, so that two-slot cases are attributed to the smaller cause
	var smu sync.Mutex
	singleFail := map[string]bool{}
	for _, c := range cases {
		if strings.HasPrefix(c.Desc, "slot:") || strings.HasPrefix(c.Desc, "comment@") || strings.HasPrefix(c.Desc, "clause:") {
			for _, f := range checkSingle(c) {
				smu.Lock()
				singleFail[strings.Split(f.Sig, ":")[1]+"|"+strings.TrimPrefix(c.Desc, "slot:")] = true
				smu.Unlock()
			}
		}
	}
	order := r.Rotate(len(cases))
	ev.ParallelFor(len(cases), func(i int) bool {
		c := cases[order[i]]
		var fs []ev.Finding
		if c.Kind == "multi" {
			fs = checkMulti(c)
		} else {
			if _, err := parse(c.Src); err != nil {
				r.Eval("")
				r.Outcome("not-accepted")
				return true
			}
			fs = checkSingle(c)
		}
		r.Eval(c.Src)
		if len(fs) == 0 {
			r.Outcome("ok")
		}
		for _, f := range fs {
			r.Outcome(strings.Split(f.Sig, ":")[1])
			// class signature: kind + the smallest set of slot=value pairs responsible
			f.Sig = classSig(f.Sig, singleFail)
			r.Report(f)
		}
		if i%997 == 0 {
			r.Sample(map[string]string{"desc": c.Desc, "source_excerpt": ev.Short(c.Src, 300)})
		}
		return !r.Expired("case enumeration")
	})
	r.Finish()
}

// classSig reduces "C09:kind:slots:A=va,B=vb" to the kind and the
// responsible slot=value pairs: if one of the two substitutions already fails
// on its own with the same kind, the case is attributed to it alone.
func classSig(s string, singleFail map[string]bool) string {
	parts := strings.SplitN(s, ":", 4)
	if len(parts) < 3 {
		return s
	}
	if len(parts) == 3 {
		parts = append(parts, "")
	}
	kind, fam, rest := parts[1], parts[2], parts[3]
	switch fam {
	case "slot":
		return "C09:" + kind + ":slot:" + rest
	case "slots":
		// rest = A=va,B=vb where values may contain commas: split at ",NAME="
		idx := -1
		for _, sl := range slots {
			if j := strings.Index(rest, ","+sl.name+"="); j > 0 {
				idx = j
			}
		}
		if idx < 0 {
			return "C09:" + kind + ":slots:" + rest
		}
		a, b := rest[:idx], rest[idx+1:]
		if singleFail[kind+"|"+a] {
			return "C09:" + kind + ":slot:" + a
		}
		if singleFail[kind+"|"+b] {
			return "C09:" + kind + ":slot:" + b
		}
		return "C09:" + kind + ":slots:" + a + "," + b
	}
	if strings.HasPrefix(fam, "comments@") {
		// pairs of comments: attribute to the one that fails alone
		ij := strings.Split(strings.TrimPrefix(fam, "comments@"), ",")
		for _, x := range ij {
			if singleFail[kind+"|comment@"+x] {
				return "C09:" + kind + ":comment@" + x
			}
		}
	}
	if fam == "clauses" {
		for _, x := range strings.Split(rest, "+") {
			if singleFail[kind+"|clause:"+x] {
				return "C09:" + kind + ":clause:" + x
			}
		}
	}
	if rest == "" {
		return "C09:" + kind + ":" + fam
	}
	return "C09:" + kind + ":" + fam + ":" + rest
}
