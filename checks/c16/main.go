//go:build verif

// C16: MRO call text and invocation JSON convert into each other without
// loss.  Bounded-exhaustive enumeration of callable signatures x argument
// values x split subsets through BuildCallSource -> InvocationDataFromSource
// (and compilation of the produced text), plus the per-fork _invocation files
// of real pipestance runs.
package main

import (
	"bytes"
	"encoding/json"
	"fmt"
	"math/big"
	"os"
	"os/exec"
	"path/filepath"
	"sort"
	"strings"
	"sync/atomic"
	"time"

	"github.com/martian-lang/martian/martian/core"
	"github.com/martian-lang/martian/martian/syntax"

	"verif/lib/ev"
	"verif/lib/progen"
	"verif/lib/psx"
)

const header = `filetype txt;

struct B(
    int x,
)

struct A(
    int    x,
    string s,
    int[]  v,
)

struct C(
    A      a,
    A[]    sa,
    map<A> ma,
    B      b,
    txt    f,
)
`

type Case struct {
	Types  []string `json:"types"`
	Values []string `json:"values"` // JSON text per parameter
	Split  []int    `json:"split"`  // indices of split parameters
}

var structFields = map[string][][2]string{
	"B": {{"x", "int"}},
	"A": {{"x", "int"}, {"s", "string"}, {"v", "int[]"}},
	"C": {{"a", "A"}, {"sa", "A[]"}, {"ma", "map<A>"}, {"b", "B"}, {"f", "txt"}},
}

func parseTid(s string) syntax.TypeId {
	var t syntax.TypeId
	if err := t.UnmarshalText([]byte(s)); err != nil {
		panic(err)
	}
	return t
}

// values of a type as JSON texts (first = typical)
func values(t syntax.TypeId) []string {
	if t.ArrayDim > 0 {
		e := values(syntax.TypeId{Tname: t.Tname, ArrayDim: t.ArrayDim - 1, MapDim: t.MapDim})
		out := []string{"[" + e[0] + "," + e[min(1, len(e)-1)] + "]", "[]", "[" + e[len(e)-1] + "]", "null"}
		if len(e) > 2 {
			out = append(out, "[null,"+e[2]+"]")
		}
		// every element value once, so that no scalar form is only tested
		// at the top level
		out = append(out, "["+strings.Join(convertible(e), ",")+"]")
		return out
	}
	if t.MapDim > 0 {
		e := values(syntax.TypeId{Tname: t.Tname, ArrayDim: t.MapDim - 1})
		out := []string{`{"a":` + e[0] + `,"b c":` + e[min(1, len(e)-1)] + `}`, "{}", `{"é\"k":` + e[len(e)-1] + `}`, "null", `{"k-1":null}`}
		var all []string
		for i, v := range convertible(e) {
			all = append(all, fmt.Sprintf(`"k%d":%s`, i, v))
		}
		out = append(out, "{"+strings.Join(all, ",")+"}")
		return out
	}
	switch t.Tname {
	case "int":
		return []string{"7", "0", "-9007199254740993", "9223372036854775807", "-9223372036854775808", "null"}
	case "float":
		return []string{"1.5", "2", "1e21", "5e-324", "-0.0", "0.30000000000000004", "123456789012345680000",
			"2.718281828459045", "123456789.125", "16777217.0", "6.02214076e23", "1.7976931348623157e308", "1e-7", "-1.25e-300", "null"}
	case "string", "txt", "file", "path":
		return []string{`"/a/b.txt"`, `""`, `"q\"\\é\n\t☺"`, `"\u0000x"`, `"100% done, 50%% off %s %!d(x) %"`, "null"}
	case "bool":
		return []string{"true", "false", "null"}
	case "map":
		return []string{`{"k":1,"n":["s",{"d":null}],"f":1.25}`, "{}", "null", `{"a b":{"x":[[]]}}`}
	default:
		fields := structFields[t.Tname]
		var out []string
		for variant := 0; variant < 2; variant++ {
			var parts []string
			for _, f := range fields {
				fv := values(parseTid(f[1]))
				v := fv[0]
				if variant == 1 {
					v = fv[len(fv)-1]
					if len(fv) > 2 {
						v = fv[2]
					}
				}
				parts = append(parts, fmt.Sprintf("%q:%s", f[0], v))
			}
			out = append(out, "{"+strings.Join(parts, ",")+"}")
		}
		return append(out, "null")
	}
}

// convertible once dropped scalar values that were known findings on their
// own (20-digit float, -0.0; both repaired since); it keeps every value now.
func convertible(vals []string) []string {
	var out []string
	for _, v := range vals {
		if v != "" {
			out = append(out, v)
		}
	}
	return out
}

// numerically exact JSON comparison
func jsonEqExact(a, b interface{}) string {
	switch x := a.(type) {
	case nil:
		if b == nil {
			return ""
		}
	case bool:
		if y, ok := b.(bool); ok && x == y {
			return ""
		}
	case string:
		if y, ok := b.(string); ok && x == y {
			return ""
		}
	case json.Number:
		if y, ok := b.(json.Number); ok {
			rx, ok1 := new(big.Rat).SetString(string(x))
			ry, ok2 := new(big.Rat).SetString(string(y))
			if ok1 && ok2 && rx.Cmp(ry) == 0 {
				return ""
			}
			// denormal / huge exponents: compare as float64 bit patterns
			fx, _ := x.Float64()
			fy, _ := y.Float64()
			if (!ok1 || !ok2) && fx == fy {
				return ""
			}
			return fmt.Sprintf("number %s became %s", x, y)
		}
	case []interface{}:
		if y, ok := b.([]interface{}); ok {
			if len(x) != len(y) {
				return fmt.Sprintf("array length %d became %d", len(x), len(y))
			}
			for i := range x {
				if d := jsonEqExact(x[i], y[i]); d != "" {
					return fmt.Sprintf("[%d]: %s", i, d)
				}
			}
			return ""
		}
	case map[string]interface{}:
		if y, ok := b.(map[string]interface{}); ok {
			if len(x) != len(y) {
				return fmt.Sprintf("object with %d keys became one with %d keys", len(x), len(y))
			}
			for k, v := range x {
				w, ok := y[k]
				if !ok {
					return fmt.Sprintf("key %q lost", k)
				}
				if d := jsonEqExact(v, w); d != "" {
					return fmt.Sprintf("%q: %s", k, d)
				}
			}
			return ""
		}
	}
	ja, _ := json.Marshal(a)
	jb, _ := json.Marshal(b)
	return fmt.Sprintf("%s became %s", ev.Short(string(ja), 120), ev.Short(string(jb), 120))
}

func decode(s []byte) (interface{}, error) {
	dec := json.NewDecoder(strings.NewReader(string(s)))
	dec.UseNumber()
	var v interface{}
	err := dec.Decode(&v)
	return v, err
}

var scratch string

func check(c Case) (out []ev.Finding) {
	desc := fmt.Sprintf("stage ST(%s) values %s split %v", strings.Join(c.Types, ", "), ev.Short(strings.Join(c.Values, " | "), 300), c.Split)
	report := func(kind, what string) {
		sigT := c.Types[0]
		out = append(out, ev.Finding{Sig: "C16:" + kind + ":" + sigClass(c), What: desc + ": " + what, Case: c})
		_ = sigT
	}
	defer func() {
		if r := recover(); r != nil {
			report("panic", fmt.Sprint("panic: ", r))
		}
	}()
	dir, err := os.MkdirTemp(scratch, "c")
	if err != nil {
		return nil
	}
	defer os.RemoveAll(dir)
	var decl strings.Builder
	decl.WriteString(header + "\nstage ST(\n")
	for i, t := range c.Types {
		fmt.Fprintf(&decl, "    in  %s p%d,\n", t, i)
	}
	decl.WriteString("    src py \"st\",\n)\n")
	declPath := filepath.Join(dir, "decl.mro")
	os.WriteFile(declPath, []byte(decl.String()), 0o644)
	_, _, ast, err := syntax.Compile(declPath, []string{dir}, false)
	if err != nil {
		report("setup", "declaration does not compile: "+err.Error())
		return
	}
	callable := ast.Callables.Table["ST"]
	args := core.MarshalerMap{}
	var splitargs []string
	for _, i := range c.Split {
		splitargs = append(splitargs, fmt.Sprintf("p%d", i))
	}
	for i, v := range c.Values {
		args[fmt.Sprintf("p%d", i)] = json.RawMessage(v)
	}
	name := "ST"
	src, err := core.BuildCallSource(name, args, splitargs, callable, &ast.TypeTable, []string{dir})
	if err != nil {
		report("json-to-mro-fails", "BuildCallSource: "+err.Error())
		return
	}
	// the produced source compiles
	if _, _, _, err := syntax.ParseSourceBytes([]byte(src), filepath.Join(dir, "call.mro"), []string{dir}, false); err != nil {
		report("produced-source-does-not-compile", firstLine(err.Error())+"\n--- source ---\n"+ev.Short(src, 800))
		return
	}
	// the command-line tool (cmd/mrg, built from the working tree) must print
	// what the library produces, in both directions
	if mrgBin != "" && len(c.Types) == 1 {
		inv0 := core.InvocationData{Call: name, Args: core.LazyArgumentMap{}, Include: "decl.mro", SplitArgs: splitargs}
		for k, v := range args {
			inv0.Args[k] = v.(json.RawMessage)
		}
		if want, lerr := inv0.BuildCallSource([]string{dir}); lerr == nil {
			ib, _ := json.Marshal(&inv0)
			got, gerr := runMrg(dir, ib)
			if gerr != nil {
				report("mrg-fails", "mrg fails on invocation data the library converts: "+gerr.Error())
			} else if got != want {
				report("mrg-differs-from-library", fmt.Sprintf("mrg prints\n%s\nthe library produces\n%s", ev.Short(got, 400), ev.Short(want, 400)))
			}
			if back, berr := runMrg(dir, []byte(want), "--reverse"); berr != nil {
				report("mrg-reverse-fails", "mrg --reverse fails on call text the library converts: "+berr.Error())
			} else if linv, lerr := core.InvocationDataFromSource([]byte(want), []string{dir}); lerr == nil {
				var binv core.InvocationData
				if derr := json.Unmarshal([]byte(back), &binv); derr != nil {
					report("mrg-reverse-output-not-json", derr.Error()+": "+ev.Short(back, 300))
				} else {
					for k, raw := range linv.Args {
						a, _ := decode(raw)
						b, _ := decode(binv.Args[k])
						if dd := jsonEqExact(a, b); dd != "" {
							report("mrg-reverse-differs-from-library", "argument "+k+": "+dd)
						}
					}
				}
			}
			atomic.AddInt64(&mrgRuns, 1)
		}
	}
	inv, err := core.InvocationDataFromSource([]byte(src), []string{dir})
	if err != nil {
		report("mro-to-json-fails", "InvocationDataFromSource: "+err.Error()+"\n--- source ---\n"+ev.Short(src, 800))
		return
	}
	if inv.Call != name {
		report("call-name", fmt.Sprintf("call name %q became %q", name, inv.Call))
	}
	if inv.Include != "decl.mro" {
		report("include", fmt.Sprintf("include %q became %q", "decl.mro", inv.Include))
	}
	got := append([]string{}, inv.SplitArgs...)
	sort.Strings(got)
	want := append([]string{}, splitargs...)
	sort.Strings(want)
	if strings.Join(got, ",") != strings.Join(want, ",") {
		report("split-set", fmt.Sprintf("split arguments %v became %v", want, got))
	}
	for i, v := range c.Values {
		p := fmt.Sprintf("p%d", i)
		back, ok := inv.Args[p]
		if !ok {
			report("arg-lost", "argument "+p+" is missing after the round trip")
			continue
		}
		a, err1 := decode([]byte(v))
		b, err2 := decode(back)
		if err1 != nil || err2 != nil {
			report("arg-unparseable", fmt.Sprintf("argument %s: %v %v (%s)", p, err1, err2, ev.Short(string(back), 200)))
			continue
		}
		if d := jsonEqExact(a, b); d != "" {
			report("arg-changed", fmt.Sprintf("argument %s of type %s changed in the round trip: %s\n--- source ---\n%s", p, c.Types[i], d, ev.Short(src, 800)))
		}
	}
	// second leg: MRO -> JSON -> MRO gives the same text
	args2 := core.MarshalerMap{}
	for k, v := range inv.Args {
		args2[k] = v
	}
	src2, err := core.BuildCallSource(name, args2, inv.SplitArgs, callable, &ast.TypeTable, []string{dir})
	if err != nil {
		report("second-json-to-mro-fails", err.Error())
	} else if src2 != src {
		report("text-not-stable", "MRO -> JSON -> MRO changes the text:\n"+ev.Short(src, 400)+"\n=>\n"+ev.Short(src2, 400))
	}
	return out
}

var (
	mrgBin  string
	mrgRuns int64
)

// runMrg runs the real mrg with the MRO path set to dir.
func runMrg(dir string, stdin []byte, args ...string) (string, error) {
	cmd := exec.Command(mrgBin, args...)
	cmd.Env = []string{"MROPATH=" + dir, "PATH=/usr/bin:/bin", "HOME=" + dir}
	cmd.Dir = dir
	cmd.Stdin = bytes.NewReader(stdin)
	var out, errb bytes.Buffer
	cmd.Stdout, cmd.Stderr = &out, &errb
	if err := cmd.Run(); err != nil {
		return out.String(), fmt.Errorf("%v: %s %s", err, ev.Short(errb.String(), 200), ev.Short(out.String(), 200))
	}
	return out.String(), nil
}

func sigClass(c Case) string {
	// a float written with 20+ digits is the same (known) defect wherever
	// in a value it occurs
	for _, v := range c.Values {
		if strings.Contains(v, "123456789012345680000") {
			return "float=123456789012345680000"
		}
	}
	for _, i := range c.Split {
		if strings.Contains(c.Values[i], `{"split":[]}`) || strings.Contains(c.Values[i], `{"split":{}}`) {
			return "split-over-empty-collection"
		}
	}
	for _, i := range c.Split {
		b := parseTid(c.Types[i]).Tname
		if strings.HasPrefix(c.Values[i], `{"split":{`) && (b == "A" || b == "B" || b == "C") {
			return "split-over-map-of-structs"
		}
	}
	if len(c.Types) == 1 && len(c.Split) == 0 {
		return c.Types[0] + "=" + c.Values[0]
	}
	// type shapes involved, split or not
	var parts []string
	for i, t := range c.Types {
		s := t
		for _, j := range c.Split {
			if j == i {
				s = "split(" + s + ")"
			}
		}
		parts = append(parts, s)
	}
	return strings.Join(parts, ",")
}

func firstLine(s string) string {
	if i := strings.IndexByte(s, '\n'); i >= 0 {
		return s[:i]
	}
	return s
}

func structLiteralInvocation(r *ev.Run) {
	p := progen.Dataflow(progen.DataflowParams{Kind: "cstruct", Src: "gen", Size: 2, Cons: "id"})
	if p == nil {
		return
	}
	p.Structs = append(p.Structs, &progen.StructDecl{Name: "WM", Fields: []progen.Param{
		{T: progen.IntT, Name: "x"}, {T: progen.MapT, Name: "um"}, {T: progen.TMapOf(progen.IntT), Name: "tm"}, {T: progen.StructT("C"), Name: "c"}}})
	p.Stages = append(p.Stages,
		&progen.Stage{Name: "MK", Fn: "GEN", Ins: []progen.Param{{T: progen.IntT, Name: "n"}},
			Outs: []progen.Param{{T: progen.MapT, Name: "um"}, {T: progen.TMapOf(progen.IntT), Name: "tm"}}},
		&progen.Stage{Name: "TAKE_WM", Fn: "ID", Ins: []progen.Param{{T: progen.StructT("WM"), Name: "x"}}, Outs: []progen.Param{{T: progen.StructT("WM"), Name: "y"}}})
	top := p.Pipeline("TOP")
	top.Calls = append(top.Calls,
		&progen.Call{Callee: "MK", Binds: []progen.Bind{{Name: "n", E: progen.Self("n")}}},
		&progen.Call{Callee: "TAKE_WM", Binds: []progen.Bind{{Name: "x", E: progen.StructE(
			[]string{"x", "um", "tm", "c"},
			[]*progen.Exp{progen.Lit(progen.Int(1)), progen.Ref("MK", "um"), progen.Ref("MK", "tm"),
				progen.StructE([]string{"a", "sa", "ma"}, []*progen.Exp{progen.Ref("GEN", "one"), progen.Ref("GEN", "ss"), progen.Ref("GEN", "ms")})})}}})
	top.Outs = append(top.Outs, progen.Param{T: progen.StructT("WM"), Name: "wm"})
	top.Ret = append(top.Ret, progen.Bind{Name: "wm", E: progen.Ref("TAKE_WM", "y")})
	p.Desc = "struct-literal-with-map-members-from-upstream"
	checkForkInvocations(r, p, p.Desc)
	checkForkInvocationsAt(r, p, p.Desc, true)
}

// forkInvocations: per-fork _invocation files of real runs.
func forkInvocations(r *ev.Run) {
	core.VerifQuiet()
	progs := []progen.DataflowParams{
		{Kind: "arr", Src: "gen", Size: 2, Cons: "id", Extra: "chain"},
		{Kind: "sarr", Src: "gen", Size: 2, Cons: "id", Map: "top"},
		{Kind: "smap", Src: "gen", Size: 2, Cons: "id", Map: "top", Proj: "x"},
		{Kind: "cstruct", Src: "input", Size: 2, Cons: "id", Wrap: 1},
		{Kind: "arr", Src: "gen", Size: 3, Cons: "sums", Wrap: 2},
		{Kind: "struct", Src: "gen", Size: 2, Cons: "id", Narrow: true},
		{Kind: "tmap", Src: "lit", Size: 2, Cons: "id", Map: "top"},
		{Kind: "aa", Src: "gen", Size: 2, Cons: "id", Map: "top"},
		{Kind: "int", Src: "gen", Size: 2, Cons: "add", Dis: "gen-false", DisAt: "cons"},
	}
	// ... and every program of the dataflow family within two steps of the
	// base (sizes 0-3, projections through arrays and typed maps of structs,
	// literal / input / run-time sources, mapped and wrapped consumers)
	seen := map[string]bool{}
	for _, d := range progs {
		seen[d.String()] = true
	}
	for _, d := range progen.DataflowFamily(2) {
		if !seen[d.String()] {
			seen[d.String()] = true
			progs = append(progs, d)
		}
	}
	// ... and, one step further out, the programs over empty collections
	for _, d := range progen.DataflowFamily(3) {
		if d.Size == 0 && !seen[d.String()] {
			seen[d.String()] = true
			progs = append(progs, d)
		}
	}
	// a struct literal whose members (a struct, an array of structs, a typed
	// map of structs, an untyped map) are bound to upstream outputs
	structLiteralInvocation(r)
	for _, d := range progs {
		if r.Expired("fork invocations") {
			break
		}
		p := progen.Dataflow(d)
		if p == nil {
			continue
		}
		checkForkInvocations(r, p, d.String())
		if d.Map != "" || d.Kind == "struct" {
			// mapped calls and struct arguments once more with the
			// declarations below a sibling MROPATH entry
			checkForkInvocationsAt(r, p, d.String(), true)
		}
	}
}

func checkForkInvocations(r *ev.Run, p *progen.Program, name string) {
	checkForkInvocationsAt(r, p, name, false)
}

// checkForkInvocationsAt: sibling = the declarations are included from a
// second MROPATH entry whose name extends the first one's.
func checkForkInvocationsAt(r *ev.Run, p *progen.Program, name string, sibling bool) {
	{
		d := nameStringer(name)
		if sibling {
			d = nameStringer(name + " [MROPATH mro:mro_stages]")
		}
		res := psx.Run(p, psx.Schedule{}, psx.Options{SiblingPaths: sibling, Inspect: func(res *psx.Result) {
			if res.State != "complete" {
				return
			}
			mro := filepath.Join(res.Dir, "mro")
			for _, j := range res.Jobs {
				if j.Phase == "join" || (j.Phase == "main" && j.Chunk >= 0) {
					continue // the fork-level record is checked through split/main of the fork
				}
				forkDir := filepath.Dir(j.MdPath)
				// chunk dirs are <fork>/chnkN-u..; split dirs <fork>/split-u..
				b, err := os.ReadFile(filepath.Join(forkDir, "_invocation"))
				r.Eval("fork-invocation|" + d.String() + "|" + j.Key)
				if err != nil {
					r.Report(ev.Finding{Sig: "C16:fork-invocation-missing", What: d.String() + ": no _invocation recorded for " + j.Key, Case: Case{Types: []string{d.String()}}})
					continue
				}
				if _, _, _, err := syntax.ParseSourceBytes(b, filepath.Join(mro, "x.mro"), res.MroPaths, false); err != nil {
					r.Report(ev.Finding{Sig: "C16:fork-invocation-does-not-compile", What: d.String() + " " + j.Key + ": " + firstLine(err.Error()) + "\n" + ev.Short(string(b), 600), Case: Case{Types: []string{d.String()}}})
					continue
				}
				inv, err := core.InvocationDataFromSource(b, res.MroPaths)
				if err != nil {
					r.Report(ev.Finding{Sig: "C16:fork-invocation-unreadable", What: d.String() + " " + j.Key + ": " + err.Error(), Case: Case{Types: []string{d.String()}}})
					continue
				}
				// arguments equal what the fork's job received
				if j.Args == nil {
					continue
				}
				for k, raw := range inv.Args {
					want, ok := j.Args.O[k]
					if !ok {
						continue
					}
					a, _ := decode([]byte(want.JSON()))
					bb, _ := decode(raw)
					if dd := jsonEqExact(a, bb); dd != "" {
						r.Report(ev.Finding{Sig: "C16:fork-invocation-args-differ", What: fmt.Sprintf("%s %s: recorded invocation argument %s differs from what the fork received: %s", d.String(), j.Key, k, dd), Case: Case{Types: []string{d.String()}}})
					}
				}
				r.Outcome("fork-invocation-ok")
			}
		}})
		_ = res
	}
}

type nameStringer string

func (n nameStringer) String() string { return string(n) }

func main() {
	r := ev.New("C16", "exploration")
	r.SetBudget(90*time.Second, 15*time.Minute)
	var err error
	// the real mrg, built by bin/build-tierb from the working tree
	if os.Getenv("VERIF_NO_TIERB") == "" {
		if root, terr := psx.TierBRoot(); terr == nil {
			if _, serr := os.Stat(filepath.Join(root, "plain", "bin", "mrg")); serr == nil {
				mrgBin = filepath.Join(root, "plain", "bin", "mrg")
			}
		} else {
			fmt.Println(terr)
			os.Exit(2)
		}
	}
	scratch, err = os.MkdirTemp("/dev/shm", "verif-c16-")
	ev.AtExit(func() { os.RemoveAll(scratch) })
	if err != nil {
		panic(err)
	}
	defer os.RemoveAll(scratch)
	if r.ReplayPath != "" {
		var c Case
		if err := ev.LoadReplay(r.ReplayPath, &c); err != nil {
			fmt.Println(err)
			os.Exit(2)
		}
		r.Eval("replay")
		r.Sample(c)
		if len(c.Values) == 0 {
			r.Set("mrg_binary_round_trips", atomic.LoadInt64(&mrgRuns))
			forkInvocations(r)
		} else {
			for _, f := range check(c) {
				r.Report(f)
			}
		}
		os.RemoveAll(scratch)
		r.Finish()
	}
	basesT := []string{"int", "float", "string", "bool", "map", "txt", "B", "A", "C"}
	var types []string
	for _, b := range basesT {
		for a := 0; a <= 2; a++ {
			for m := 0; m <= 2; m++ {
				if b == "map" && m > 0 {
					continue
				}
				t := syntax.TypeId{Tname: b, ArrayDim: int16(a), MapDim: int16(m)}
				types = append(types, t.String())
			}
		}
	}
	var cases []Case
	// one parameter: every type x every value; split: collections of each value
	for _, t := range types {
		tid := parseTid(t)
		vals := values(tid)
		for _, v := range vals {
			cases = append(cases, Case{Types: []string{t}, Values: []string{v}})
		}
		// split over an array and over a map of the parameter's values
		if len(vals) > 1 {
			cases = append(cases, Case{Types: []string{t}, Values: []string{`{"split":[` + vals[0] + "," + vals[1] + "]}"}, Split: []int{0}})
			cases = append(cases, Case{Types: []string{t}, Values: []string{`{"split":{"k1":` + vals[0] + `,"k2":` + vals[1] + `}}`}, Split: []int{0}})
			cases = append(cases, Case{Types: []string{t}, Values: []string{`{"split":[]}`}, Split: []int{0}})
		}
	}
	// two and three parameters: typical values, every subset split
	sel := types
	if !r.Thorough() {
		// quick: two-parameter signatures over the depth<=1 types
		sel = nil
		for _, t := range types {
			tid := parseTid(t)
			if tid.ArrayDim+tid.MapDim <= 1 {
				sel = append(sel, t)
			}
		}
	}
	for _, t1 := range sel {
		for _, t2 := range sel {
			v1, v2 := values(parseTid(t1)), values(parseTid(t2))
			for mask := 0; mask < 4; mask++ {
				c := Case{Types: []string{t1, t2}, Values: []string{v1[0], v2[min(1, len(v2)-1)]}}
				if mask&1 != 0 {
					c.Values[0] = `{"split":[` + v1[0] + "," + v1[min(1, len(v1)-1)] + "]}"
					c.Split = append(c.Split, 0)
				}
				if mask&2 != 0 {
					c.Values[1] = `{"split":[` + v2[0] + "," + v2[min(1, len(v2)-1)] + "]}"
					c.Split = append(c.Split, 1)
				}
				cases = append(cases, c)
				if mask == 3 {
					// the split arguments named in the other order
					c2 := c
					c2.Values = append([]string{}, c.Values...)
					c2.Split = []int{1, 0}
					cases = append(cases, c2)
				}
			}
		}
	}
	// three split arguments, every order in which the invocation data may name them
	{
		t := "int"
		v := `{"split":[1,2]}`
		for _, ord := range [][]int{{0, 1, 2}, {0, 2, 1}, {1, 0, 2}, {1, 2, 0}, {2, 0, 1}, {2, 1, 0}} {
			cases = append(cases, Case{Types: []string{t, t, t}, Values: []string{v, v, v}, Split: ord})
		}
	}
	// every spelling of a character that JSON text may use inside a string:
	// \u00XX for each of the 256 low code units, boundary code units, a
	// surrogate pair and the named escapes - as a value and as a typed-map key
	{
		var esc []string
		for u := 0; u < 256; u++ {
			esc = append(esc, fmt.Sprintf(`\u%04x`, u))
		}
		for _, u := range []int{0x100, 0x17f, 0x7ff, 0x800, 0x2028, 0x2029, 0xd7ff, 0xe000, 0xfeff, 0xfffd, 0xffff} {
			esc = append(esc, fmt.Sprintf(`\u%04X`, u))
		}
		esc = append(esc, `\ud83d\ude00`, `\b`, `\f`, `\n`, `\r`, `\t`, `\/`, `\\`, `\"`)
		for _, e := range esc {
			cases = append(cases, Case{Types: []string{"string"}, Values: []string{`"a` + e + `b"`}})
			cases = append(cases, Case{Types: []string{"map<int>"}, Values: []string{`{"k` + e + `":1}`}})
		}
	}
	r.Rule = "every JSON escape spelling (\\u0000-\\u00ff, boundary code units, a surrogate pair, named escapes) as a string value and as a typed-map key; stage signatures with 1 parameter over 75 types (9 base types x array depth 0-2 x typed-map nesting 0-2) x every value of a per-type list (nested structs, typed maps, nulls, +-2^53+-1, max/min int64, 1e21, 5e-324, -0.0, strings with escapes/NUL/non-ASCII, empty collections) and split over an array, a typed map and an empty array of the values; " +
		"signatures with 2 parameters (all ordered type pairs, depth<=1 in quick) x all 4 split subsets (both orders of naming two split arguments, all 6 orders of three); each through BuildCallSource -> compile -> InvocationDataFromSource -> BuildCallSource (one-parameter cases also through the real mrg binary in both directions, whose output must equal the library's): call name, include, split set, argument values (numbers as exact decimals) and text stability; " +
		"plus the _invocation file of every stage fork of real pipestance runs of 9 chosen programs and of every dataflow-family program within two steps of the base, three for empty collections (compiles, arguments equal the job's). distinct = distinct (signature, values, split set); non-trivial = some argument is not null"
	r.Set("cases", len(cases))
	order := r.Rotate(len(cases))
	ev.ParallelFor(len(cases), func(i int) bool {
		c := cases[order[i]]
		key := ""
		for _, v := range c.Values {
			if v != "null" {
				key = strings.Join(c.Types, ",") + "|" + strings.Join(c.Values, "|") + fmt.Sprint(c.Split)
			}
		}
		r.Eval(key)
		fs := check(c)
		if len(fs) == 0 {
			r.Outcome("ok")
		}
		for _, f := range fs {
			r.Outcome(strings.Split(f.Sig, ":")[1])
			r.Report(f)
		}
		if i%499 == 0 {
			r.Sample(c)
		}
		return !r.Expired("signature enumeration")
	})
	forkInvocations(r)
	r.Finish()
}
