//go:build verif

// C10: compilation, formatting and call-graph resolution are deterministic.
// The iteration order of every Go map in packages syntax, refactoring and
// core is owned by the explorer (mechanically rewritten range statements):
// for each program the run is repeated with a non-identity permutation at
// every single dynamic map-iteration occurrence and every output must be
// byte-identical to the default run.
package main

import (
	"bytes"
	"encoding/json"
	"fmt"
	"os"
	"path/filepath"
	"regexp"
	"sort"
	"strings"
	"time"

	"github.com/martian-lang/martian/martian/core"
	"github.com/martian-lang/martian/martian/syntax"
	"github.com/martian-lang/martian/martian/vshim"

	"verif/lib/ev"
	"verif/lib/progen"
	"verif/lib/psx"
)

type Case struct {
	Name    string `json:"name"`
	Src     string `json:"src,omitempty"`
	Runtime bool   `json:"runtime,omitempty"`
	Occ     int    `json:"occurrence"`
	Perm    string `json:"perm"` // rev | rot
	Site    string `json:"site,omitempty"`
}

type point struct {
	site string
	n    int
}

// outputs of the language-level pipeline for one source text
func langOutputs(src string) string {
	var b strings.Builder
	expanded, _, ast, err := syntax.ParseSourceBytes([]byte(src), "t.mro", nil, false)
	if err != nil {
		b.WriteString("COMPILE-ERROR:\n" + err.Error() + "\n")
	} else {
		// the include-expanded rendering of the compiled program (what mrp
		// records as _mrosource): it shows what compilation rewrote
		b.WriteString("COMPILED-SOURCE:\n" + expanded + "\n")
	}
	// the same at the strictest enforcement level (mrp --strict=error),
	// where more rules produce errors
	syntax.SetEnforcementLevel(syntax.EnforceError)
	if _, _, _, serr := syntax.ParseSourceBytes([]byte(src), "t.mro", nil, false); serr != nil {
		b.WriteString("COMPILE-ERROR (strict):\n" + serr.Error() + "\n")
	}
	syntax.SetEnforcementLevel(syntax.EnforceDisable)
	if f, ferr := syntax.FormatSrcBytes([]byte(src), "t.mro", false, nil); ferr != nil {
		b.WriteString("FORMAT-ERROR:\n" + ferr.Error() + "\n")
	} else {
		b.WriteString("FORMAT:\n" + f + "\n")
	}
	if err == nil && ast != nil && ast.Call != nil {
		g, gerr := ast.MakeCallGraph("ID.x.", ast.Call)
		if gerr != nil {
			b.WriteString("CALLGRAPH-ERROR:\n" + gerr.Error() + "\n")
		} else {
			var dest bytes.Buffer
			enc := json.NewEncoder(&dest)
			enc.SetEscapeHTML(false)
			enc.SetIndent("", " ")
			if e := enc.Encode(g); e != nil {
				b.WriteString("CALLGRAPH-JSON-ERROR: " + e.Error() + "\n")
			}
			b.WriteString("CALLGRAPH:\n" + dest.String())
		}
	}
	return b.String()
}

func runLang(src string, occ int, perm string) (out string, points []point) {
	i := 0
	vshim.KeysHook = func(site string, n int) []int {
		if n < 2 {
			return nil
		}
		cur := i
		i++
		points = append(points, point{site, n})
		if cur == occ {
			return mkPerm(n, perm)
		}
		return nil
	}
	defer func() {
		vshim.KeysHook = nil
		if r := recover(); r != nil {
			out = fmt.Sprintf("PANIC: %v", r)
		}
	}()
	return langOutputs(src), points
}

func mkPerm(n int, kind string) []int {
	p := make([]int, n)
	for x := 0; x < n; x++ {
		if kind == "rev" {
			p[x] = n - 1 - x
		} else {
			p[x] = (x + 1) % n
		}
	}
	return p
}

// runtime outputs: fork ids (job keys), per-fork _invocation, top outs
func runRuntime(p *progen.Program, occ int, perm string) (out string, points []point) {
	var b strings.Builder
	sched := psx.Schedule{}
	if occ >= 0 {
		sched.Perm = map[int][]int{}
	}
	// psx.Run owns the hook; give it a permutation for the occurrence once
	// its arity is known: first call records the points.
	res := psx.Run(p, psx.Schedule{}, psx.Options{PermSite: func(string) bool { return true }})
	for _, pp := range res.PermPoints {
		points = append(points, point{pp.Site, pp.N})
	}
	if occ >= 0 && occ < len(points) {
		sched.Perm[occ] = mkPerm(points[occ].n, perm)
	} else if occ >= 0 {
		return "", points
	}
	var inv []string
	var forkOrder []string
	res = psx.Run(p, sched, psx.Options{PermSite: func(string) bool { return true }, Inspect: func(r *psx.Result) {
		if r.H != nil && r.H.Ps != nil {
			// the fork identifiers of every call, in the order the runtime holds them
			for call, ids := range r.H.VerifForkDirs() {
				forkOrder = append(forkOrder, call+": "+strings.Join(ids, " "))
			}
			sort.Strings(forkOrder)
		}
		filepath.Walk(r.PsPath, func(pth string, info os.FileInfo, err error) error {
			if err == nil && info.Name() == "_invocation" {
				if data, e := os.ReadFile(pth); e == nil {
					inv = append(inv, strings.TrimPrefix(pth, r.PsPath)+":\n"+string(data))
				}
			}
			return nil
		})
	}})
	b.WriteString("STATE: " + res.State + " " + res.Err + "\n")
	var keys []string
	for _, j := range res.Jobs {
		keys = append(keys, j.Key+" "+j.ArgsText)
	}
	sort.Strings(keys)
	b.WriteString("JOBS:\n" + strings.Join(keys, "\n") + "\n")
	sort.Strings(inv)
	// uniquified chunk directory names carry the pid/time; fork level files only
	b.WriteString("INVOCATIONS:\n" + strings.Join(inv, "\n") + "\n")
	b.WriteString("FORKS:\n" + strings.Join(forkOrder, "\n") + "\n")
	b.WriteString("OUTS:\n" + res.TopOutsText + "\n")
	norm := strings.ReplaceAll(b.String(), res.Dir, "<scratch>")
	norm = uniqRe.ReplaceAllString(norm, "-uX")
	return norm, points
}

var uniqRe = regexp.MustCompile(`-u[0-9a-f]{10}`)

func firstDiff(a, b string) string {
	al, bl := strings.Split(a, "\n"), strings.Split(b, "\n")
	for i := 0; i < len(al) && i < len(bl); i++ {
		if al[i] != bl[i] {
			lo := max(0, i-2)
			return fmt.Sprintf("line %d:\n  default : %s\n  permuted: %s\n  context : %s", i+1, ev.Short(al[i], 200), ev.Short(bl[i], 200), ev.Short(strings.Join(al[lo:i], " / "), 200))
		}
	}
	return fmt.Sprintf("lengths differ: %d vs %d lines", len(al), len(bl))
}

func section(out string, line int) string {
	sec := "?"
	for i, l := range strings.Split(out, "\n") {
		if i > line {
			break
		}
		if strings.HasSuffix(l, ":") && strings.ToUpper(l) == l && len(l) < 24 {
			sec = strings.TrimSuffix(l, ":")
		}
	}
	return sec
}

func siteSig(site string) string {
	// file:line:func -> file:func
	parts := strings.Split(site, ":")
	if len(parts) == 3 {
		return parts[0] + ":" + parts[2]
	}
	return site
}

// ---------------------------------------------------------------------------
// programs

func errPrograms() map[string]string {
	const stages = `filetype txt;
struct ST(int a, int b, int c, int d,)
stage S(in int a, in int b, in int c, in int d, in map<int> m, in ST st, in int[] xs, out int o, out int p, src py "s",)
`
	mk := func(body string) string {
		return stages + "pipeline P(in int q, out int r,)\n{\n" + body + "\n    return (r = S.o,)\n}\ncall P(q = 1,)\n"
	}
	good := "a = 1, b = 2, c = 3, d = 4, m = {\"k1\": 1, \"k2\": 2, \"k3\": 3, \"k4\": 4}, st = {a: 1, b: 2, c: 3, d: 4}, xs = [self.q],"
	return map[string]string{
		"ok-wide":             mk("    call S(" + good + ")"),
		"illtyped-map-values": mk("    call S(a = 1, b = 2, c = 3, d = 4, m = {\"k1\": \"x\", \"k2\": \"y\", \"k3\": \"z\", \"k4\": \"w\"}, st = {a: 1, b: 2, c: 3, d: 4}, xs = [self.q],)"),
		"illtyped-struct":     mk("    call S(a = 1, b = 2, c = 3, d = 4, m = {}, st = {a: \"x\", b: \"y\", c: \"z\", d: \"w\"}, xs = [self.q],)"),
		"missing-struct-flds": mk("    call S(a = 1, b = 2, c = 3, d = 4, m = {}, st = {a: 1}, xs = [self.q],)"),
		"extra-struct-flds":   mk("    call S(a = 1, b = 2, c = 3, d = 4, m = {}, st = {a: 1, b: 2, c: 3, d: 4, e: 5, f: 6, g: 7}, xs = [self.q],)"),
		"missing-params":      mk("    call S(m = {}, xs = [self.q],)"),
		"unknown-params":      mk("    call S(" + good + " z1 = 1, z2 = 2, z3 = 3,)"),
		"illtyped-params":     mk("    call S(a = \"x\", b = \"y\", c = \"z\", d = \"w\", m = {}, st = null, xs = [self.q],)"),
		"bad-refs":            mk("    call S(a = self.n1, b = self.n2, c = self.n3, d = NOPE.x, m = {}, st = null, xs = [self.q],)"),
		"dup-params": `stage S(in int a, in int a, in int b, in int b, out int o, out int o, src py "s",)
`,
		"split-mismatch": stages + `pipeline P(in int q, out int[] r,)
{
    map call S(a = split [1, 2], b = split [1, 2, 3], c = split [1], d = self.q, m = {}, st = null, xs = [],)
    return (r = S.o,)
}
call P(q = 1,)
`,
		"split-map-keys": stages + `pipeline P(in int q, out map<int> r,)
{
    map call S(a = split {"x": 1, "y": 2}, b = split {"x": 1, "z": 2}, c = split {"w": 1, "y": 2}, d = self.q, m = {}, st = null, xs = [],)
    return (r = S.o,)
}
call P(q = 1,)
`,
		"split-map-keys-disjoint": stages + `pipeline P(in int q, out map<int> r,)
{
    map call S(a = split {"x": 1, "y": 2, "z": 3}, b = split {"p": 1, "q": 2, "r": 3}, c = split {"x": 1, "p": 2, "m": 3}, d = self.q, m = {}, st = null, xs = [],)
    return (r = S.o,)
}
call P(q = 1,)
`,
		"cyclic-calls": `stage S1(in int x, out int y, src py "s",)
pipeline P(in int q, out int r,)
{
    call S1 as A(x = C.y,)
    call S1 as B(x = A.y,)
    call S1 as C(x = B.y,)
    call S1 as D(x = E.y,)
    call S1 as E(x = D.y,)
    return (r = A.y,)
}
call P(q = 1,)
`,
		"split-repeats-ins": `stage SP(in int a, in int b, in int c, in int d, out int o, src py "s",) split (in int d, in int b, in int a, in int c, out int o,)
pipeline P(in int q, out int r,)
{
    call SP(a = 1, b = 2, c = 3, d = self.q,)
    return (r = SP.o,)
}
call P(q = 1,)
`,
		"typed-map-forks": stages + `pipeline P(in int q, out map<int> r, out map<int> s,)
{
    map call S(a = split {"k3": 1, "k1": 2, "k2": 3, "k0": 4}, b = split {"k0": 1, "k1": 2, "k2": 3, "k3": 4}, c = 1, d = self.q, m = {}, st = null, xs = [],)
    map call S as T(a = split S.o, b = split S.p, c = 1, d = self.q, m = {"z": 1, "a": 2}, st = {d: 4, a: 1, c: 3, b: 2}, xs = [],)
    return (r = T.o, s = S.p,)
}
call P(q = 1,)
`,
		"merge-fork-node": `stage GEN(in int n, out int[] arr, out map<int> m, src py "g",)
stage S1(in int x, out int y, src py "s",)
stage S2(in int x, out int y, src py "s",)
stage S3(in int x, out int y, src py "s",)
stage S4(in int x, out int y, src py "s",)
pipeline W(in int p, out int a, out int b, out int c, out int d,)
{
    call S1(x = self.p,)
    call S2(x = self.p,)
    call S3(x = self.p,)
    call S4(x = self.p,)
    return (a = S1.y, b = S2.y, c = S3.y, d = S4.y,)
}
pipeline P(in int n, out W[] all, out map<W> allm, out int[] bs,)
{
    call GEN(n = self.n,)
    map call W(p = split GEN.arr,)
    map call W as WM(p = split GEN.m,)
    return (all = W, allm = WM, bs = W.b,)
}
call P(n = 2,)
`,
		"retain-nonfile": stages + `pipeline P(in int q, out int r,)
{
    call S(` + good + `)
    return (r = S.o,)
    retain (S.o, S.p,)
}
call P(q = 1,)
`,
		// stage retain lists that repeat a name (the list is de-duplicated
		// and sorted), and a pipeline retain list in unsorted order
		"retain-repeats": `filetype txt;
stage R(
    in  int q,
    out txt a,
    out txt b,
    out txt c,
    out txt d,
    src comp "r",
) retain (
    c,
    a,
    c,
    d,
    b,
    a,
)
pipeline P(in int q, out txt r,)
{
    call R(q = self.q,)
    return (r = R.a,)
    retain (R.d, R.b, R.c, R.d,)
}
call P(q = 1,)
`,
		"unused-inputs": stages + `pipeline P(in int q, in int u1, in int u2, in int u3, out int r,)
{
    call S(` + good + `)
    return (r = S.o,)
}
call P(q = 1, u1 = 1, u2 = 2, u3 = 3,)
`,
		"return-errors": stages + `pipeline P(in int q, out int r, out int s, out int t,)
{
    call S(` + good + `)
    return (r = "x", s = "y", t = "z",)
}
call P(q = 1,)
`,
	}
}

func main() {
	r := ev.New("C10", "exploration")
	r.SetBudget(100*time.Second, 25*time.Minute)
	core.VerifQuiet()
	type prog struct {
		name string
		src  string
		p    *progen.Program
	}
	var progs []prog
	eps := errPrograms()
	var names []string
	for n := range eps {
		names = append(names, n)
	}
	sort.Strings(names)
	for _, n := range names {
		progs = append(progs, prog{name: "hand:" + n, src: eps[n]})
	}
	// programs of the runtime families (wide literals, nested disables, files)
	addP := func(name string, p *progen.Program) {
		if p != nil {
			progs = append(progs, prog{name: name, src: p.MRO(), p: p})
		}
	}
	for _, d := range []progen.DataflowParams{
		{Kind: "smap", Src: "lit", Size: 3, Cons: "id", Map: "top"},
		{Kind: "cstruct", Src: "input", Size: 2, Cons: "id", Proj: "ma.x", Wrap: 1},
		{Kind: "tmap", Src: "gen", Size: 3, Cons: "id", Map: "top", Extra: "chain"},
		{Kind: "sarr", Src: "gen", Size: 2, Cons: "id", Map: "inner", Wrap: 2, Dis: "gen-false", DisAt: "wrap"},
		{Kind: "arr", Src: "gen", Size: 3, Cons: "sums", Pre: true},
		{Kind: "smap", Src: "gen", Size: 3, Cons: "id", Narrow: true, Map: "top", Alias: true},
	} {
		addP("df:"+d.String(), progen.Dataflow(d))
	}
	// nests of mapped calls: typed maps with several keys at both levels,
	// literal (static fork expansion) and produced at run time
	for _, d := range []progen.KeyParams{
		{Outer: "map", OuterSel: 0, Inner: "map", InnerSel: 3},
		{Ragged: "map", OuterSel: 6},
		{Ragged: "map", OuterSel: 6, OuterDyn: true},
	} {
		addP("nest:"+d.String(), progen.KeyFlow(d))
	}
	addP("disnest", progen.DisNest(progen.DisNestParams{Levels: []string{"p", "q", "c"}, Sib: [2]string{"r", "s"}, Vals: 0b010000}))
	addP("files", progen.FileFlow(progen.FileParams{Out: "ms", Proj: "f", Prod: "filew", ConsMap: true, Late: true, Retain: "pipe", TopOut: true, Mode: "rolling", Size: 2}))
	// pipelines whose calls are written out of dependency order: a chain of
	// four calls plus a call that depends on its first two links, in every
	// one of the 120 orders (the compiler sorts the calls before checking and
	// formatting them)
	for _, pm := range permutations(5) {
		progs = append(progs, prog{name: fmt.Sprintf("order:%v", pm), src: orderProgram(pm)})
	}
	// fixtures of the repository
	repo := os.Getenv("REPO")
	if repo == "" {
		repo = "/repo"
	}
	for _, g := range []string{"martian/syntax/testdata/*.mro", "test/*/pipeline.mro"} {
		m, _ := filepath.Glob(filepath.Join(repo, g))
		sort.Strings(m)
		for _, f := range m {
			if b, err := os.ReadFile(f); err == nil && len(b) < 20000 {
				rel, _ := filepath.Rel(repo, f)
				progs = append(progs, prog{name: "fixture:" + rel, src: string(b)})
			}
		}
	}

	evalOne := func(c Case, pg prog) []ev.Finding {
		var base, out string
		var pts []point
		if c.Runtime {
			base, pts = runRuntime(pg.p, -1, "")
			out, _ = runRuntime(pg.p, c.Occ, c.Perm)
		} else {
			base, pts = runLang(pg.src, -1, "")
			out, _ = runLang(pg.src, c.Occ, c.Perm)
		}
		if out == "" || out == base {
			return nil
		}
		site := "?"
		if c.Occ < len(pts) {
			site = pts[c.Occ].site
		}
		// confirm: same permutation again gives the same difference
		var again string
		if c.Runtime {
			again, _ = runRuntime(pg.p, c.Occ, c.Perm)
		} else {
			again, _ = runLang(pg.src, c.Occ, c.Perm)
		}
		if again != out {
			return []ev.Finding{{Sig: "NONREPRO", What: "non-reproducible difference"}}
		}
		line := 0
		al, bl := strings.Split(base, "\n"), strings.Split(out, "\n")
		for line < len(al) && line < len(bl) && al[line] == bl[line] {
			line++
		}
		c.Site = site
		c.Src = pg.src
		return []ev.Finding{{Sig: "C10:" + strings.ToLower(section(base, line)) + "@" + siteSig(site),
			What: fmt.Sprintf("%s: iterating the map at %s (occurrence %d, %d keys) in a different order changes the %s output: %s",
				pg.name, site, c.Occ, pts[min(c.Occ, len(pts)-1)].n, section(base, line), firstDiff(base, out)), Case: c}}
	}

	if r.ReplayPath != "" {
		var c Case
		if err := ev.LoadReplay(r.ReplayPath, &c); err != nil {
			fmt.Println(err)
			os.Exit(2)
		}
		r.Eval("replay")
		r.Sample(map[string]interface{}{"name": c.Name, "occurrence": c.Occ, "perm": c.Perm, "site": c.Site})
		for _, pg := range progs {
			if pg.name == c.Name {
				for _, f := range evalOne(c, pg) {
					r.Report(f)
				}
			}
		}
		r.Finish()
	}
	if !ev.IsWorker() {
		r.Rule = fmt.Sprintf("%d programs (a pipeline of five calls - a chain of four and a side branch - written in each of the 120 possible orders; 16 hand-written programs with wide map/struct literals, several split arguments, typed-map forks and 2-4 simultaneous errors of each error family; 8 programs of the runtime families; the repository's fixtures): for each, the language outputs (compile error text, formatted text, serialized call graph) are recomputed with EVERY single dynamic map-iteration occurrence (>=2 keys) in packages syntax/refactoring/core reversed and rotated; "+
			"for the runtime-family programs the whole pipestance is re-run likewise and fork ids (job names), recorded per-fork invocations, job arguments and final outputs compared; every output must be byte-identical to the default-order run; plus the default run in two separate processes. "+
			"distinct = distinct (program, occurrence, permutation); non-trivial = the occurrence has at least 2 keys", len(progs))
		r.Set("programs", len(progs))
		// cross-process: each worker reports the hash of its default outputs
		r.RunWorkers(0)
		r.CheckDigests("C10:cross-process-difference", "the default-order outputs of program %s differ between two processes")
		r.Assume("map iteration is modelled as a permutation of a key snapshot (deletes/inserts during iteration follow snapshot semantics)")
		r.Finish()
	}
	k, nw, _ := ev.WorkerIndex()
	idx := 0
	for pi, pg := range progs {
		if r.Expired("program enumeration") {
			break
		}
		base, pts := runLang(pg.src, -1, "")
		// two-process agreement of the default run: every worker computes the
		// default outputs of every program and reports a digest
		r.Set(fmt.Sprintf("digest_%03d", pi), fmt.Sprintf("%x", hash(base)))
		for occ := range pts {
			for _, perm := range []string{"rev", "rot"} {
				if perm == "rot" && pts[occ].n == 2 {
					continue
				}
				idx++
				if idx%nw != k {
					continue
				}
				c := Case{Name: pg.name, Occ: occ, Perm: perm}
				fs := evalOne(c, pg)
				r.Eval(fmt.Sprintf("%s|%d|%s", pg.name, occ, perm))
				if len(fs) == 0 {
					r.Outcome("identical")
				}
				for _, f := range fs {
					if f.Sig == "NONREPRO" {
						r.Inconclusive(pg.name + ": " + f.What)
						continue
					}
					r.Outcome("differs")
					r.Report(f)
				}
			}
		}
		if k == 0 {
			r.Add("map_iteration_occurrences_language", int64(len(pts)))
			if pi%9 == 0 {
				r.Sample(map[string]interface{}{"program": pg.name, "map_iteration_occurrences": len(pts)})
			}
		}
	}
	// runtime level
	for _, pg := range progs {
		if pg.p == nil || r.Expired("runtime enumeration") {
			continue
		}
		_, pts := runRuntime(pg.p, -1, "")
		if k == 0 {
			r.Add("map_iteration_occurrences_runtime", int64(len(pts)))
		}
		step := 1
		if !r.Thorough() && len(pts) > 1300 {
			step = len(pts)/1300 + 1
			r.Cap(fmt.Sprintf("runtime runs: every %d-th map-iteration occurrence in quick", step))
		}
		for occ := 0; occ < len(pts); occ += step {
			idx++
			if idx%nw != k {
				continue
			}
			if r.Expired("runtime enumeration") {
				break
			}
			c := Case{Name: pg.name, Occ: occ, Perm: "rev", Runtime: true}
			fs := evalOne(c, pg)
			r.Eval(fmt.Sprintf("rt|%s|%d", pg.name, occ))
			if len(fs) == 0 {
				r.Outcome("identical-runtime")
			}
			for _, f := range fs {
				if f.Sig == "NONREPRO" {
					r.Inconclusive(pg.name + ": runtime: " + f.What)
					continue
				}
				r.Outcome("differs-runtime")
				r.Report(f)
			}
		}
	}
	r.Done()
}

func permutations(n int) [][]int {
	var out [][]int
	var rec func(cur []int, used int)
	rec = func(cur []int, used int) {
		if len(cur) == n {
			out = append(out, append([]int{}, cur...))
			return
		}
		for i := 0; i < n; i++ {
			if used&(1<<i) == 0 {
				rec(append(cur, i), used|1<<i)
			}
		}
	}
	rec(nil, 0)
	return out
}

func orderProgram(pm []int) string {
	calls := []string{
		"    call ONE as STEP0(\n        x = self.v,\n    )\n",
		"    call ONE as STEP1(\n        x = STEP0.y,\n    )\n",
		"    call ONE as STEP2(\n        x = STEP1.y,\n    )\n",
		"    call ONE as STEP3(\n        x = STEP2.y,\n    )\n",
		"    call TWO as SIDE(\n        x = STEP0.y,\n        z = STEP1.y,\n    )\n",
	}
	var b strings.Builder
	b.WriteString("stage ONE(\n    in  int x,\n    out int y,\n    src comp \"one\",\n)\n\nstage TWO(\n    in  int x,\n    in  int z,\n    out int y,\n    src comp \"two\",\n)\n\npipeline TOP(\n    in  int v,\n    out int r,\n    out int s,\n)\n{\n")
	for _, j := range pm {
		b.WriteString(calls[j])
		b.WriteString("\n")
	}
	b.WriteString("    return (\n        r = STEP3.y,\n        s = SIDE.y,\n    )\n}\n\ncall TOP(\n    v = 1,\n)\n")
	return b.String()
}

func hash(s string) uint64 {
	var h uint64 = 1469598103934665603
	for i := 0; i < len(s); i++ {
		h ^= uint64(s[i])
		h *= 1099511628211
	}
	return h
}
