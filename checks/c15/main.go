//go:build verif

// C15: re-attach is refused iff the invocation's meaning changed.
// Every applicable site x edit catalogue over a set of base programs,
// checked on EquivalentCall (both directions) and through the runtime's
// ReattachToPipestance; plus the lock histories.
package main

import (
	"fmt"
	"os"
	"path/filepath"
	"strings"
	"time"

	"github.com/martian-lang/martian/martian/core"
	"github.com/martian-lang/martian/martian/syntax"

	"verif/lib/ev"
	"verif/lib/progen"
	"verif/lib/psx"
)

type Case struct {
	Base    int    `json:"base"`
	Kind    string `json:"edit"`
	Site    int    `json:"site"`
	Runtime bool   `json:"runtime"`
}

func bases() []func() *progen.Program {
	df := func(d progen.DataflowParams) func() *progen.Program {
		return func() *progen.Program { return progen.Dataflow(d) }
	}
	dn := func(d progen.DisNestParams) func() *progen.Program {
		return func() *progen.Program { return progen.DisNest(d) }
	}
	ff := func(d progen.FileParams) func() *progen.Program {
		return func() *progen.Program { return progen.FileFlow(d) }
	}
	return []func() *progen.Program{
		df(progen.DataflowParams{Kind: "arr", Src: "gen", Size: 2, Cons: "id", Wrap: 2, Map: "inner", Dis: "gen-false", DisAt: "wrap", Extra: "chain"}),
		df(progen.DataflowParams{Kind: "arr", Src: "gen", Size: 2, Cons: "sums", Dis: "in-false", DisAt: "cons"}),
		df(progen.DataflowParams{Kind: "sarr", Src: "input", Size: 2, Cons: "id", Narrow: true, Map: "top", Alias: true}),
		df(progen.DataflowParams{Kind: "cstruct", Src: "gen", Size: 1, Cons: "id", Proj: "sa.x", Wrap: 1, Pre: true}),
		df(progen.DataflowParams{Kind: "tmap", Src: "lit", Size: 2, Cons: "id", Map: "top", Extra: "passthru"}),
		df(progen.DataflowParams{Kind: "aa", Src: "lit", Size: 2, Cons: "id"}),
		df(progen.DataflowParams{Kind: "sarr", Src: "lit", Size: 2, Cons: "id", Wrap: 1}),
		df(progen.DataflowParams{Kind: "arr", Src: "lit", Size: 3, Cons: "id", Map: "top"}),
		dn(progen.DisNestParams{Levels: []string{"p", "c"}, Sib: [2]string{"q", "r"}, Vals: 0}),
		dn(progen.DisNestParams{Levels: []string{"f"}, Sib: [2]string{"p", "-"}, Vals: 0}),
		ff(progen.FileParams{Out: "fs", Prod: "filew", ConsMap: true, Late: true, Retain: "pipe", TopOut: true, Mode: "rolling", Size: 2}),
		ff(progen.FileParams{Out: "s", Proj: "f", Prod: "filew", ProdWrap: true, Vol: "strict", Retain: "stage", Mode: "rolling", Size: 2}),
		ff(progen.FileParams{Out: "f", Prod: "splitw", ConsWrap: true, Vol: "call", Mode: "rolling", Size: 2}),
		wildcardBase,
	}
}

// wildcardBase: wildcard bindings in a call (* = MKP, next to an explicit
// binding) and in a return (* = ADD), each with a second call of the same
// stage in scope.
func wildcardBase() *progen.Program {
	p := progen.Dataflow(progen.DataflowParams{Kind: "int", Src: "gen", Size: 2, Cons: "add"})
	if p == nil {
		return nil
	}
	I := progen.IntT
	p.Stages = append(p.Stages,
		&progen.Stage{Name: "MKP", Fn: "GEN", Ins: []progen.Param{{T: I, Name: "n"}}, Outs: []progen.Param{{T: I, Name: "a"}, {T: I, Name: "b"}}},
		&progen.Stage{Name: "ADDK", Fn: "ADD", Ins: []progen.Param{{T: I, Name: "a"}, {T: I, Name: "b"}, {T: I, Name: "k"}}, Outs: []progen.Param{{T: I, Name: "sum"}}})
	sub := &progen.Pipeline{Name: "SUB", Ins: []progen.Param{{T: I, Name: "a"}, {T: I, Name: "b"}}, Outs: []progen.Param{{T: I, Name: "sum"}},
		Calls: []*progen.Call{
			{Callee: "ADD", Binds: []progen.Bind{{"*", progen.Self("")}}},
			{Callee: "ADD", Alias: "ADD_ALT", Binds: []progen.Bind{{"a", progen.Self("b")}, {"b", progen.Lit(progen.Int(7))}}},
			{Callee: "MKP", Binds: []progen.Bind{{"n", progen.Self("a")}}},
			{Callee: "MKP", Alias: "MKP_ALT", Binds: []progen.Bind{{"n", progen.Self("b")}}},
			{Callee: "ADDK", Binds: []progen.Bind{{"k", progen.Lit(progen.Int(5))}, {"*", progen.Ref("MKP")}}},
		},
		Ret: []progen.Bind{{"*", progen.Ref("ADD")}}}
	top := p.Pipeline("TOP")
	top.Calls = append(top.Calls, &progen.Call{Callee: "SUB", Binds: []progen.Bind{{"a", progen.Ref("GEN", "v")}, {"b", progen.Self("n")}}})
	top.Outs = append(top.Outs, progen.Param{T: I, Name: "wsum"})
	top.Ret = append(top.Ret, progen.Bind{"wsum", progen.Ref("SUB", "sum")})
	p.Pipelines = append([]*progen.Pipeline{sub}, p.Pipelines...)
	p.Desc = "wildcard-bindings"
	progen.FixUnused(p)
	return p
}

// split the printed program into declarations and the top-level call
func splitProgram(p *progen.Program) (defs, call string) {
	top := p.Top
	p.Top = nil
	defs = p.MRO()
	p.Top = top
	q := &progen.Program{Top: top}
	call = "@include \"defs.mro\"\n\n" + strings.TrimSpace(q.MRO()) + "\n"
	return
}

func compile(src string) (*syntax.Ast, error) {
	_, _, ast, err := syntax.ParseSourceBytes([]byte(src), "t.mro", nil, false)
	return ast, err
}

func whole(p *progen.Program) string { return p.MRO() }

func eval(c Case, bs []func() *progen.Program) (fs []ev.Finding, note string) {
	orig := bs[c.Base]()
	edited := bs[c.Base]()
	semantic := false
	for _, k := range progen.SemanticEdits {
		if k == c.Kind {
			semantic = true
		}
	}
	var origSrc, newSrc string
	if pre := progen.PreEdit(c.Kind); pre != "" {
		if !progen.ApplyEdit(orig, pre, c.Site) || !progen.ApplyEdit(edited, pre, c.Site) {
			return nil, "no-site"
		}
	}
	origSrc = whole(orig)
	switch c.Kind {
	case "reformat":
		if c.Site > 0 {
			return nil, "no-site"
		}
		f, err := syntax.FormatSrcBytes([]byte(origSrc), "t.mro", false, nil)
		if err != nil {
			return nil, "format-failed"
		}
		newSrc = f
	case "comments":
		if c.Site > 0 {
			return nil, "no-site"
		}
		var b strings.Builder
		for _, l := range strings.Split(origSrc, "\n") {
			t := strings.TrimSpace(l)
			if strings.HasPrefix(t, "stage ") || strings.HasPrefix(t, "pipeline ") || strings.HasPrefix(t, "call ") ||
				strings.HasPrefix(t, "map call ") || strings.HasPrefix(t, "in ") || strings.HasPrefix(t, "return") {
				b.WriteString(strings.Repeat(" ", len(l)-len(strings.TrimLeft(l, " "))) + "# a comment\n")
			}
			b.WriteString(l + "\n")
		}
		newSrc = b.String()
	case "whitespace":
		if c.Site > 0 {
			return nil, "no-site"
		}
		newSrc = strings.ReplaceAll(strings.ReplaceAll(origSrc, "    ", "\t  "), ",\n", ",\n\n")
	default:
		if !progen.ApplyEdit(edited, c.Kind, c.Site) {
			return nil, "no-site"
		}
		newSrc = whole(edited)
	}
	if newSrc == origSrc {
		return nil, "edit-is-identity"
	}
	a1, err := compile(origSrc)
	if err != nil {
		return nil, "base-does-not-compile: " + err.Error()
	}
	a2, err := compile(newSrc)
	if err != nil {
		return nil, "edited-does-not-compile"
	}
	desc := fmt.Sprintf("base %d (%s) edit %s at site %d", c.Base, orig.Desc, c.Kind, c.Site)
	report := func(sig, what string) {
		fs = append(fs, ev.Finding{Sig: "C15:" + sig + ":" + c.Kind, What: desc + ": " + what + "\n--- edited program ---\n" + ev.Short(diffLines(origSrc, newSrc), 1500), Case: c})
	}
	e12 := a1.EquivalentCall(a2)
	e21 := a2.EquivalentCall(a1)
	if semantic {
		if e12 || e21 {
			report("semantic-edit-judged-equivalent", fmt.Sprintf("a change of meaning is judged equivalent (orig~edited=%v, edited~orig=%v)", e12, e21))
		}
	} else {
		if !e12 || !e21 {
			report("cosmetic-edit-judged-different", fmt.Sprintf("a cosmetic change is judged a different invocation (orig~edited=%v, edited~orig=%v)", e12, e21))
		}
	}
	if c.Runtime {
		var stages []string
		for _, s := range append(orig.Stages, edited.Stages...) {
			stages = append(stages, s.Name)
		}
		d1, c1 := splitProgram(orig)
		var d2, c2 string
		if c.Kind == "reformat" || c.Kind == "comments" || c.Kind == "whitespace" {
			// apply the textual cosmetic change to the included declarations
			d2, c2 = cosmeticText(c.Kind, d1), c1
		} else {
			d2, c2 = splitProgram(edited)
		}
		got := psx.ReattachProbe(stages, d1, c1, d2, c2, false)
		callChanged := c1 != c2
		switch {
		case semantic && got == "ok":
			report("runtime-attach-accepted-semantic", "ReattachToPipestance accepted an invocation whose meaning changed")
		case !semantic && !callChanged && got != "ok":
			report("runtime-attach-refused-cosmetic", "ReattachToPipestance refused an invocation that differs only cosmetically (in the included declarations): "+got)
		case strings.HasPrefix(got, "error:") && !semantic:
			report("runtime-attach-error", got)
		}
	}
	return fs, ""
}

func cosmeticText(kind, s string) string {
	switch kind {
	case "reformat":
		if f, err := syntax.FormatSrcBytes([]byte(s), "defs.mro", false, nil); err == nil {
			return f
		}
	case "comments":
		return "# leading comment\n" + strings.ReplaceAll(s, "\nstage ", "\n# about this stage\nstage ")
	case "whitespace":
		return strings.ReplaceAll(s, ",\n", ",\n\n")
	}
	return s
}

func diffLines(a, b string) string {
	al, bl := strings.Split(a, "\n"), strings.Split(b, "\n")
	inA := map[string]int{}
	for _, l := range al {
		inA[l]++
	}
	inB := map[string]int{}
	for _, l := range bl {
		inB[l]++
	}
	var out []string
	for _, l := range al {
		if inB[l] == 0 {
			out = append(out, "- "+l)
		}
	}
	for _, l := range bl {
		if inA[l] == 0 {
			out = append(out, "+ "+l)
		}
	}
	return strings.Join(out, "\n")
}

// changedDefs returns the declarations of base 1 after a semantic edit that
// leaves the text of the invocation (include + top-level call) unchanged.
func changedDefs(bs []func() *progen.Program, call string) string {
	for _, k := range []string{"add-stage-out", "retarget-return", "toggle-split", "add-stage-in"} {
		p := bs[1]()
		if !progen.ApplyEdit(p, k, 0) {
			continue
		}
		if d2, c2 := splitProgram(p); c2 == call {
			return d2
		}
	}
	return ""
}

// realRetryReattach: a real mrp (with --autoretry) re-attaches to its own
// pipestance after a transient failure.  While the first job waits at a gate
// the included declarations are edited; then the job's monitor is killed.  The
// re-attach of the retry must compare the sources: after a semantic edit mrp
// must not finish successfully with the results of the edited program, after
// a cosmetic edit the retry must go through.
func realRetryReattach(r *ev.Run) {
	if os.Getenv("VERIF_NO_TIERB") != "" {
		return
	}
	if _, err := psx.TierBRoot(); err != nil {
		fmt.Println(err)
		os.Exit(2)
	}
	build := func() *progen.Program {
		return progen.Dataflow(progen.DataflowParams{Kind: "int", Src: "gen", Size: 2, Cons: "add", Extra: "chain"})
	}
	p := build()
	ref0, err := progen.Interpret(p)
	if err != nil {
		return
	}
	// a semantic edit of the declarations that changes the outputs
	var p2 *progen.Program
	var ref2 *progen.RefResult
	for site := 0; site < 20; site++ {
		q := build()
		if !progen.ApplyEdit(q, "change-literal", site) {
			break
		}
		d1, c1 := splitProgram(build())
		d2, c2 := splitProgram(q)
		if c1 != c2 || d1 == d2 {
			continue
		}
		if rr, err := progen.Interpret(q); err == nil && progen.EqSlack(ref0.TopOuts, rr.TopOuts, "") != "" {
			p2, ref2 = q, rr
			break
		}
	}
	if p2 == nil {
		r.Inconclusive("real retry re-attach: no semantic edit of the declarations changes the outputs")
		return
	}
	first := "ID." + psx.Psid + ".TOP.GEN.fork0.chnk0.main"
	for _, kind := range []string{"semantic", "cosmetic"} {
		d2, _ := splitProgram(p2)
		if kind == "cosmetic" {
			d1, _ := splitProgram(build())
			d2 = cosmeticText("comments", d1)
		}
		opts := psx.BOptions{AutoRetry: 1, Gate: []string{first}, Fault: &psx.Fault{Job: first, Kind: "kill-monitor", Times: 1}, Timeout: 90 * time.Second}
		b, err := psx.StartB(p, &opts)
		if err != nil {
			r.Inconclusive("real retry re-attach: " + err.Error())
			return
		}
		edited := false
		if b.WaitAt(first, 30*time.Second) {
			os.WriteFile(filepath.Join(b.Dir, "mro", "defs.mro"), []byte(d2), 0o644)
			edited = true
		}
		b.Release(first)
		res := b.Wait(&opts)
		r.Eval("real-retry-reattach|" + kind)
		if !edited || res.TimedOut {
			r.Inconclusive(fmt.Sprintf("real retry re-attach (%s): the gated job was not reached or mrp did not end (timed out: %v)", kind, res.TimedOut))
			res.Cleanup()
			continue
		}
		out, _ := progen.ParseJSON([]byte(res.TopOuts))
		success := res.Exit == 0 && strings.Contains(res.Console, "Pipestance completed successfully")
		switch kind {
		case "semantic":
			if success && out != nil && progen.EqSlack(ref2.TopOuts, out, "") == "" {
				r.Outcome("violation")
				r.Report(ev.Finding{Sig: "C15:real-retry-attach-accepted-semantic",
					What: "a real mrp with --autoretry=1: the included declarations were edited semantically while it ran, a transient failure made it re-attach to its own pipestance, and it completed successfully with the results of the EDITED program: " + ev.Short(res.TopOuts, 200),
					Case: Case{Base: -1, Kind: "real-retry-reattach-semantic"}})
			} else {
				r.Outcome(fmt.Sprintf("real-retry:semantic:exit=%d", res.Exit))
			}
		case "cosmetic":
			if !success || out == nil || progen.EqSlack(ref0.TopOuts, out, "") != "" {
				r.Outcome("violation")
				r.Report(ev.Finding{Sig: "C15:real-retry-attach-refused-cosmetic",
					What: fmt.Sprintf("a real mrp with --autoretry=1: comments were added to the included declarations while it ran; the automatic retry after a transient failure did not complete with the original results (exit %d): %s", res.Exit, ev.Short(psx.ConsoleTail(res.Console, 6), 400)),
					Case: Case{Base: -1, Kind: "real-retry-reattach-cosmetic"}})
			} else {
				r.Outcome("real-retry:cosmetic:ok")
			}
		}
		res.Cleanup()
	}
}

// realInspect: a live mrp holds the lock of a pipestance that is in state
// failed (it waits before its automatic retry); a second mrp started with
// --inspect looks at it.  The owner's lock must still be there afterwards.
func realInspect(r *ev.Run) {
	if os.Getenv("VERIF_NO_TIERB") != "" {
		return
	}
	p := progen.Dataflow(progen.DataflowParams{Kind: "int", Src: "gen", Size: 2, Cons: "add"})
	first := "ID." + psx.Psid + ".TOP.GEN.fork0.chnk0.main"
	optsA := psx.BOptions{AutoRetry: 1, RetryWait: 12, Fault: &psx.Fault{Job: first, Kind: "kill-monitor", Times: 1}, Timeout: 60 * time.Second}
	a, err := psx.StartB(p, &optsA)
	if err != nil {
		r.Inconclusive("real inspect: " + err.Error())
		return
	}
	defer os.RemoveAll(a.Dir)
	defer a.KillAll()
	lock := filepath.Join(a.PsDir, "_lock")
	// wait until the owner has seen the failure and waits for its retry
	waiting := false
	for i := 0; i < 400 && !waiting; i++ {
		if b, err := os.ReadFile(filepath.Join(a.PsDir, "_log")); err == nil && strings.Contains(string(b), "before attempting a retry") {
			waiting = true
		}
		time.Sleep(50 * time.Millisecond)
	}
	_, lerr := os.Lstat(lock)
	r.Eval("real-inspect")
	if !waiting || lerr != nil {
		r.Inconclusive(fmt.Sprintf("real inspect: the owner did not reach its retry wait holding the lock (waiting=%v lock=%v)", waiting, lerr == nil))
		return
	}
	optsB := psx.BOptions{Dir: a.Dir, ExtraArgs: []string{"--inspect"}, Timeout: 20 * time.Second}
	b, err := psx.StartB(p, &optsB)
	if err != nil {
		r.Inconclusive("real inspect: " + err.Error())
		return
	}
	defer b.KillAll()
	// the inspector's loop runs every three seconds
	gone := false
	for i := 0; i < 140 && !gone; i++ {
		time.Sleep(50 * time.Millisecond)
		if _, err := os.Lstat(lock); err != nil {
			gone = true
		}
	}
	if gone && a.Cmd.ProcessState == nil {
		r.Outcome("violation")
		r.Report(ev.Finding{Sig: "C15:real-inspect-removes-owners-lock",
			What: "a live mrp (waiting before its automatic retry, pipestance in state failed) holds _lock; a second mrp started with --inspect on the same pipestance removed that lock within 7 s, so a third instance could attach for writing: " + ev.Short(psx.ConsoleTail(b.Output(), 4), 300),
			Case: Case{Base: -1, Kind: "real-inspect"}})
		return
	}
	r.Outcome("real-inspect:lock-kept")
}

// envReference: an invocation that refers to the environment ($VAR) is
// recorded with the reference expanded; re-attaching with the identical
// invocation file must be accepted, and an edit of the text around the
// reference must be refused.
func envReference(r *ev.Run) {
	os.Setenv("VERIF_ENVREF", "/data/run 1")
	defs := "stage ECHO(\n    in  string s,\n    out string y,\n    src comp   \"ECHO\",\n)\n\npipeline TOP(\n    in  string s,\n    out string y,\n)\n{\n    call ECHO(\n        s = self.s,\n    )\n\n    return (\n        y = ECHO.y,\n    )\n}\n"
	call := "@include \"defs.mro\"\n\ncall TOP(\n    s = \"$VERIF_ENVREF/x\",\n)\n"
	changed := strings.Replace(call, "/x", "/y", 1)
	got := psx.ReattachProbe([]string{"ECHO"}, defs, call, defs, call, false)
	r.Eval("env-reference|same")
	if got != "ok" {
		r.Report(ev.Finding{Sig: "C15:env-reference:same-invocation-refused", What: "re-attach with the identical invocation file, which holds a reference to the environment (s = \"$VERIF_ENVREF/x\"), returned " + got, Case: Case{Base: -1, Kind: "env-reference-same"}})
	} else {
		r.Outcome("env-reference:same:ok")
	}
	got = psx.ReattachProbe([]string{"ECHO"}, defs, call, defs, changed, false)
	r.Eval("env-reference|changed")
	if got != "refused-invocation" {
		r.Report(ev.Finding{Sig: "C15:env-reference:changed-invocation-accepted", What: "re-attach with the argument next to the environment reference changed returned " + got, Case: Case{Base: -1, Kind: "env-reference-changed"}})
	} else {
		r.Outcome("env-reference:changed:refused")
	}
}

func lockHistories(r *ev.Run, bs []func() *progen.Program) {
	p := bs[1]()
	var stages []string
	for _, s := range p.Stages {
		stages = append(stages, s.Name)
	}
	d, c := splitProgram(p)
	// attach while the first incarnation holds the lock
	got := psx.ReattachProbe(stages, d, c, d, c, true)
	r.Eval("lock|held")
	if got != "refused-locked" {
		r.Report(ev.Finding{Sig: "C15:lock:attach-while-locked", What: "a second attach while the pipestance is locked returned " + got, Case: Case{Base: 1, Kind: "lock-held"}})
	}
	got = psx.ReattachProbe(stages, d, c, d, c, false)
	r.Eval("lock|released")
	if got != "ok" {
		r.Report(ev.Finding{Sig: "C15:lock:attach-after-unlock", What: "attach with the identical invocation after unlock returned " + got, Case: Case{Base: 1, Kind: "lock-released"}})
	}
	r.Outcome("lock-histories")
	// the lock as a protocol: every operation sequence up to a depth, in lock
	// step with a reference model
	d2 := changedDefs(bs, c)
	if d2 == "" {
		r.Inconclusive("lock protocol: no semantic edit of the declarations applies to base 1")
		return
	}
	depth := 3
	if r.Thorough() {
		depth = 5
	}
	psx.LockProtocol(r, stages, d, c, d2, cosmeticText("comments", d), depth)
}

func main() {
	r := ev.New("C15", "exploration")
	r.SetBudget(90*time.Second, 15*time.Minute)
	core.VerifQuiet()
	bs := bases()
	if r.ReplayPath != "" {
		var c Case
		if err := ev.LoadReplay(r.ReplayPath, &c); err != nil {
			fmt.Println(err)
			os.Exit(2)
		}
		r.Eval("replay")
		r.Sample(c)
		if c.Kind == "lock-protocol" {
			var ls psx.LockSeq
			ev.LoadReplay(r.ReplayPath, &ls)
			p := bs[1]()
			var stages []string
			for _, s := range p.Stages {
				stages = append(stages, s.Name)
			}
			d, cl := splitProgram(p)
			d2 := changedDefs(bs, cl)
			msg, trace := psx.RunLockSeq(stages, d, cl, d2, cosmeticText("comments", d), ls.Ops)
			fmt.Println(strings.Join(trace, "\n"))
			if msg != "" {
				r.Report(ev.Finding{Sig: "C15:lock:" + ls.Ops[len(ls.Ops)-1], What: msg, Case: ls})
			}
			r.Finish()
		}
		if strings.HasPrefix(c.Kind, "lock") {
			lockHistories(r, bs)
			r.Finish()
		}
		if strings.HasPrefix(c.Kind, "env-reference") {
			envReference(r)
			r.Finish()
		}
		fs, note := eval(c, bs)
		fmt.Println("note:", note)
		for _, f := range fs {
			r.Report(f)
		}
		r.Finish()
	}
	kinds := append(append([]string{}, progen.SemanticEdits...), progen.CosmeticEdits...)
	kinds = append(kinds, "reformat", "comments", "whitespace")
	r.Rule = fmt.Sprintf("%d base programs (nested sub-pipelines, map calls over arrays and typed maps, split stage, struct narrowing, projections, preflight, aliases, nested disabled modifiers, file types, retains, volatile) x EVERY applicable site of each edit kind: semantic %v; cosmetic %v + reformat/comments/whitespace. "+
		"EquivalentCall must be true in both directions for cosmetic and false in both for semantic edits; the first site of every (base, kind) is also driven through a real pipestance: InvokePipeline with the original, ReattachToPipestance(checkSrc) with the edited sources; lock histories: attach while locked / after unlock; and a real mrp (--autoretry=1) whose included declarations are edited (semantically / cosmetically) while its first job waits at a gate and whose re-attach after a transient failure must compare the sources. "+
		"distinct = distinct (base, edit kind, site); non-trivial = the edited program compiles and differs from the original",
		len(bs), progen.SemanticEdits, progen.CosmeticEdits)
	type item struct{ c Case }
	var cases []Case
	for bi := range bs {
		for _, k := range kinds {
			for site := 0; site < 200; site++ {
				probe := bs[bi]()
				if k != "reformat" && k != "comments" && k != "whitespace" {
					if !progen.ApplyEdit(probe, k, site) {
						break
					}
				} else if site > 0 {
					break
				}
				cases = append(cases, Case{Base: bi, Kind: k, Site: site, Runtime: site == 0})
			}
		}
	}
	r.Set("cases", len(cases))
	// hooks are process-global: run sequentially (cheap)
	for i, c := range cases {
		if r.Expired("edit enumeration") {
			break
		}
		fs, note := eval(c, bs)
		if note != "" {
			r.Eval("")
			r.Outcome("skipped:" + strings.SplitN(note, ":", 2)[0])
			continue
		}
		r.Eval(fmt.Sprintf("%d|%s|%d", c.Base, c.Kind, c.Site))
		if len(fs) == 0 {
			r.Outcome("ok:" + c.Kind)
		}
		for _, f := range fs {
			r.Outcome("violation")
			r.Report(f)
		}
		if i%53 == 0 {
			r.Sample(c)
		}
	}
	lockHistories(r, bs)
	envReference(r)
	realRetryReattach(r)
	realInspect(r)
	r.Assume("edits the repository documents as ignored (retain, resources, volatile, chunk parameters) are not in the catalogue")
	r.Finish()
}
