//go:build verif

// C17: JSON validation and filtering agree with the type system.
// Bounded-exhaustive enumeration of (type, value) pairs over a type universe
// and per-type value generators with single-point near-miss mutations,
// against a three-valued reference validator and a reference filter written
// from the property statement.
package main

import (
	"encoding/json"
	"fmt"
	"math/big"
	"os"
	"strings"
	"sync"
	"time"

	"github.com/martian-lang/martian/martian/syntax"

	"verif/lib/ev"
	"verif/lib/progen"
)

const header = `
filetype txt;
struct B(int x,)
struct A(int x, string s, int[] v,)
struct A2(float x, string s, int[] v,)
struct A3(string x, string s, int[] v,)
struct C(A a, A[] sa, map<A> ma, B b, txt f,)
struct D(B a, B[] sa, map<B> ma,)
struct P(string s, txt f, float w, bool b,)
`

type structDef struct {
	name   string
	fields [][2]string // name, type text
}

var structs = map[string][][2]string{
	"B":  {{"x", "int"}},
	"A":  {{"x", "int"}, {"s", "string"}, {"v", "int[]"}},
	"A2": {{"x", "float"}, {"s", "string"}, {"v", "int[]"}},
	"A3": {{"x", "string"}, {"s", "string"}, {"v", "int[]"}},
	"C":  {{"a", "A"}, {"sa", "A[]"}, {"ma", "map<A>"}, {"b", "B"}, {"f", "txt"}},
	"D":  {{"a", "B"}, {"sa", "B[]"}, {"ma", "map<B>"}},
	// no member that filtering could rewrite (no int, no nested struct)
	"P": {{"s", "string"}, {"f", "txt"}, {"w", "float"}, {"b", "bool"}},
}

var bases = []string{"int", "float", "string", "bool", "map", "file", "path", "txt", "B", "A", "A2", "A3", "C", "D", "P"}

type tid = syntax.TypeId

func parseTid(s string) tid {
	var t tid
	if err := t.UnmarshalText([]byte(s)); err != nil {
		panic(err)
	}
	return t
}

// elem returns the element type id of a collection type id.
func elemOf(t tid) (tid, string) {
	if t.ArrayDim > 0 {
		return tid{Tname: t.Tname, ArrayDim: t.ArrayDim - 1, MapDim: t.MapDim}, "array"
	}
	if t.MapDim > 0 {
		return tid{Tname: t.Tname, ArrayDim: t.MapDim - 1}, "tmap"
	}
	return t, ""
}

type verdict int

const (
	accept verdict = iota
	reject
	unspec
)

func isStringy(b string) bool {
	return b == "string" || b == "file" || b == "path" || b == "txt"
}

// V is the reference validator.
// relaxUser (VHard) makes V leave open what a user-defined file type does with a
// value that is not a string: the validator only raises an alarm for it
// ("for backwards compatibility we need to accept everything here"), which is
// still not validating cleanly.  Every other departure from the declared
// shape must be refused with an error, not merely an alarm (VHard).
// VHard: reject means "must be refused with an error".
func VHard(t tid, v *progen.Val) verdict { return vImpl(t, v, true) }

func V(t tid, v *progen.Val) verdict { return vImpl(t, v, false) }

func vImpl(t tid, v *progen.Val, relaxUser bool) verdict {
	if v == nil || v.K == progen.VNull {
		return accept
	}
	if e, kind := elemOf(t); kind == "array" {
		if v.K != progen.VArr {
			return reject
		}
		res := accept
		for _, x := range v.A {
			switch vImpl(e, x, relaxUser) {
			case reject:
				return reject
			case unspec:
				res = unspec
			}
		}
		return res
	} else if kind == "tmap" {
		if v.K != progen.VObj {
			return reject
		}
		res := accept
		for _, x := range v.O {
			switch vImpl(e, x, relaxUser) {
			case reject:
				return reject
			case unspec:
				res = unspec
			}
		}
		return res
	}
	switch b := t.Tname; {
	case b == "int":
		if v.K != progen.VNum {
			return reject
		}
		if strings.ContainsAny(v.N, ".eE") {
			var f float64
			fmt.Sscan(v.N, &f)
			if f != float64(int64(f)) {
				return reject
			}
			return unspec // integral value written as a float
		}
		var i int64
		if _, err := fmt.Sscan(v.N, &i); err != nil {
			return unspec // outside int64
		}
		return accept
	case b == "float":
		if v.K != progen.VNum {
			return reject
		}
		return accept
	case isStringy(b):
		if v.K != progen.VStr {
			if relaxUser && b == "txt" {
				return unspec
			}
			return reject
		}
		return accept
	case b == "bool":
		if v.K != progen.VBool {
			return reject
		}
		return accept
	case b == "map":
		if v.K != progen.VObj {
			return reject
		}
		return accept
	default:
		fields := structs[b]
		if v.K != progen.VObj {
			return reject
		}
		res := accept
		for _, f := range fields {
			fv, ok := v.O[f[0]]
			if !ok {
				return reject // missing field
			}
			switch vImpl(parseTid(f[1]), fv, relaxUser) {
			case reject:
				return reject
			case unspec:
				res = unspec
			}
		}
		if len(v.O) > len(fields) {
			// undeclared fields are what filtering drops; whether validation
			// tolerates them is not decided by the statement
			if res == accept {
				res = unspec
			}
		}
		return res
	}
}

// Phi is the reference filter: drop undeclared struct fields, write integral
// floats as integers for int; nothing else.
func Phi(t tid, v *progen.Val) *progen.Val {
	if v == nil || v.K == progen.VNull {
		return progen.Null()
	}
	if e, kind := elemOf(t); kind == "array" {
		if v.K != progen.VArr {
			return v
		}
		out := &progen.Val{K: progen.VArr}
		for _, x := range v.A {
			out.A = append(out.A, Phi(e, x))
		}
		return out
	} else if kind == "tmap" {
		if v.K != progen.VObj {
			return v
		}
		out := progen.Obj(nil)
		for k, x := range v.O {
			out.O[k] = Phi(e, x)
		}
		return out
	}
	if fields, ok := structs[t.Tname]; ok && v.K == progen.VObj {
		out := progen.Obj(nil)
		for _, f := range fields {
			if fv, ok := v.O[f[0]]; ok {
				out.O[f[0]] = Phi(parseTid(f[1]), fv)
			}
		}
		return out
	}
	if t.Tname == "int" && v.K == progen.VNum && strings.ContainsAny(v.N, ".eE") {
		// exact arithmetic on the literal: an integral value that fits an
		// int64 is written as that integer, digit for digit
		if r, ok := new(big.Rat).SetString(v.N); ok && r.IsInt() && r.Num().IsInt64() {
			return progen.Int(r.Num().Int64())
		}
	}
	return v
}

// eqExact compares two JSON values; numbers are compared as exact decimals.
func eqExact(a, b *progen.Val) bool {
	if a == nil || b == nil {
		return a == b
	}
	if a.K != b.K {
		return false
	}
	switch a.K {
	case progen.VNum:
		ra, ok1 := new(big.Rat).SetString(a.N)
		rb, ok2 := new(big.Rat).SetString(b.N)
		if !ok1 || !ok2 {
			return a.N == b.N
		}
		return ra.Cmp(rb) == 0
	case progen.VArr:
		if len(a.A) != len(b.A) {
			return false
		}
		for i := range a.A {
			if !eqExact(a.A[i], b.A[i]) {
				return false
			}
		}
		return true
	case progen.VObj:
		if len(a.O) != len(b.O) {
			return false
		}
		for k, x := range a.O {
			y, ok := b.O[k]
			if !ok || !eqExact(x, y) {
				return false
			}
		}
		return true
	}
	return a.JSON() == b.JSON()
}

// usesUndeclared reports whether the value has a field Phi would drop.
func hasExtra(t tid, v *progen.Val) bool {
	return Phi(t, v).JSON() != v.JSON()
}

// gen returns valid values of type t (bounded).
func gen(t tid, depth int) []*progen.Val {
	if e, kind := elemOf(t); kind == "array" {
		ev := gen(e, depth+1)
		var out []*progen.Val
		if len(ev) > 1 && depth < 2 {
			out = append(out, progen.Arr(ev[0].Clone(), ev[1].Clone(), ev[0].Clone()))
		}
		out = append(out, progen.Arr(ev[0].Clone()), progen.Arr(), progen.Null())
		if len(ev) > 1 {
			out = append(out, progen.Arr(progen.Null(), ev[len(ev)-1].Clone()))
		}
		return out
	} else if kind == "tmap" {
		ev := gen(e, depth+1)
		var out []*progen.Val
		if len(ev) > 1 && depth < 2 {
			out = append(out, progen.Obj(map[string]*progen.Val{"a": ev[0].Clone(), "b é": ev[1].Clone(), "x": progen.Null(), "z": ev[0].Clone()}))
			// keys that need escaping when the map is re-encoded
			out = append(out, progen.Obj(map[string]*progen.Val{"q\"k": ev[0].Clone(), "b\\s": ev[1].Clone(), "n\nl": ev[0].Clone(), "t\tb\u0001": progen.Null()}))
		}
		out = append(out, progen.Obj(map[string]*progen.Val{"a": ev[0].Clone()}), progen.Obj(nil), progen.Null())
		return out
	}
	switch b := t.Tname; {
	case b == "int":
		return []*progen.Val{progen.Int(7), progen.Int(0), progen.Int(-9007199254740993), progen.Null()}
	case b == "float":
		return []*progen.Val{progen.Num("1.5"), progen.Int(2), progen.Num("-0.0"), progen.Num("1e21"), progen.Null()}
	case isStringy(b):
		return []*progen.Val{progen.Str("/a/b.txt"), progen.Str(""), progen.Str("q\"\\é\n"), progen.Null()}
	case b == "bool":
		return []*progen.Val{progen.Bool(true), progen.Bool(false), progen.Null()}
	case b == "map":
		return []*progen.Val{progen.Obj(map[string]*progen.Val{"k": progen.Int(1), "n": progen.Arr(progen.Str("s"))}), progen.Obj(nil), progen.Null()}
	default:
		fields := structs[b]
		var out []*progen.Val
		// typical, second choice everywhere, all-null fields, null
		for variant := 0; variant < 3; variant++ {
			o := progen.Obj(nil)
			for _, f := range fields {
				fv := gen(parseTid(f[1]), depth+1)
				switch variant {
				case 0:
					o.O[f[0]] = fv[0].Clone()
				case 1:
					o.O[f[0]] = fv[min(1, len(fv)-1)].Clone()
				default:
					o.O[f[0]] = progen.Null()
				}
			}
			out = append(out, o)
		}
		return append(out, progen.Null())
	}
}

// mutate returns single-point near-miss mutations of v (each a fresh tree).
func mutate(v *progen.Val) []*progen.Val {
	var out []*progen.Val
	wrong := func(orig *progen.Val) []*progen.Val {
		cands := []*progen.Val{progen.Str("5"), progen.Int(3), progen.Num("1.0"), progen.Num("1.5"), progen.Bool(true),
			progen.Arr(), progen.Obj(nil), progen.Arr(orig.Clone()),
			// numbers at and beyond the int64 range, exponent forms, negative integral floats
			progen.Num("9223372036854775808"), progen.Num("1e19"), progen.Num("-1e19"), progen.Num("18446744073709551616.0"),
			progen.Num("1e2"), progen.Num("-3.0"), progen.Num("9223372036854775807"),
			// integral floats that float64 cannot hold exactly
			progen.Num("9007199254740993.0"), progen.Num("-9007199254740993.0"), progen.Num("9223372036854775807.0"), progen.Num("1234567890123456789e0")}
		var res []*progen.Val
		for _, c := range cands {
			if c.JSON() != orig.JSON() {
				res = append(res, c)
			}
		}
		return res
	}
	var rec func(root *progen.Val, at func(*progen.Val) **progen.Val)
	// walk with paths: rebuild by cloning root and replacing the node at path
	type path []interface{}
	var walk func(cur *progen.Val, p path)
	replace := func(p path, with *progen.Val) *progen.Val {
		root := v.Clone()
		if len(p) == 0 {
			return with
		}
		n := root
		for i, step := range p {
			last := i == len(p)-1
			switch s := step.(type) {
			case int:
				if last {
					n.A[s] = with
				} else {
					n = n.A[s]
				}
			case string:
				if last {
					n.O[s] = with
				} else {
					n = n.O[s]
				}
			}
		}
		return root
	}
	_ = rec
	walk = func(cur *progen.Val, p path) {
		for _, w := range wrong(cur) {
			out = append(out, replace(p, w))
		}
		switch cur.K {
		case progen.VArr:
			for i, e := range cur.A {
				walk(e, append(append(path{}, p...), i))
			}
		case progen.VObj:
			// extra field, missing field
			ex := cur.Clone()
			ex.O["zz_extra"] = progen.Int(1)
			out = append(out, replace(p, ex))
			// ... and an undeclared field of another kind than its siblings
			ex2 := cur.Clone()
			ex2.O["zz_note"] = progen.Str("x")
			out = append(out, replace(p, ex2))
			for _, k := range cur.Keys() {
				ms := cur.Clone()
				delete(ms.O, k)
				out = append(out, replace(p, ms))
				// a misspelt key: one field missing and one undeclared,
				// the number of keys unchanged
				rn := cur.Clone()
				rn.O[k+"_"] = rn.O[k]
				delete(rn.O, k)
				out = append(out, replace(p, rn))
				walk(cur.O[k], append(append(path{}, p...), k))
			}
		}
	}
	walk(v, nil)
	return out
}

// texts renders a value in several raw JSON spellings.
func texts(v *progen.Val) []string {
	compact := v.JSON()
	var x interface{}
	json.Unmarshal([]byte(compact), &x)
	out := []string{compact}
	if strings.ContainsAny(compact, "[{") {
		var buf strings.Builder
		buf.WriteString(" \n")
		for _, c := range compact {
			buf.WriteRune(c)
			if c == ',' || c == ':' || c == '[' || c == '{' {
				buf.WriteString(" \t")
			}
		}
		buf.WriteString("\n ")
		out = append(out, buf.String())
	}
	return out
}

func jsonEq(a, b string) bool {
	va, e1 := progen.ParseJSON([]byte(a))
	vb, e2 := progen.ParseJSON([]byte(b))
	if e1 != nil || e2 != nil {
		return false
	}
	return progen.EqSlack(va, vb, "") == "" && progen.EqSlack(vb, va, "") == "" && eqExact(va, vb)
}

type Case struct {
	Kind  string `json:"kind"` // value | assign
	Type  string `json:"type"`
	Other string `json:"other,omitempty"`
	Json  string `json:"json,omitempty"`
}

var lookup *syntax.TypeLookup

// lookup.Get builds and caches collection types on first use, which is not
// safe from several workers at once.
var lookupMu sync.Mutex

func getType(t tid) syntax.Type {
	lookupMu.Lock()
	defer lookupMu.Unlock()
	return lookup.Get(t)
}

func checkValue(c Case) []ev.Finding {
	var out []ev.Finding
	t := parseTid(c.Type)
	ty := getType(t)
	raw := json.RawMessage(c.Json)
	v, perr := progen.ParseJSON(raw)
	if perr != nil {
		return nil
	}
	verdictV := V(t, v)
	report := func(sig, what string) {
		out = append(out, ev.Finding{Sig: "C17:" + sig, What: fmt.Sprintf("type %s value %s: %s", c.Type, ev.Short(c.Json, 300), what), Case: c})
	}
	kindOf := func() string {
		k := "scalar"
		if t.ArrayDim > 0 {
			k = "array"
		} else if t.MapDim > 0 {
			k = "tmap"
		} else if _, ok := structs[t.Tname]; ok {
			k = "struct"
		}
		return k + ":" + t.Tname
	}
	var res struct {
		err    error
		alarms string
	}
	func() {
		defer func() {
			if r := recover(); r != nil {
				report("panic:IsValidJson:"+kindOf(), fmt.Sprint("IsValidJson panicked: ", r))
			}
		}()
		var al strings.Builder
		res.err = ty.IsValidJson(raw, &al, lookup)
		res.alarms = al.String()
	}()
	clean := res.err == nil && res.alarms == ""
	// Component-wise consistency: the value as the only element of an array
	// and as the only entry of a typed map of the type gets the verdict it
	// gets alone (whatever that verdict is; this also binds the cases the
	// reference leaves undecided, such as integers beyond the int64 range).
	if v.K != progen.VNull {
		class := func(err error, alarms string) string {
			switch {
			case err != nil:
				return "refused"
			case alarms != "":
				return "alarmed"
			}
			return "clean"
		}
		alone := class(res.err, res.alarms)
		nest := func(what string, nt tid, nraw string) {
			nty := getType(nt)
			if nty == nil {
				return
			}
			defer func() { recover() }()
			var al strings.Builder
			err := nty.IsValidJson(json.RawMessage(nraw), &al, lookup)
			if got := class(err, al.String()); got != alone {
				report("validation-depends-on-nesting:"+what+":"+kindOf(), fmt.Sprintf("alone the value is %s, as the only %s of %s it is %s", alone, what, nt.String(), got))
			}
		}
		if t.MapDim == 0 {
			at := t
			at.ArrayDim++
			nest("element", at, "["+c.Json+"]")
		}
		if t.MapDim == 0 && t.Tname != "map" {
			mt := t
			mt.MapDim = t.ArrayDim + 1
			mt.ArrayDim = 0
			nest("entry", mt, `{"k":`+c.Json+"}")
		}
	}
	switch verdictV {
	case accept:
		if !clean {
			report("valid-rejected:"+kindOf(), fmt.Sprintf("a value of the declared shape is not validated cleanly: err=%v alarms=%q", res.err, res.alarms))
		}
	case reject:
		if clean {
			report("invalid-accepted:"+kindOf(), "a value that is not of the declared shape validates cleanly")
		} else if res.err == nil && VHard(t, v) == reject {
			report("invalid-only-alarmed:"+kindOf(), fmt.Sprintf("a value that is not of the declared shape (and not merely a non-string for a user file type) is accepted with an alarm only: %q", res.alarms))
		}
	}
	// filtering
	var f1 json.RawMessage
	var fatal bool
	var ferr error
	func() {
		defer func() {
			if r := recover(); r != nil {
				report("panic:FilterJson:"+kindOf(), fmt.Sprint("FilterJson panicked: ", r))
				fatal = true
			}
		}()
		f1, fatal, ferr = ty.FilterJson(raw, lookup)
	}()
	phi := Phi(t, v)
	if os.Getenv("VERIF_DEBUG") != "" {
		fmt.Printf("debug: V=%v filter=%s fatal=%v err=%v phi=%s V(phi)=%v\n", verdictV, string(f1), fatal, ferr, phi.JSON(), V(t, phi))
	}
	if verdictV == accept {
		if fatal || ferr != nil {
			report("filter-fails-on-valid:"+kindOf(), fmt.Sprintf("filtering a valid value fails: fatal=%v err=%v", fatal, ferr))
		}
	}
	if V(t, phi) == accept {
		// valid up to undeclared fields and integral floats: the filter must
		// produce exactly the reference filtering, and that must validate
		if fatal {
			report("filter-fatal-on-filterable:"+kindOf(), fmt.Sprintf("filtering fails fatally: %v", ferr))
		} else {
			want := phi.JSON()
			if !jsonEq(string(f1), want) {
				report("filter-changes-value:"+kindOf(), fmt.Sprintf("filtered to %s, expected %s", ev.Short(string(f1), 300), ev.Short(want, 300)))
			} else {
				var al strings.Builder
				if err := ty.IsValidJson(f1, &al, lookup); err != nil || al.Len() > 0 {
					report("filtered-not-valid:"+kindOf(), fmt.Sprintf("the filtered value %s does not validate: err=%v alarms=%q", ev.Short(string(f1), 300), err, al.String()))
				}
			}
		}
	}
	if !fatal && f1 != nil && V(t, phi) != accept {
		// "for every declared type and every JSON value ... filtering changes
		// nothing except dropping undeclared struct fields (and writing
		// integral floats as integers for int)": when the filter does not
		// refuse a value that is not of the declared shape, what it returns
		// must still be the reference filtering of it
		if want := phi.JSON(); !jsonEq(string(f1), want) {
			report("filter-changes-value:"+kindOf(), fmt.Sprintf("a value not of the declared shape was filtered (not fatally) to %s, the only changes allowed give %s", ev.Short(string(f1), 300), ev.Short(want, 300)))
		}
	}
	if !fatal && f1 != nil {
		if _, perr := progen.ParseJSON(f1); perr != nil {
			report("filter-invalid-json:"+kindOf(), fmt.Sprintf("filter output is not valid JSON: %s (%v)", ev.Short(string(f1), 300), perr))
		} else {
			f2, fatal2, _ := ty.FilterJson(f1, lookup)
			if fatal2 || !jsonEq(string(f1), string(f2)) {
				report("filter-not-idempotent:"+kindOf(), fmt.Sprintf("filter(filter(v)) = %s (fatal=%v) differs from filter(v) = %s",
					ev.Short(string(f2), 200), fatal2, ev.Short(string(f1), 200)))
			}
		}
	}
	return out
}

// checkAssign: if v validates for S and D is assignable from S then the
// filtered value validates for D.
func checkFlow(c Case) []ev.Finding {
	var out []ev.Finding
	s, d := parseTid(c.Type), parseTid(c.Other)
	ts, td := getType(s), getType(d)
	if td.IsAssignableFrom(ts, lookup) != nil {
		return nil
	}
	raw := json.RawMessage(c.Json)
	v, err := progen.ParseJSON(raw)
	if err != nil {
		return nil
	}
	if verdict := V(s, v); verdict != accept {
		// a value with undeclared struct fields: the reference does not
		// decide whether it is valid for S; the statement's antecedent is
		// "validated cleanly against S", so ask the validator itself
		var al strings.Builder
		if verdict == reject || ts.IsValidJson(raw, &al, lookup) != nil || al.Len() > 0 {
			return nil
		}
	}
	f, fatal, ferr := td.FilterJson(raw, lookup)
	if fatal {
		out = append(out, ev.Finding{Sig: "C17:flow-filter-fatal:" + c.Other + "<-" + c.Type,
			What: fmt.Sprintf("%s is assignable from %s but filtering the valid %s value %s to %s fails: %v", c.Other, c.Type, c.Type, ev.Short(c.Json, 200), c.Other, ferr), Case: c})
		return out
	}
	var al strings.Builder
	if err := td.IsValidJson(f, &al, lookup); err != nil || al.Len() > 0 {
		out = append(out, ev.Finding{Sig: "C17:flow-invalid:" + c.Other + "<-" + c.Type,
			What: fmt.Sprintf("%s is assignable from %s, value %s is valid for %s, but its filtering %s does not validate for %s: err=%v alarms=%q",
				c.Other, c.Type, ev.Short(c.Json, 200), c.Type, ev.Short(string(f), 200), c.Other, err, al.String()), Case: c})
	}
	return out
}

func checkAssignability(types []tid, r *ev.Run) {
	ok := func(d, s tid) bool { return getType(d).IsAssignableFrom(getType(s), lookup) == nil }
	for _, t := range types {
		r.Eval("assign:" + t.String())
		if !ok(t, t) {
			r.Report(ev.Finding{Sig: "C17:assign-not-reflexive", What: t.String() + " is not assignable from itself",
				Case: Case{Kind: "assign", Type: t.String(), Other: t.String()}})
		}
	}
	for _, d := range types {
		for _, s := range types {
			r.EvalN(1)
			got := ok(d, s)
			de, dk := elemOf(d)
			se, sk := elemOf(s)
			if dk != "" && dk == sk {
				if want := ok(de, se); want != got {
					r.Report(ev.Finding{Sig: "C17:assign-collection-not-componentwise:" + dk,
						What: fmt.Sprintf("%s <- %s is %v but element %s <- %s is %v", d.String(), s.String(), got, de.String(), se.String(), want),
						Case: Case{Kind: "assign", Type: s.String(), Other: d.String()}})
				}
			}
			df, dok := structs[d.Tname]
			sf, sok := structs[s.Tname]
			if dk == "" && sk == "" && dok && sok {
				want := true
				for _, f := range df {
					found := false
					for _, g := range sf {
						if g[0] == f[0] {
							found = true
							if !ok(parseTid(f[1]), parseTid(g[1])) {
								want = false
							}
						}
					}
					if !found {
						want = false
					}
				}
				if want != got {
					r.Report(ev.Finding{Sig: "C17:assign-struct-not-componentwise",
						What: fmt.Sprintf("struct %s <- %s is %v but the field-wise conjunction is %v", d.String(), s.String(), got, want),
						Case: Case{Kind: "assign", Type: s.String(), Other: d.String()}})
				}
			}
		}
	}
}

func main() {
	r := ev.New("C17", "exploration")
	r.SetBudget(90*time.Second, 20*time.Minute)
	_, _, ast, err := syntax.ParseSourceBytes([]byte(header), "c17.mro", nil, false)
	if err != nil {
		fmt.Println("cannot compile the type header:", err)
		os.Exit(2)
	}
	lookup = &ast.TypeTable
	// TypeLookup.Get builds and caches collection types on first use: build
	// every type the parallel phase can ask for (one array and one map level
	// beyond the universe) before it starts.
	for _, b := range bases {
		for a := int16(0); a <= 4; a++ {
			lookup.Get(tid{Tname: b, ArrayDim: a})
			if b != "map" {
				for m := int16(1); m <= 4; m++ {
					lookup.Get(tid{Tname: b, MapDim: m})
					lookup.Get(tid{Tname: b, MapDim: m, ArrayDim: a})
				}
			}
		}
	}
	if r.ReplayPath != "" {
		var c Case
		if err := ev.LoadReplay(r.ReplayPath, &c); err != nil {
			fmt.Println(err)
			os.Exit(2)
		}
		r.Eval("replay")
		r.Sample(c)
		var fs []ev.Finding
		if c.Kind == "flow" {
			fs = checkFlow(c)
		} else if c.Kind == "assign" {
			checkAssignability([]tid{parseTid(c.Type), parseTid(c.Other)}, r)
		} else {
			fs = checkValue(c)
		}
		for _, f := range fs {
			r.Report(f)
		}
		r.Finish()
	}
	maxA, maxM := int16(2), int16(2)
	var types []tid
	for _, b := range bases {
		for a := int16(0); a <= maxA; a++ {
			for m := int16(0); m <= maxM; m++ {
				if b == "map" && m > 0 {
					continue
				}
				types = append(types, tid{Tname: b, ArrayDim: a, MapDim: m})
			}
		}
	}
	r.Set("types", len(types))
	r.Rule = "types: 15 base types (builtins, a user file type, 7 structs incl. narrower / field-wise convertible / nested / without any member filtering could rewrite) x array depth 0-2 x typed-map nesting 0-2; " +
		"values: for each type a generated set of valid values (typical, alternate, empty, nulls) and EVERY single-point near-miss mutation of each (wrong kind at every node, 1.0/1.5 for numbers, one level deeper, extra/missing field), " +
		"each in compact and oddly spaced raw JSON; checked against a three-valued reference validator and a reference filter (idempotence, faithfulness, validity after filtering for every assignable type pair), " +
		"plus reflexivity and component-wise assignability over all ordered type pairs. distinct = distinct (type, raw value); non-trivial = value is not null"
	checkAssignability(types, r)
	var sampleMu = make(chan struct{}, 1)
	sampleMu <- struct{}{}
	var nCases int64
	torder := r.Rotate(len(types))
	ev.ParallelFor(len(types), func(ti int) bool {
		t := types[torder[ti]]
		vals := gen(t, 0)
		seen := map[string]bool{}
		var cases []Case
		add := func(v *progen.Val) {
			for _, txt := range texts(v) {
				if !seen[txt] {
					seen[txt] = true
					cases = append(cases, Case{Kind: "value", Type: t.String(), Json: txt})
				}
			}
		}
		for _, v := range vals {
			add(v)
			if v.K != progen.VNull {
				muts := mutate(v)
				limit := 6000
				if r.Thorough() {
					limit = 60000
				}
				if len(muts) > limit {
					// evenly spaced positions (a stated sub-bound, recorded as a cap)
					step := len(muts)/limit + 1
					var sel []*progen.Val
					for i := 0; i < len(muts); i += step {
						sel = append(sel, muts[i])
					}
					muts = sel
					r.Cap("more than " + fmt.Sprint(limit) + " single-point mutations of one value: an evenly spaced subset is used for the largest values")
				}
				for _, m := range muts {
					add(m)
				}
			}
		}
		for i, c := range cases {
			key := ""
			if c.Json != "null" {
				key = c.Type + "|" + c.Json
			}
			r.Eval(key)
			fs := checkValue(c)
			if len(fs) == 0 {
				if v, err := progen.ParseJSON([]byte(c.Json)); err == nil {
					r.Outcome("ok:reference-" + [...]string{"accepts", "rejects", "unspecified"}[V(parseTid(c.Type), v)])
				}
			}
			for _, f := range fs {
				r.Outcome(strings.SplitN(f.Sig, ":", 3)[1])
				r.Report(f)
			}
			if i == len(cases)/2 && ti%17 == 0 {
				r.Sample(c)
			}
		}
		r.Add("value_cases", int64(len(cases)))
		_ = nCases
		return !r.Expired("value enumeration")
	})
	// flows: valid values of S filtered to every D assignable from S
	var flows []Case
	for _, s := range types {
		vals := gen(s, 0)
		for _, d := range types {
			if getType(d).IsAssignableFrom(getType(s), lookup) != nil {
				continue
			}
			for _, v := range vals {
				flows = append(flows, Case{Kind: "flow", Type: s.String(), Other: d.String(), Json: v.JSON()})
				// the same value with an undeclared field (structs only)
				if _, isStruct := structs[s.Tname]; isStruct && s.ArrayDim == 0 && s.MapDim == 0 && v.K == progen.VObj {
					for _, extra := range []*progen.Val{progen.Str("note"), progen.Int(5), progen.Arr(progen.Int(1))} {
						w := v.Clone()
						w.O["zz_undeclared"] = extra
						flows = append(flows, Case{Kind: "flow", Type: s.String(), Other: d.String(), Json: w.JSON()})
					}
				}
			}
		}
	}
	r.Set("flow_cases", len(flows))
	ev.ParallelFor(len(flows), func(i int) bool {
		c := flows[i]
		r.Eval("flow|" + c.Type + "|" + c.Other + "|" + c.Json)
		for _, f := range checkFlow(c) {
			r.Report(f)
		}
		return !r.Expired("flow enumeration")
	})
	if len(flows) > 0 {
		r.Sample(flows[len(flows)/2])
	}
	r.Assume("integral values written in float syntax for int (1.0, 1e2), integers beyond int64 and undeclared struct fields are 'unspecified' for validation (the statement only fixes how filtering treats them)")
	r.Finish()
}
