//go:build verif

// C01: see DESIGN.md section 4.  Shares the dataflow exploration of lib/psx.
package main

import "verif/lib/psx"

func main() { psx.DataflowCheck("C01") }
