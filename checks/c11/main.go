//go:build verif

// C11: fork identities are unique and job notifications reach their owner.
package main

import "verif/lib/psx"

func main() { psx.KeyCheck() }
