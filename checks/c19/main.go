//go:build verif

// C19: semantic edits (mro edit) preserve behaviour.  Every applicable edit
// on every callable / parameter of a corpus of programs, applied the way
// cmd/mro/edit does; oracle: the result compiles and the serialized call
// graph of the top-level call equals the original's after the inverse
// renaming / minus exactly the removed elements; X->Y->X restores the program.
package main

import (
	"bytes"
	"encoding/json"
	"fmt"
	"os"
	"regexp"
	"sort"
	"strings"
	"time"

	"github.com/martian-lang/martian/martian/syntax"
	"github.com/martian-lang/martian/martian/syntax/refactoring"

	"verif/lib/astcanon"
	"verif/lib/ev"
	"verif/lib/progen"
)

type Case struct {
	Prog   int    `json:"program"`
	Edit   string `json:"edit"` // rename-callable | rename-collide | rename-input | rename-output | remove-input | remove-output | remove-unused-outputs | remove-unused-calls | rename-roundtrip
	Target string `json:"target"`
	Param  string `json:"param,omitempty"`
	New    string `json:"new,omitempty"`
}

func programs() []*progen.Program {
	var out []*progen.Program
	add := func(p *progen.Program) {
		if p != nil {
			out = append(out, p)
		}
	}
	for _, d := range []progen.DataflowParams{
		{Kind: "arr", Src: "gen", Size: 2, Cons: "id", Wrap: 2, Map: "inner", Dis: "gen-false", DisAt: "wrap", Extra: "chain"},
		{Kind: "arr", Src: "gen", Size: 2, Cons: "sums", Dis: "in-false", DisAt: "cons"},
		{Kind: "sarr", Src: "input", Size: 2, Cons: "id", Narrow: true, Map: "top", Alias: true},
		{Kind: "cstruct", Src: "gen", Size: 1, Cons: "id", Proj: "sa.x", Wrap: 1, Pre: true},
		{Kind: "smap", Src: "gen", Size: 2, Cons: "id", Map: "top", Proj: "v", Extra: "passthru"},
		{Kind: "int", Src: "gen", Size: 2, Cons: "add", Dis: "gen-true", DisAt: "cons", Extra: "chain"},
	} {
		add(progen.Dataflow(d))
	}
	add(progen.DisNest(progen.DisNestParams{Levels: []string{"p", "c"}, Sib: [2]string{"q", "-"}, Vals: 0}))
	add(progen.DisNest(progen.DisNestParams{Levels: []string{"f", "q"}, Sib: [2]string{"r", "s"}, Vals: 0}))
	add(progen.FileFlow(progen.FileParams{Out: "fs", Prod: "filew", ConsMap: true, Late: true, Retain: "pipe", TopOut: true, Mode: "rolling", Size: 2}))
	add(progen.FileFlow(progen.FileParams{Out: "s", Proj: "f", Prod: "filew", ProdWrap: true, Vol: "strict", Retain: "stage", Mode: "rolling", Size: 2}))
	add(progen.FileFlow(progen.FileParams{Out: "f", Prod: "filew", ConsWrap: true, Late: true, TopOut: true, Mode: "rolling", Size: 2}))
	// wildcard bindings and struct-typed pipeline outputs
	add(wildcardProgram())
	add(wildcardStructProgram())
	add(unreferencedChainProgram())
	add(retainOnlyProgram())
	add(multiAliasProgram())
	return out
}

// multiAliasProgram: one stage called under several ids, with single binding
// expressions (array, typed-map and struct literals, a return value) that
// refer to the same output through more than one of those ids.
func multiAliasProgram() *progen.Program {
	p := progen.Dataflow(progen.DataflowParams{Kind: "int", Src: "gen", Size: 2, Cons: "add"})
	if p == nil {
		return nil
	}
	I := progen.IntT
	p.Structs = append(p.Structs, &progen.StructDecl{Name: "PAIR", Fields: []progen.Param{{T: I, Name: "l"}, {T: I, Name: "r"}}})
	p.Stages = append(p.Stages,
		&progen.Stage{Name: "TAKE", Fn: "LEN", Ins: []progen.Param{{T: progen.ArrayOf(I), Name: "c"}, {T: progen.TMapOf(I), Name: "m"}, {T: progen.StructT("PAIR"), Name: "pr"}},
			Outs: []progen.Param{{T: I, Name: "n"}}})
	top := p.Pipeline("TOP")
	top.Calls = append(top.Calls,
		&progen.Call{Callee: "ADD", Alias: "LEFT", Binds: []progen.Bind{{"a", progen.Self("n")}, {"b", progen.Lit(progen.Int(1))}}},
		&progen.Call{Callee: "ADD", Alias: "RIGHT", Binds: []progen.Bind{{"a", progen.Self("n")}, {"b", progen.Lit(progen.Int(2))}}},
		&progen.Call{Callee: "TAKE", Binds: []progen.Bind{
			{"c", progen.ArrE(progen.Ref("LEFT", "sum"), progen.Ref("RIGHT", "sum"), progen.Ref("LEFT", "sum"))},
			{"m", progen.MapE([]string{"l", "r"}, []*progen.Exp{progen.Ref("LEFT", "sum"), progen.Ref("RIGHT", "sum")})},
			{"pr", progen.StructE([]string{"l", "r"}, []*progen.Exp{progen.Ref("RIGHT", "sum"), progen.Ref("LEFT", "sum")})}}})
	top.Outs = append(top.Outs, progen.Param{T: progen.ArrayOf(I), Name: "both"}, progen.Param{T: I, Name: "taken"})
	top.Ret = append(top.Ret, progen.Bind{"both", progen.ArrE(progen.Ref("LEFT", "sum"), progen.Ref("RIGHT", "sum"))}, progen.Bind{"taken", progen.Ref("TAKE", "n")})
	p.Desc = "one-stage-under-several-ids"
	return p
}

// retainOnlyProgram: a call whose only use is the pipeline's retain list,
// next to a call nothing uses at all.
func retainOnlyProgram() *progen.Program {
	p := progen.Dataflow(progen.DataflowParams{Kind: "int", Src: "gen", Size: 2, Cons: "add"})
	if p == nil {
		return nil
	}
	p.Stages = append(p.Stages, &progen.Stage{Name: "DBG", Fn: "FILEW", Ins: []progen.Param{{T: progen.IntT, Name: "n"}},
		Outs: []progen.Param{{T: progen.FiletypeT("txt"), Name: "f"}, {T: progen.IntT, Name: "num"}}})
	top := p.Pipeline("TOP")
	top.Calls = append(top.Calls,
		&progen.Call{Callee: "DBG", Binds: []progen.Bind{{"n", progen.Self("n")}}},
		&progen.Call{Callee: "ADD", Alias: "SPARE", Binds: []progen.Bind{{"a", progen.Self("n")}, {"b", progen.Lit(progen.Int(1))}}})
	top.Retain = append(top.Retain, progen.Ref("DBG", "f"))
	p.Desc = "retain-only-call"
	return p
}

func wildcardProgram() *progen.Program {
	p := progen.Dataflow(progen.DataflowParams{Kind: "int", Src: "gen", Size: 2, Cons: "add"})
	if p == nil {
		return nil
	}
	// SUB(in int a, in int b) { call ADD(* = self) return (* = ADD) } ; TOP calls SUB(a = GEN.v, b = self.n)
	sub := &progen.Pipeline{Name: "SUB", Ins: []progen.Param{{T: progen.IntT, Name: "a"}, {T: progen.IntT, Name: "b"}},
		Outs:  []progen.Param{{T: progen.IntT, Name: "sum"}},
		Calls: []*progen.Call{{Callee: "ADD", Binds: []progen.Bind{{"*", progen.Self("")}}}},
		Ret:   []progen.Bind{{"*", progen.Ref("ADD")}}}
	top := p.Pipeline("TOP")
	top.Calls = append(top.Calls, &progen.Call{Callee: "SUB", Binds: []progen.Bind{{"a", progen.Ref("GEN", "v")}, {"b", progen.Self("n")}}})
	top.Outs = append(top.Outs, progen.Param{T: progen.StructT("SUB"), Name: "whole"}, progen.Param{T: progen.IntT, Name: "wsum"})
	top.Ret = append(top.Ret, progen.Bind{"whole", progen.Ref("SUB")}, progen.Bind{"wsum", progen.Ref("SUB", "sum")})
	p.Pipelines = append([]*progen.Pipeline{sub}, p.Pipelines...)
	p.Desc = "wildcard-bindings"
	return p
}

// wildcardStructProgram: wildcards over a struct-typed output of a call, a
// struct-typed pipeline input, the whole of a call next to an explicit
// binding, and a sub-pipeline handing everything through with wildcards.
func wildcardStructProgram() *progen.Program {
	p := progen.Dataflow(progen.DataflowParams{Kind: "int", Src: "gen", Size: 2, Cons: "add"})
	if p == nil {
		return nil
	}
	I := progen.IntT
	P := progen.StructT("PAIRAB")
	p.Structs = append(p.Structs, &progen.StructDecl{Name: "PAIRAB", Fields: []progen.Param{{T: I, Name: "a"}, {T: I, Name: "b"}}})
	p.Stages = append(p.Stages, &progen.Stage{Name: "MKP", Fn: "GEN", Ins: []progen.Param{{T: I, Name: "n"}},
		Outs: []progen.Param{{T: P, Name: "p"}, {T: I, Name: "a"}, {T: I, Name: "b"}}},
		&progen.Stage{Name: "ADDK", Fn: "ADD", Ins: []progen.Param{{T: I, Name: "a"}, {T: I, Name: "b"}, {T: I, Name: "k"}},
			Outs: []progen.Param{{T: I, Name: "sum"}}})
	inner := &progen.Pipeline{Name: "INNER", Ins: []progen.Param{{T: P, Name: "s"}, {T: I, Name: "a"}},
		Outs: []progen.Param{{T: I, Name: "sum"}, {T: I, Name: "sum2"}, {T: I, Name: "sum3"}},
		Calls: []*progen.Call{
			{Callee: "MKP", Binds: []progen.Bind{{"n", progen.Self("a")}}},
			{Callee: "ADD", Alias: "ADD1", Binds: []progen.Bind{{"*", progen.Ref("MKP", "p")}}},
			{Callee: "ADD", Alias: "ADD2", Binds: []progen.Bind{{"*", progen.Self("s")}}},
			{Callee: "ADDK", Alias: "ADD3", Binds: []progen.Bind{{"k", progen.Lit(progen.Int(5))}, {"*", progen.Ref("MKP")}}},
		},
		Ret: []progen.Bind{{"sum", progen.Ref("ADD1", "sum")}, {"sum2", progen.Ref("ADD2", "sum")}, {"sum3", progen.Ref("ADD3", "sum")}}}
	outer := &progen.Pipeline{Name: "OUTER", Ins: []progen.Param{{T: P, Name: "s"}, {T: I, Name: "a"}},
		Outs:  []progen.Param{{T: I, Name: "sum"}, {T: I, Name: "sum2"}, {T: I, Name: "sum3"}},
		Calls: []*progen.Call{{Callee: "INNER", Binds: []progen.Bind{{"*", progen.Self("")}}}},
		Ret:   []progen.Bind{{"*", progen.Ref("INNER")}}}
	top := p.Pipeline("TOP")
	top.Calls = append(top.Calls, &progen.Call{Callee: "OUTER", Binds: []progen.Bind{
		{"s", progen.StructE([]string{"a", "b"}, []*progen.Exp{progen.Lit(progen.Int(1)), progen.Self("n")})},
		{"a", progen.Ref("GEN", "v")}}})
	top.Outs = append(top.Outs, progen.Param{T: progen.StructT("OUTER"), Name: "wo"}, progen.Param{T: I, Name: "w3"})
	top.Ret = append(top.Ret, progen.Bind{"wo", progen.Ref("OUTER")}, progen.Bind{"w3", progen.Ref("OUTER", "sum3")})
	p.Pipelines = append([]*progen.Pipeline{inner, outer}, p.Pipelines...)
	p.Desc = "wildcard-struct-refs"
	return p
}

// wildcardTouched lists the (callable, parameter) pairs of a compiled
// program which some wildcard binding supplies or consumes: the inputs of a
// callee the wildcard binds, the inputs of the enclosing pipeline a
// '* = self' uses, the outputs of the call a '* = CALL' takes, and the
// outputs of a pipeline whose return uses a wildcard.
func wildcardTouched(ast *syntax.Ast) map[string]bool {
	t := map[string]bool{}
	for _, pipe := range ast.Pipelines {
		dec := map[string]string{}
		for _, c := range pipe.Calls {
			dec[c.Id] = c.DecId
		}
		visit := func(bs *syntax.BindStms, callee string) {
			if bs == nil {
				return
			}
			at := -1
			for i, b := range bs.List {
				if b.Id == "*" {
					at = i
					break
				}
			}
			if at < 0 {
				return
			}
			ref, ok := bs.List[at].Exp.(*syntax.RefExp)
			if !ok {
				return
			}
			for _, fb := range bs.List[at+1:] {
				if callee != "" {
					t["in:"+callee+"."+fb.Id] = true
				} else {
					t["out:"+pipe.Id+"."+fb.Id] = true
				}
				if ref.Kind == syntax.KindSelf && ref.Id == "" {
					t["in:"+pipe.Id+"."+fb.Id] = true
				} else if ref.Kind == syntax.KindCall && ref.OutputId == "" {
					t["out:"+dec[ref.Id]+"."+fb.Id] = true
				}
			}
		}
		for _, c := range pipe.Calls {
			visit(c.Bindings, c.DecId)
		}
		if pipe.Ret != nil {
			visit(pipe.Ret.Bindings, "")
		}
	}
	return t
}

// unreferencedChainProgram: an output that is only used inside a pipeline
// which itself has no outputs (so nothing refers to that pipeline), reached
// through two pass-through levels; and a pipeline input typed as the output
// struct of a stage, projected inside (self.foo.sum).
func unreferencedChainProgram() *progen.Program {
	p := progen.Dataflow(progen.DataflowParams{Kind: "int", Src: "gen", Size: 2, Cons: "add"})
	if p == nil {
		return nil
	}
	I := progen.IntT
	p.Stages = append(p.Stages, &progen.Stage{Name: "USE", Fn: "PRE", Ins: []progen.Param{{T: I, Name: "c"}}})
	inner := &progen.Pipeline{Name: "INNER", Ins: []progen.Param{{T: I, Name: "a"}}, Outs: []progen.Param{{T: I, Name: "o"}},
		Calls: []*progen.Call{{Callee: "ADD", Binds: []progen.Bind{{"a", progen.Self("a")}, {"b", progen.Lit(progen.Int(1))}}}},
		Ret:   []progen.Bind{{"o", progen.Ref("ADD", "sum")}}}
	wrap := &progen.Pipeline{Name: "WRAP", Ins: []progen.Param{{T: I, Name: "a"}}, Outs: []progen.Param{{T: I, Name: "o"}},
		Calls: []*progen.Call{{Callee: "INNER", Binds: []progen.Bind{{"a", progen.Self("a")}}}},
		Ret:   []progen.Bind{{"o", progen.Ref("INNER", "o")}}}
	mid := &progen.Pipeline{Name: "MID", Ins: []progen.Param{{T: I, Name: "a"}},
		Calls: []*progen.Call{
			{Callee: "WRAP", Binds: []progen.Bind{{"a", progen.Self("a")}}},
			{Callee: "USE", Binds: []progen.Bind{{"c", progen.Ref("WRAP", "o")}}}}}
	// a pipeline taking the output struct of ADD and projecting a member
	proj := &progen.Pipeline{Name: "PROJ", Ins: []progen.Param{{T: progen.StructT("ADD"), Name: "foo"}}, Outs: []progen.Param{{T: I, Name: "r"}},
		Calls: []*progen.Call{{Callee: "ADD", Alias: "AGAIN", Binds: []progen.Bind{{"a", progen.Self("foo", "sum")}, {"b", progen.Lit(progen.Int(2))}}}},
		Ret:   []progen.Bind{{"r", progen.Ref("AGAIN", "sum")}}}
	top := p.Pipeline("TOP")
	top.Calls = append(top.Calls,
		&progen.Call{Callee: "MID", Binds: []progen.Bind{{"a", progen.Self("n")}}},
		&progen.Call{Callee: "PROJ", Binds: []progen.Bind{{"foo", progen.Ref("ADD")}}})
	top.Outs = append(top.Outs, progen.Param{T: I, Name: "pr"})
	top.Ret = append(top.Ret, progen.Bind{"pr", progen.Ref("PROJ", "r")})
	p.Pipelines = append([]*progen.Pipeline{inner, wrap, mid, proj}, p.Pipelines...)
	p.Desc = "unreferenced-chain-and-callable-struct-input"
	return p
}

func compile(src string) (*syntax.Ast, error) {
	_, _, ast, err := syntax.ParseSourceBytes([]byte(src), "prog.mro", nil, false)
	return ast, err
}

func graphJSON(ast *syntax.Ast) (interface{}, string, error) {
	if ast.Call == nil {
		return nil, "", fmt.Errorf("no call")
	}
	g, err := ast.MakeCallGraph("", ast.Call)
	if err != nil {
		return nil, "", err
	}
	var dest bytes.Buffer
	enc := json.NewEncoder(&dest)
	enc.SetEscapeHTML(false)
	enc.SetIndent("", " ")
	if err := enc.Encode(g); err != nil {
		return nil, "", err
	}
	var v interface{}
	dec := json.NewDecoder(bytes.NewReader(dest.Bytes()))
	dec.UseNumber()
	if err := dec.Decode(&v); err != nil {
		return nil, "", err
	}
	return v, dest.String(), nil
}

// applyEdit does what cmd/mro/edit does for one file.
func applyEdit(src string, conf refactoring.RefactorConfig) (string, int, error) {
	ast, err := compile(src)
	if err != nil {
		return "", 0, fmt.Errorf("original does not compile: %w", err)
	}
	edit, err := refactoring.Refactor([]*syntax.Ast{ast}, conf)
	if err != nil {
		return "", 0, fmt.Errorf("refactor: %w", err)
	}
	if edit == nil {
		return src, 0, nil
	}
	var parser syntax.Parser
	u, err := parser.UncheckedParse([]byte(src), "prog.mro")
	if err != nil {
		return "", 0, err
	}
	n, err := edit.Apply(u)
	if err != nil {
		return "", n, fmt.Errorf("apply: %w", err)
	}
	return u.Format(), n, nil
}

func wordReplace(s, from, to string) string {
	re := regexp.MustCompile(`(^|[^A-Za-z0-9_])` + regexp.QuoteMeta(from) + `($|[^A-Za-z0-9_])`)
	for i := 0; i < 3; i++ { // overlapping matches
		s = re.ReplaceAllString(s, "${1}"+to+"${2}")
	}
	return s
}

// walk the graph: nodes by fqid
func nodes(v interface{}, out map[string]map[string]interface{}) {
	m, ok := v.(map[string]interface{})
	if !ok {
		return
	}
	if fq, ok := m["fqid"].(string); ok {
		out[fq] = m
	}
	if ch, ok := m["children"].([]interface{}); ok {
		for _, c := range ch {
			nodes(c, out)
		}
	}
}

func jsonText(v interface{}) string {
	b, _ := json.Marshal(v)
	return string(b)
}

// fqids of graph nodes whose callable is named name
func fqidsOf(ast *syntax.Ast, name string) map[string]bool {
	out := map[string]bool{}
	g, err := ast.MakeCallGraph("", ast.Call)
	if err != nil {
		return out
	}
	var rec func(n syntax.CallGraphNode)
	rec = func(n syntax.CallGraphNode) {
		if n.Callable().GetId() == name {
			out[n.GetFqid()] = true
		}
		for _, c := range n.GetChildren() {
			rec(c)
		}
	}
	rec(g)
	return out
}

func evalCase(c Case, progs []*progen.Program) (fs []ev.Finding, note string) {
	p := progs[c.Prog]
	src := p.MRO()
	orig, err := compile(src)
	if err != nil {
		return nil, "original-does-not-compile: " + err.Error()
	}
	_, origText, err := graphJSON(orig)
	if err != nil {
		return nil, "original-graph-error"
	}
	desc := fmt.Sprintf("program %d (%s) %s %s.%s -> %s", c.Prog, p.Desc, c.Edit, c.Target, c.Param, c.New)
	report := func(kind, what string, edited string) {
		fs = append(fs, ev.Finding{Sig: "C19:" + c.Edit + ":" + kind, What: desc + ": " + what + "\n--- edit result (changed lines) ---\n" + ev.Short(diffLines(src, edited), 1200), Case: c})
	}
	defer func() {
		if r := recover(); r != nil {
			fs = append(fs, ev.Finding{Sig: "C19:" + c.Edit + ":panic", What: desc + fmt.Sprintf(": panic: %v", r), Case: c})
		}
	}()
	var conf refactoring.RefactorConfig
	switch c.Edit {
	case "rename-callable", "rename-collide", "rename-roundtrip":
		conf.Rename = []refactoring.Rename{{Callable: c.Target, NewName: c.New}}
	case "rename-input":
		conf.RenameInParam = []refactoring.RenameParam{{CallableParam: refactoring.CallableParam{Callable: c.Target, Param: c.Param}, NewName: c.New}}
	case "rename-output":
		conf.RenameOutParam = []refactoring.RenameParam{{CallableParam: refactoring.CallableParam{Callable: c.Target, Param: c.Param}, NewName: c.New}}
	case "remove-input":
		conf.RemoveInParams = []refactoring.CallableParam{{Callable: c.Target, Param: c.Param}}
	case "remove-output":
		conf.RemoveOutParams = []refactoring.CallableParam{{Callable: c.Target, Param: c.Param}}
	case "remove-unused-outputs":
		conf.TopCalls = refactoring.StringSet{p.Top.Callee: struct{}{}}
	case "remove-unused-calls":
		conf.RemoveCalls = true
	case "remove-unused-both":
		conf.RemoveCalls = true
		conf.TopCalls = refactoring.StringSet{p.Top.Callee: struct{}{}}
	}
	edited, n, err := applyEdit(src, conf)
	if err != nil {
		if strings.HasPrefix(err.Error(), "refactor:") {
			return nil, "refused: " + err.Error()
		}
		report("apply-error", err.Error(), src)
		return fs, ""
	}
	if n == 0 || edited == "" {
		return nil, "no-change"
	}
	east, err := compile(edited)
	if err != nil {
		if c.Edit == "remove-input" && strings.Contains(err.Error(), "UnusedInputError") {
			// the removed binding was the only use of an enclosing pipeline's
			// input: whether the tool must cascade is not stated
			return nil, "unspecified: enclosing pipeline input became unused"
		}
		kind := "result-does-not-compile"
		dir := "in:"
		if strings.HasSuffix(c.Edit, "-output") {
			dir = "out:"
		}
		switch {
		case c.Param != "" && wildcardTouched(orig)[dir+c.Target+"."+c.Param]:
			kind += ":parameter-bound-through-wildcard"
		case c.Edit == "remove-input" && regexp.MustCompile(`map call `+c.Target+`( as \w+)?\(\s*`+c.Param+`\s+= split`).MatchString(src):
			kind += ":split-argument-of-map-call-removed"
		case strings.Contains(err.Error(), "RetainParamError"):
			kind += ":stage-retain-not-renamed"
		case strings.Contains(err.Error(), "is not a valid parameter") && strings.Contains(err.Error(), "no argument supplied"):
			kind += ":call-argument-renamed-with-output"
		}
		report(kind, ev.Short(err.Error(), 300), edited)
		return fs, ""
	}
	eg, etext, err := graphJSON(east)
	if err != nil {
		report("result-graph-error", err.Error(), edited)
		return fs, ""
	}
	switch c.Edit {
	case "rename-callable", "rename-input", "rename-output":
		back := normJSON(wordReplace(etext, c.New, renameBack(c)))
		if want := normJSON(origText); back != want {
			report("graph-changed", "the resolved call graph differs beyond the renamed identifier:\n"+firstDiff(want, back), edited)
		}
	case "rename-collide":
		// the new name is an existing call id: either the call keeps its id
		// through an alias (graph identical) or ids are renamed consistently
		if normJSON(etext) != normJSON(origText) && normJSON(wordReplace(etext, c.New, c.Target)) != normJSON(wordReplace(origText, c.New, c.Target)) {
			report("graph-changed", "the resolved call graph differs after renaming to a name that collides with an existing call id:\n"+firstDiff(origText, etext), edited)
		}
	case "rename-roundtrip":
		conf2 := refactoring.RefactorConfig{Rename: []refactoring.Rename{{Callable: c.New, NewName: c.Target}}}
		back, _, err := applyEdit(edited, conf2)
		if err != nil {
			report("roundtrip-error", err.Error(), edited)
			break
		}
		var parser syntax.Parser
		a1, e1 := parser.UncheckedParse([]byte(src), "prog.mro")
		a2, e2 := parser.UncheckedParse([]byte(back), "prog.mro")
		if e1 != nil || e2 != nil {
			report("roundtrip-unparseable", fmt.Sprint(e1, e2), back)
		} else if astcanon.Canon(a1) != astcanon.Canon(a2) {
			report("roundtrip-differs", "renaming X->Y->X does not restore the program:\n"+firstDiff(astcanon.Canon(a1), astcanon.Canon(a2)), back)
		}
	case "remove-input":
		targets := fqidsOf(orig, c.Target)
		on := map[string]map[string]interface{}{}
		var ov interface{}
		json.Unmarshal([]byte(origText), &ov)
		nodes(ov, on)
		for fq := range targets {
			if ins, ok := on[fq]["inputs"].(map[string]interface{}); ok {
				delete(ins, c.Param)
			}
		}
		en := map[string]map[string]interface{}{}
		nodes(eg, en)
		for k, o := range on {
			e, ok := en[k]
			if !ok {
				report("graph-changed", "node "+k+" disappeared after removing an input", edited)
				continue
			}
			if d := inputsSubset(o["inputs"], e["inputs"]); d != "" {
				report("graph-changed", "inputs of "+k+": "+d, edited)
			}
			if targets[k] {
				if em, _ := e["inputs"].(map[string]interface{}); em != nil {
					if _, still := em[c.Param]; still {
						report("graph-changed", "node "+k+" still has the removed input", edited)
					}
				}
			}
			if pretty(normEmpty(o["outputs"])) != pretty(normEmpty(e["outputs"])) {
				report("graph-changed", "outputs of "+k+" changed:\n"+firstDiff(pretty(o["outputs"]), pretty(e["outputs"])), edited)
			}
		}
	case "remove-output", "remove-unused-outputs", "remove-unused-calls", "remove-unused-both":
		on := map[string]map[string]interface{}{}
		en := map[string]map[string]interface{}{}
		var ov interface{}
		json.Unmarshal([]byte(origText), &ov)
		nodes(ov, on)
		nodes(eg, en)
		// every remaining node has the inputs it had
		var fq []string
		for k := range en {
			fq = append(fq, k)
		}
		sort.Strings(fq)
		for _, k := range fq {
			o, ok := on[k]
			if !ok {
				report("graph-changed", "node "+k+" appears after the removal edit", edited)
				continue
			}
			if d := inputsSubset(o["inputs"], en[k]["inputs"]); d != "" {
				report("graph-changed", "inputs of "+k+": "+d, edited)
			}
			if jsonText(o["disabled"]) != jsonText(en[k]["disabled"]) {
				report("graph-changed", "disabled bindings of "+k+" changed", edited)
			}
		}
		// the top-level outputs are untouched
		top := p.Top.Callee
		if c.Edit != "remove-output" || c.Target != top {
			if jsonText(on[top]["outputs"]) != jsonText(en[top]["outputs"]) {
				report("graph-changed", "the top-level outputs changed:\n"+firstDiff(pretty(on[top]["outputs"]), pretty(en[top]["outputs"])), edited)
			}
		}
		// removed nodes were unused: nothing that remains refers to them
		remaining := jsonTextOfRemaining(en)
		for k := range on {
			if _, ok := en[k]; !ok {
				if strings.Contains(remaining, `"`+k+`.`) {
					report("used-call-removed", "node "+k+" was removed although remaining bindings refer to it", edited)
				}
			}
		}
	}
	return fs, ""
}

// normJSON parses JSON text and re-renders it canonically (sorted keys,
// empty objects/arrays and null identified).
func normJSON(text string) string {
	var v interface{}
	dec := json.NewDecoder(strings.NewReader(text))
	dec.UseNumber()
	if err := dec.Decode(&v); err != nil {
		return text
	}
	return pretty(normEmpty(v))
}

func normEmpty(v interface{}) interface{} {
	switch x := v.(type) {
	case map[string]interface{}:
		if len(x) == 0 {
			return nil
		}
		for k, e := range x {
			x[k] = normEmpty(e)
		}
	case []interface{}:
		for i, e := range x {
			x[i] = normEmpty(e)
		}
	}
	return v
}

// inputsSubset: every input binding the edited node has, the original node
// had with the same value (inputs may disappear when they became unused).
func inputsSubset(orig, edited interface{}) string {
	om, _ := normEmpty(orig).(map[string]interface{})
	em, _ := normEmpty(edited).(map[string]interface{})
	for k, v := range em {
		ov, ok := om[k]
		if !ok {
			return "input " + k + " appeared"
		}
		if pretty(ov) != pretty(v) {
			return "input " + k + " changed:\n" + firstDiff(pretty(ov), pretty(v))
		}
	}
	return ""
}

func renameBack(c Case) string {
	if c.Edit == "rename-callable" {
		return c.Target
	}
	return c.Param
}

func jsonTextOfRemaining(en map[string]map[string]interface{}) string {
	var b strings.Builder
	for _, n := range en {
		b.WriteString(jsonText(n["inputs"]))
		b.WriteString(jsonText(n["disabled"]))
	}
	return b.String()
}

func pretty(v interface{}) string {
	b, _ := json.MarshalIndent(v, "", " ")
	return string(b)
}

func firstLine(s string) string {
	if i := strings.IndexByte(s, '\n'); i >= 0 {
		return s[:i]
	}
	return s
}

func firstDiff(a, b string) string {
	al, bl := strings.Split(a, "\n"), strings.Split(b, "\n")
	for i := 0; i < len(al) && i < len(bl); i++ {
		if al[i] != bl[i] {
			return fmt.Sprintf("  line %d:\n   original: %s\n   edited  : %s", i+1, ev.Short(al[i], 200), ev.Short(bl[i], 200))
		}
	}
	return fmt.Sprintf("  lengths differ: %d vs %d lines", len(al), len(bl))
}

func diffLines(a, b string) string {
	inA, inB := map[string]int{}, map[string]int{}
	for _, l := range strings.Split(a, "\n") {
		inA[strings.TrimSpace(l)]++
	}
	for _, l := range strings.Split(b, "\n") {
		inB[strings.TrimSpace(l)]++
	}
	var out []string
	for _, l := range strings.Split(a, "\n") {
		if inB[strings.TrimSpace(l)] == 0 {
			out = append(out, "- "+l)
		}
	}
	for _, l := range strings.Split(b, "\n") {
		if inA[strings.TrimSpace(l)] == 0 {
			out = append(out, "+ "+l)
		}
	}
	return strings.Join(out, "\n")
}

func main() {
	r := ev.New("C19", "exploration")
	r.SetBudget(90*time.Second, 15*time.Minute)
	progs := programs()
	if r.ReplayPath != "" {
		var c Case
		if err := ev.LoadReplay(r.ReplayPath, &c); err != nil {
			fmt.Println(err)
			os.Exit(2)
		}
		r.Eval("replay")
		r.Sample(c)
		fs, note := evalCase(c, progs)
		fmt.Println("note:", note)
		for _, f := range fs {
			r.Report(f)
		}
		r.Finish()
	}
	var cases []Case
	for pi, p := range progs {
		if _, err := compile(p.MRO()); err != nil {
			// a corpus program the compiler refuses exercises no edit at all
			r.Inconclusive(fmt.Sprintf("program %d (%s) of the corpus does not compile: %s", pi, p.Desc, ev.Short(err.Error(), 200)))
		}
		callables := map[string]bool{}
		for _, s := range p.Stages {
			callables[s.Name] = true
		}
		for _, pl := range p.Pipelines {
			callables[pl.Name] = true
		}
		// call ids (aliases) for collision renames
		ids := map[string]bool{}
		for _, pl := range p.Pipelines {
			for _, c := range pl.Calls {
				if c.Alias != "" && !callables[c.Alias] {
					ids[c.Alias] = true
				}
			}
		}
		var names []string
		for n := range callables {
			names = append(names, n)
		}
		sort.Strings(names)
		for _, n := range names {
			cases = append(cases, Case{Prog: pi, Edit: "rename-callable", Target: n, New: n + "_ZZRENAMED"})
			cases = append(cases, Case{Prog: pi, Edit: "rename-roundtrip", Target: n, New: n + "_ZZTMP"})
			for id := range ids {
				if p.Struct(id) != nil {
					continue // a call id that is also a struct name cannot name a callable
				}
				cases = append(cases, Case{Prog: pi, Edit: "rename-collide", Target: n, New: id})
			}
		}
		text := p.MRO()
		params := func(name string, ins, outs []progen.Param, isStage bool) {
			for _, in := range ins {
				cases = append(cases, Case{Prog: pi, Edit: "rename-input", Target: name, Param: in.Name, New: in.Name + "_zzrenamed"})
				if isStage {
					cases = append(cases, Case{Prog: pi, Edit: "remove-input", Target: name, Param: in.Name})
				}
			}
			for _, o := range outs {
				cases = append(cases, Case{Prog: pi, Edit: "rename-output", Target: name, Param: o.Name, New: o.Name + "_zzrenamed"})
				// renaming to a name that extends / is extended by a sibling output
				cases = append(cases, Case{Prog: pi, Edit: "rename-output", Target: name, Param: o.Name, New: "zz" + o.Name})
				// removal only of outputs nothing refers to
				used := name == p.Top.Callee
				for _, pl := range p.Pipelines {
					for _, c := range pl.Calls {
						if c.Callee == name && (regexp.MustCompile(`\b`+c.Id()+`\.`+o.Name+`\b`).MatchString(text) ||
							regexp.MustCompile(`[=*]\s*`+c.Id()+`\s*,`).MatchString(text)) {
							used = true
						}
					}
				}
				for _, st := range p.Stages {
					if st.Name == name {
						for _, rt := range st.Retain {
							if rt == o.Name {
								used = true
							}
						}
					}
				}
				if !used {
					cases = append(cases, Case{Prog: pi, Edit: "remove-output", Target: name, Param: o.Name})
				}
			}
		}
		for _, s := range p.Stages {
			params(s.Name, s.Ins, s.Outs, true)
		}
		for _, pl := range p.Pipelines {
			params(pl.Name, pl.Ins, pl.Outs, false)
		}
		cases = append(cases, Case{Prog: pi, Edit: "remove-unused-outputs"}, Case{Prog: pi, Edit: "remove-unused-calls"}, Case{Prog: pi, Edit: "remove-unused-both"})
	}
	r.Rule = fmt.Sprintf("%d programs (nested sub-pipelines, map calls, split stage, struct narrowing, projections, aliases, nested disabled modifiers, retains, wildcard bindings over self / a call / a struct-typed output / a struct-typed input with and without explicit bindings next to them and handed through two pipeline levels, a pipeline's name used as a struct type, stage outputs whose names are prefixes of each other) x EVERY callable renamed (fresh name, colliding with each aliased call id, and X->Y->X), every input/output parameter renamed (two new names) and removed, plus remove-unused-outputs / remove-unused-calls / both; applied as cmd/mro/edit does (Refactor on compiled trees, Apply on the unchecked tree, Format); "+
		"oracle: result compiles; serialized call graph equal after inverse renaming; for removals the remaining nodes' inputs/disabled bindings and the top-level outputs unchanged and no removed node still referenced; X->Y->X restores the canonical tree. distinct = distinct (program, edit, target); non-trivial = the edit changed the text", len(progs))
	r.Set("cases", len(cases))
	order := r.Rotate(len(cases))
	ev.ParallelFor(len(cases), func(i int) bool {
		c := cases[order[i]]
		fs, note := evalCase(c, progs)
		if note != "" {
			r.Eval("")
			r.Outcome("skipped:" + strings.SplitN(note, ":", 2)[0])
			return true
		}
		r.Eval(fmt.Sprintf("%d|%s|%s|%s|%s", c.Prog, c.Edit, c.Target, c.Param, c.New))
		if len(fs) == 0 {
			r.Outcome("ok:" + c.Edit)
		}
		for _, f := range fs {
			r.Outcome("violation:" + c.Edit)
			r.Report(f)
		}
		if i%71 == 0 {
			r.Sample(c)
		}
		return !r.Expired("edit enumeration")
	})
	r.Finish()
}
