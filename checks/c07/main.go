//go:build verif

// C07: accepted programs are type-safe at run time; ill-typed bindings are
// rejected.  All ordered pairs (S, D) of a type universe placed in each
// binding context; accepted programs are executed at the strictest
// enforcement level with three conforming output valuations and every
// delivered argument is validated by the reference validator; pairs the
// reference relation decides as not convertible must be rejected with an
// error located at the binding.
package main

import (
	"fmt"
	"os"
	"regexp"
	"strconv"
	"strings"
	"time"

	"github.com/martian-lang/martian/martian/core"
	"github.com/martian-lang/martian/martian/syntax"

	"verif/lib/ev"
	"verif/lib/progen"
	"verif/lib/psx"
)

type Case struct {
	S, D    string
	Context string
}

var (
	txt = progen.FiletypeT("txt")
	bam = progen.FiletypeT("bam")
	tA  = progen.StructT("A")
	tB  = progen.StructT("B")
	tW  = progen.StructT("W")
	// D: members of one base type at different array depths
	tD = progen.StructT("D")
)

func baseTypes() []*progen.T {
	return []*progen.T{progen.IntT, progen.FloatT, progen.StringT, progen.BoolT, progen.MapT, progen.FileT, progen.PathT, txt, bam, tA, tB, tD}
}

func baseOf(t *progen.T) *progen.T {
	for t.K == progen.TArray || t.K == progen.TTMap {
		t = t.Elem
	}
	return t
}

func universe() []*progen.T {
	var out []*progen.T
	for _, b := range baseTypes() {
		out = append(out, b, progen.ArrayOf(b), progen.ArrayOf(progen.ArrayOf(b)))
		if b.K != progen.TMap {
			out = append(out, progen.TMapOf(b), progen.TMapOf(progen.ArrayOf(b)), progen.ArrayOf(progen.TMapOf(b)))
		}
		if b.K == progen.TInt {
			// deeper nestings for one base type: depth mismatches below a map or an array of maps
			out = append(out, progen.TMapOf(progen.ArrayOf(progen.ArrayOf(b))), progen.ArrayOf(progen.ArrayOf(progen.ArrayOf(b))),
				progen.ArrayOf(progen.TMapOf(progen.ArrayOf(b))))
		}
	}
	return out
}

func newProgram() *progen.Program {
	p := &progen.Program{Filetypes: []string{"txt", "bam"}}
	p.Structs = []*progen.StructDecl{
		{Name: "B", Fields: []progen.Param{{T: progen.IntT, Name: "x"}}},
		{Name: "A", Fields: []progen.Param{{T: progen.IntT, Name: "x"}, {T: progen.StringT, Name: "s"}, {T: progen.ArrayOf(progen.IntT), Name: "v"}}},
		{Name: "D", Fields: []progen.Param{{T: progen.IntT, Name: "x"}, {T: progen.ArrayOf(progen.IntT), Name: "v"}}},
	}
	return p
}

// rel is the reference convertibility relation D <- S: 1 yes, 0 no, -1 undecided.
func rel(p *progen.Program, d, s *progen.T) int {
	stringy := func(t *progen.T) bool {
		return t.K == progen.TString || t.K == progen.TFile || t.K == progen.TPath || t.K == progen.TFiletype
	}
	switch {
	case d.K == progen.TArray || s.K == progen.TArray:
		if d.K == progen.TArray && s.K == progen.TArray {
			return rel(p, d.Elem, s.Elem)
		}
		return 0 // array depth / array versus scalar or map
	case d.K == progen.TTMap:
		if s.K == progen.TTMap {
			return rel(p, d.Elem, s.Elem)
		}
		if s.K == progen.TMap || s.K == progen.TStruct {
			return -1
		}
		return 0
	case s.K == progen.TTMap:
		if d.K == progen.TMap {
			return -1 // not among the conversions the statement lists
		}
		return 0
	case d.K == s.K && d.Name == s.Name && d.K != progen.TStruct:
		return 1
	case d.K == progen.TFloat && s.K == progen.TInt:
		return 1
	case stringy(d) && stringy(s):
		if s.K == progen.TString || (d.K == progen.TString && s.K == progen.TFiletype) {
			return 1
		}
		if d.K == progen.TString {
			return -1 // builtin file/path to string: "file types" read as user file types
		}
		if s.K == progen.TFiletype && d.K == progen.TFile {
			return 1
		}
		return -1
	case d.K == progen.TMap:
		if s.K == progen.TStruct || s.K == progen.TMap {
			return 1
		}
		return 0
	case d.K == progen.TStruct && s.K == progen.TStruct:
		ds, ss := p.Struct(d.Name), p.Struct(s.Name)
		res := 1
		for _, f := range ds.Fields {
			found := false
			for _, g := range ss.Fields {
				if g.Name == f.Name {
					found = true
					switch rel(p, f.T, g.T) {
					case 0:
						return 0
					case -1:
						res = -1
					}
				}
			}
			if !found {
				return 0
			}
		}
		return res
	case d.K == progen.TStruct && s.K == progen.TMap:
		return -1
	}
	return 0
}

var contexts = []string{"stage-out", "literal", "pipeline-input", "return", "projection", "projection-array", "projection-map", "split-array", "split-map", "wildcard"}

// build returns the program for (S, D) in a context and the 1-based line
// range of the offending binding's call (for locating errors).
func build(s, d *progen.T, ctx string) (*progen.Program, *progen.T) {
	p, eff := build0(s, d, ctx)
	return p, eff
}

func validT(t *progen.T) bool {
	if !t.Valid() {
		return false
	}
	for x := t; x != nil; x = x.Elem {
		if x.K == progen.TTMap {
			b := x.Elem
			for b.K == progen.TArray {
				b = b.Elem
			}
			if b.K == progen.TMap || b.K == progen.TTMap {
				return false
			}
		}
	}
	return true
}

func build0(s, d *progen.T, ctx string) (*progen.Program, *progen.T) {
	p := newProgram()
	eff := s
	gen := func(name string, outs ...progen.Param) *progen.Stage {
		st := &progen.Stage{Name: name, Fn: "GENV", Ins: []progen.Param{{T: progen.IntT, Name: "mode"}}, Outs: outs}
		p.Stages = append(p.Stages, st)
		return st
	}
	cons := &progen.Stage{Name: "CONS", Fn: "LEN", Ins: []progen.Param{{T: d, Name: "x"}}, Outs: []progen.Param{{T: progen.IntT, Name: "n"}}}
	top := &progen.Pipeline{Name: "TOP", Ins: []progen.Param{{T: progen.IntT, Name: "mode"}}}
	topCall := &progen.Call{Callee: "TOP", Binds: []progen.Bind{{"mode", progen.Lit(progen.Int(0))}}}
	genCall := func(st *progen.Stage) *progen.Call {
		return &progen.Call{Callee: st.Name, Binds: []progen.Bind{{"mode", progen.Self("mode")}}}
	}
	ret := func(e *progen.Exp) {
		top.Outs = append(top.Outs, progen.Param{T: progen.IntT, Name: "n"})
		top.Ret = append(top.Ret, progen.Bind{"n", e})
	}
	switch ctx {
	case "stage-out":
		p.Stages = append(p.Stages, cons)
		g := gen("GENS", progen.Param{T: s, Name: "o"})
		top.Calls = append(top.Calls, genCall(g), &progen.Call{Callee: "CONS", Binds: []progen.Bind{{"x", progen.Ref("GENS", "o")}}})
		ret(progen.Ref("CONS", "n"))
	case "literal":
		p.Stages = append(p.Stages, cons)
		v := progen.GenVariant(p, s, 0, "lit")
		top.Calls = append(top.Calls, &progen.Call{Callee: "CONS", Binds: []progen.Bind{{"x", progen.TLit(p, v, s)}}})
		ret(progen.Ref("CONS", "n"))
	case "pipeline-input":
		p.Stages = append(p.Stages, cons)
		g := gen("GENS", progen.Param{T: s, Name: "o"})
		sub := &progen.Pipeline{Name: "SUB", Ins: []progen.Param{{T: s, Name: "p"}}, Outs: []progen.Param{{T: progen.IntT, Name: "n"}},
			Calls: []*progen.Call{{Callee: "CONS", Binds: []progen.Bind{{"x", progen.Self("p")}}}},
			Ret:   []progen.Bind{{"n", progen.Ref("CONS", "n")}}}
		p.Pipelines = append(p.Pipelines, sub)
		top.Calls = append(top.Calls, genCall(g), &progen.Call{Callee: "SUB", Binds: []progen.Bind{{"p", progen.Ref("GENS", "o")}}})
		ret(progen.Ref("SUB", "n"))
	case "return":
		g := gen("GENS", progen.Param{T: s, Name: "o"})
		sub := &progen.Pipeline{Name: "SUB", Ins: []progen.Param{{T: progen.IntT, Name: "mode"}}, Outs: []progen.Param{{T: d, Name: "r"}},
			Calls: []*progen.Call{genCall(g)}, Ret: []progen.Bind{{"r", progen.Ref("GENS", "o")}}}
		p.Pipelines = append(p.Pipelines, sub)
		p.Stages = append(p.Stages, cons)
		top.Calls = append(top.Calls, &progen.Call{Callee: "SUB", Binds: []progen.Bind{{"mode", progen.Self("mode")}}},
			&progen.Call{Callee: "CONS", Binds: []progen.Bind{{"x", progen.Ref("SUB", "r")}}})
		ret(progen.Ref("CONS", "n"))
	case "projection", "projection-array", "projection-map":
		p.Structs = append(p.Structs, &progen.StructDecl{Name: "W", Fields: []progen.Param{{T: progen.IntT, Name: "k"}, {T: s, Name: "f"}}})
		var wt *progen.T = tW
		src := s
		switch ctx {
		case "projection-array":
			wt = progen.ArrayOf(tW)
			src = progen.ArrayOf(s)
		case "projection-map":
			wt = progen.TMapOf(tW)
			src = progen.TMapOf(s)
			if !validT(src) {
				return nil, nil
			}
		}
		eff = src
		p.Stages = append(p.Stages, cons)
		g := gen("GENW", progen.Param{T: wt, Name: "w"})
		top.Calls = append(top.Calls, genCall(g), &progen.Call{Callee: "CONS", Binds: []progen.Bind{{"x", progen.Ref("GENW", "w", "f")}}})
		ret(progen.Ref("CONS", "n"))
	case "split-array", "split-map":
		var coll *progen.T
		if ctx == "split-array" {
			coll = progen.ArrayOf(s)
		} else {
			coll = progen.TMapOf(s)
			if !validT(coll) {
				return nil, nil
			}
		}
		p.Stages = append(p.Stages, cons)
		g := gen("GENS", progen.Param{T: coll, Name: "o"})
		top.Calls = append(top.Calls, genCall(g), &progen.Call{Callee: "CONS", Map: true, Binds: []progen.Bind{{"x", progen.SplitE(progen.Ref("GENS", "o"))}}})
		if ctx == "split-array" {
			top.Outs = append(top.Outs, progen.Param{T: progen.ArrayOf(progen.IntT), Name: "n"})
		} else {
			top.Outs = append(top.Outs, progen.Param{T: progen.TMapOf(progen.IntT), Name: "n"})
		}
		top.Ret = append(top.Ret, progen.Bind{"n", progen.Ref("CONS", "n")})
	case "wildcard":
		// * = GENS where GENS has an output named x of type S
		p.Stages = append(p.Stages, cons)
		g := gen("GENS", progen.Param{T: s, Name: "x"})
		top.Calls = append(top.Calls, genCall(g), &progen.Call{Callee: "CONS", Binds: []progen.Bind{{"*", progen.Ref("GENS")}}})
		ret(progen.Ref("CONS", "n"))
	default:
		return nil, nil
	}
	p.Pipelines = append(p.Pipelines, top)
	p.Top = topCall
	progen.FixUnused(p)
	p.Desc = fmt.Sprintf("%s <- %s in %s", d.String(), eff.String(), ctx)
	return p, eff
}

var atRe = regexp.MustCompile(`at [^\s:]+:(\d+)`)

func evalCase(s, d *progen.T, ctx string) (fs []ev.Finding, outcome string) {
	p, eff := build(s, d, ctx)
	if p == nil {
		return nil, "inexpressible"
	}
	s = eff
	c := Case{S: s.String(), D: d.String(), Context: ctx}
	src := p.MRO()
	_, _, _, err := syntax.ParseSourceBytes([]byte(src), "prog.mro", nil, false)
	r := rel(p, d, s)
	if ctx == "literal" && r == 1 && hasStruct(s) && !sameShape(d, s) {
		r = -1 // a struct *literal* bound to a map: literals have their own rules
	}
	report := func(kind, what string) {
		fs = append(fs, ev.Finding{Sig: "C07:" + kind + ":" + ctx + ":" + kindOf(d) + "<-" + kindOf(s), What: p.Desc + ": " + what, Case: c})
	}
	// the verdict does not depend on the order in which the calls of a
	// pipeline are written (the compiler sorts them by dependency first)
	if msg := orderInvariance(p, err == nil); msg != "" {
		report("verdict-depends-on-call-order", msg)
	}
	if err != nil {
		if r == 1 {
			report("convertible-rejected", "the binding is one of the documented conversions but the compiler rejects it: "+ev.Short(firstLine(err.Error()), 240))
			return fs, "rejected"
		}
		// the error must locate the offending binding: a line inside the
		// statement that contains it
		lines := strings.Split(src, "\n")
		lo, hi := 0, 0
		needle := "x = "
		switch ctx {
		case "return":
			needle = "r = GENS.o"
		case "pipeline-input":
			needle = "x = self.p"
		case "wildcard":
			needle = "* = GENS"
		}
		for i, l := range lines {
			if strings.Contains(l, needle) {
				// the enclosing statement: back to 'call'/'return', forward to ')'
				lo, hi = i+1, i+1
				for j := i; j >= 0; j-- {
					t := strings.TrimSpace(lines[j])
					if strings.HasPrefix(t, "call ") || strings.HasPrefix(t, "map call ") || strings.HasPrefix(t, "return") {
						lo = j + 1
						break
					}
				}
				for j := i; j < len(lines); j++ {
					if strings.HasPrefix(strings.TrimSpace(lines[j]), ")") {
						hi = j + 1
						break
					}
				}
			}
		}
		located := false
		for _, m := range atRe.FindAllStringSubmatch(err.Error(), -1) {
			n, _ := strconv.Atoi(m[1])
			if n >= lo && n <= hi {
				located = true
			}
		}
		if !located {
			report("error-not-located", fmt.Sprintf("the rejection does not point into the offending statement (lines %d-%d): %s", lo, hi, ev.Short(err.Error(), 300)))
		}
		return fs, "rejected"
	}
	// accepted
	if r == 0 {
		report("illtyped-accepted", "a binding that is not convertible is accepted by the compiler")
	}
	// soundness at run time, three valuations, strictest enforcement
	for mode := 0; mode < 3; mode++ {
		p.Top.Binds[0].E = progen.Lit(progen.Int(int64(mode)))
		res := psx.Run(p, psx.Schedule{}, psx.Options{Enforce: "error"})
		if strings.HasPrefix(res.Err, "invoke:") {
			report("accepted-but-callgraph-fails", "compiles, but building the call graph fails: "+ev.Short(res.Err, 300))
			break
		}
		if res.PanicStack != "" && os.Getenv("VERIF_DEBUG") != "" {
			fmt.Println(res.PanicStack)
		}
		if res.Err != "" || res.Stalled || res.State != "complete" {
			report("runtime-type-error", fmt.Sprintf("valuation %d: the accepted program fails at run time at --strict=error: state=%s %s %s: %s",
				mode, res.State, res.Err, res.FatalFq, ev.Short(firstLine(res.FatalLog), 300)))
			continue
		}
		for _, j := range res.Jobs {
			if j.Path != "TOP.CONS" && j.Path != "TOP.SUB.CONS" {
				continue
			}
			if j.Args == nil {
				continue
			}
			x := j.Args.O["x"]
			if progen.Validate(p, d, x) == progen.Reject {
				report("delivered-value-not-of-parameter-type", fmt.Sprintf("valuation %d: stage CONS(in %s x) received %s", mode, d.String(), ev.Short(x.JSON(), 200)))
			}
		}
	}
	return fs, "accepted"
}

// permutations of 0..n-1 (n <= 5)
func perms(n int) [][]int {
	var out [][]int
	var rec func(cur []int, used int)
	rec = func(cur []int, used int) {
		if len(cur) == n {
			out = append(out, append([]int{}, cur...))
			return
		}
		for i := 0; i < n; i++ {
			if used&(1<<i) == 0 {
				rec(append(cur, i), used|1<<i)
			}
		}
	}
	rec(nil, 0)
	return out
}

// orderInvariance compiles the program with the calls of each pipeline
// written in every other order (pipelines of 2 to 5 calls) and reports the
// first order whose verdict - accepted, including the construction of the
// call graph, or rejected - differs from the verdict for the order as built.
func orderInvariance(p *progen.Program, accepted bool) string {
	for _, pl := range p.Pipelines {
		n := len(pl.Calls)
		if n < 2 || n > 5 {
			continue
		}
		orig := pl.Calls
		for _, pm := range perms(n)[1:] {
			calls := make([]*progen.Call, n)
			for i, j := range pm {
				calls[i] = orig[j]
			}
			pl.Calls = calls
			src := p.MRO()
			pl.Calls = orig
			_, _, ast, err := syntax.ParseSourceBytes([]byte(src), "prog.mro", nil, false)
			ok := err == nil
			detail := ""
			if err != nil {
				detail = ev.Short(firstLine(err.Error()), 200)
			}
			if ok && accepted && ast != nil && ast.Call != nil {
				if _, gerr := ast.MakeCallGraph("ID.ps.", ast.Call); gerr != nil {
					ok = false
					detail = "call graph: " + ev.Short(firstLine(gerr.Error()), 200)
				}
			}
			if ok != accepted {
				var names []string
				for _, c := range calls {
					names = append(names, c.Id())
				}
				verdict := map[bool]string{true: "accepted", false: "rejected"}
				return fmt.Sprintf("pipeline %s with its calls written in the order %v is %s (%s), in dependency order it is %s",
					pl.Name, names, verdict[ok], detail, verdict[accepted])
			}
		}
	}
	return ""
}

// ---------------------------------------------------------------------------
// Call order x the type of a reference to a mapped call.  The type of M.y
// depends on how M is mapped, which the compiler only knows once M itself has
// been checked; calls may be written in any order.

type orderCase struct {
	MapKind string // "array" | "map"
	D       string // declared type of the consumer's parameter
	Perm    []int
	Chain   int // > 0: a chain of that many calls instead
}

func buildOrder(oc orderCase) (*progen.Program, bool) {
	I := progen.IntT
	p := &progen.Program{}
	one := &progen.Stage{Name: "ONE", Fn: "ADD", Ins: []progen.Param{{T: I, Name: "x"}}, Outs: []progen.Param{{T: I, Name: "y"}}}
	p.Stages = append(p.Stages, one)
	if oc.Chain > 0 {
		top := &progen.Pipeline{Name: "TOP", Ins: []progen.Param{{T: I, Name: "v"}}, Outs: []progen.Param{{T: I, Name: "r"}}}
		var calls []*progen.Call
		for i := 0; i < oc.Chain; i++ {
			c := &progen.Call{Callee: "ONE", Alias: fmt.Sprintf("STEP%d", i), Binds: []progen.Bind{{Name: "x", E: progen.Self("v")}}}
			if i > 0 {
				c.Binds[0].E = progen.Ref(fmt.Sprintf("STEP%d", i-1), "y")
			}
			calls = append(calls, c)
		}
		for _, j := range oc.Perm {
			top.Calls = append(top.Calls, calls[j])
		}
		top.Ret = []progen.Bind{{Name: "r", E: progen.Ref(fmt.Sprintf("STEP%d", oc.Chain-1), "y")}}
		p.Pipelines = []*progen.Pipeline{top}
		p.Top = &progen.Call{Callee: "TOP", Binds: []progen.Bind{{Name: "v", E: progen.Lit(progen.Int(1))}}}
		return p, true
	}
	var srcT, yT *progen.T
	var srcLit *progen.Val
	if oc.MapKind == "array" {
		srcT, yT = progen.ArrayOf(I), progen.ArrayOf(I)
		srcLit = progen.Arr(progen.Int(1), progen.Int(2))
	} else {
		srcT, yT = progen.TMapOf(I), progen.TMapOf(I)
		srcLit = progen.Obj(map[string]*progen.Val{"a": progen.Int(1), "b": progen.Int(2)})
	}
	var dT *progen.T
	switch oc.D {
	case "int":
		dT = I
	case "int[]":
		dT = progen.ArrayOf(I)
	case "int[][]":
		dT = progen.ArrayOf(progen.ArrayOf(I))
	case "map<int>":
		dT = progen.TMapOf(I)
	}
	cons := &progen.Stage{Name: "CONS", Fn: "LEN", Ins: []progen.Param{{T: dT, Name: "x"}}, Outs: []progen.Param{{T: I, Name: "y"}}}
	p.Stages = append(p.Stages, cons)
	top := &progen.Pipeline{Name: "TOP", Ins: []progen.Param{{T: srcT, Name: "values"}},
		Outs: []progen.Param{{T: I, Name: "first"}, {T: I, Name: "second"}}}
	calls := []*progen.Call{
		{Callee: "ONE", Alias: "FIRST", Binds: []progen.Bind{{Name: "x", E: progen.Ref("SEED", "y")}}},
		{Callee: "CONS", Alias: "SECOND", Binds: []progen.Bind{{Name: "x", E: progen.Ref("EACH", "y")}}},
		{Callee: "ONE", Alias: "SEED", Binds: []progen.Bind{{Name: "x", E: progen.Lit(progen.Int(1))}}},
		{Callee: "ONE", Alias: "EACH", Map: true, Binds: []progen.Bind{{Name: "x", E: progen.SplitE(progen.Self("values"))}}},
	}
	for _, j := range oc.Perm {
		top.Calls = append(top.Calls, calls[j])
	}
	top.Ret = []progen.Bind{{Name: "first", E: progen.Ref("FIRST", "y")}, {Name: "second", E: progen.Ref("SECOND", "y")}}
	p.Pipelines = []*progen.Pipeline{top}
	p.Top = &progen.Call{Callee: "TOP", Binds: []progen.Bind{{Name: "values", E: progen.Lit(srcLit)}}}
	return p, dT.String() == yT.String()
}

func evalOrder(oc orderCase) (fs []ev.Finding, outcome string) {
	p, wellTyped := buildOrder(oc)
	src := p.MRO()
	_, _, ast, err := syntax.ParseSourceBytes([]byte(src), "prog.mro", nil, false)
	c := Case{S: fmt.Sprintf("%s %v chain=%d", oc.MapKind, oc.Perm, oc.Chain), D: oc.D, Context: "call-order"}
	var names []string
	for _, cl := range p.Pipelines[0].Calls {
		names = append(names, cl.Id())
	}
	report := func(kind, what string) {
		fs = append(fs, ev.Finding{Sig: "C07:" + kind + ":call-order", What: fmt.Sprintf("calls written in the order %v, reference to a call mapped over a%s bound to %s: %s", names,
			map[string]string{"array": "n array", "map": " typed map", "": " value"}[oc.MapKind], oc.D, what), Case: c})
	}
	if err != nil {
		if wellTyped {
			report("convertible-rejected", "the program is well typed but the compiler rejects it: "+ev.Short(firstLine(err.Error()), 240))
		} else if !strings.Contains(err.Error(), "EACH.y") && !strings.Contains(err.Error(), "SECOND") {
			report("error-not-located", "the rejection does not name the offending binding: "+ev.Short(err.Error(), 300))
		}
		return fs, "rejected"
	}
	if !wellTyped {
		report("illtyped-accepted", "a binding that is not convertible is accepted by the compiler")
		return fs, "accepted"
	}
	if ast != nil && ast.Call != nil {
		if _, gerr := ast.MakeCallGraph("ID.ps.", ast.Call); gerr != nil {
			report("accepted-but-callgraph-fails", "compiles, but building the call graph fails: "+ev.Short(firstLine(gerr.Error()), 240))
		}
	}
	return fs, "accepted"
}

func orderCases() []orderCase {
	var out []orderCase
	for _, pm := range perms(4) {
		for _, d := range []string{"int", "int[]", "int[][]", "map<int>"} {
			out = append(out, orderCase{MapKind: "array", D: d, Perm: pm})
			out = append(out, orderCase{MapKind: "map", D: d, Perm: pm})
		}
	}
	for _, n := range []int{3, 4, 5} {
		for _, pm := range perms(n) {
			out = append(out, orderCase{Chain: n, D: "int", Perm: pm})
		}
	}
	return out
}

func hasStruct(t *progen.T) bool {
	for x := t; x != nil; x = x.Elem {
		if x.K == progen.TStruct {
			return true
		}
	}
	return false
}

func sameShape(d, s *progen.T) bool { return d.String() == s.String() }

// ---------------------------------------------------------------------------
// consistency of split collections

var splitSources = []string{"L2", "L3", "I", "M2", "M3", "R"}

func buildSplit(seq []string) *progen.Program {
	p := newProgram()
	arrT := progen.ArrayOf(progen.IntT)
	p.Stages = append(p.Stages,
		&progen.Stage{Name: "GEN", Fn: "GEN", Ins: []progen.Param{{T: progen.IntT, Name: "n"}}, Outs: []progen.Param{{T: arrT, Name: "arr"}}},
		&progen.Stage{Name: "PROD", Fn: "ID", Ins: []progen.Param{{T: progen.IntT, Name: "x"}}, Outs: []progen.Param{{T: progen.IntT, Name: "y"}}},
		&progen.Stage{Name: "ADD3", Fn: "ADD", Ins: []progen.Param{{T: progen.IntT, Name: "a"}, {T: progen.IntT, Name: "b"}, {T: progen.IntT, Name: "c"}},
			Outs: []progen.Param{{T: progen.IntT, Name: "sum"}}})
	lit := func(n int) *progen.Exp {
		v := progen.Arr()
		for i := 1; i <= n; i++ {
			v.A = append(v.A, progen.Int(int64(i)))
		}
		return progen.Lit(v)
	}
	top := &progen.Pipeline{Name: "TOP", Ins: []progen.Param{{T: arrT, Name: "arr"}, {T: progen.IntT, Name: "n"}},
		Outs: []progen.Param{{T: arrT, Name: "sums"}}}
	top.Calls = append(top.Calls,
		&progen.Call{Callee: "GEN", Binds: []progen.Bind{{"n", progen.Self("n")}}},
		&progen.Call{Callee: "PROD", Alias: "M2", Map: true, Binds: []progen.Bind{{"x", progen.SplitE(lit(2))}}},
		&progen.Call{Callee: "PROD", Alias: "M3", Map: true, Binds: []progen.Bind{{"x", progen.SplitE(lit(3))}}})
	src := func(k string) *progen.Exp {
		switch k {
		case "L2":
			return lit(2)
		case "L3":
			return lit(3)
		case "I":
			return progen.Self("arr")
		case "M2":
			return progen.Ref("M2", "y")
		case "M3":
			return progen.Ref("M3", "y")
		}
		return progen.Ref("GEN", "arr")
	}
	names := []string{"a", "b", "c"}
	c := &progen.Call{Callee: "ADD3", Map: true}
	for i, k := range seq {
		c.Binds = append(c.Binds, progen.Bind{names[i], progen.SplitE(src(k))})
	}
	for i := len(seq); i < 3; i++ {
		c.Binds = append(c.Binds, progen.Bind{names[i], progen.Lit(progen.Int(0))})
	}
	top.Calls = append(top.Calls, c)
	top.Ret = []progen.Bind{{"sums", progen.Ref("ADD3", "sum")}}
	p.Pipelines = append(p.Pipelines, top)
	p.Top = &progen.Call{Callee: "TOP", Binds: []progen.Bind{{"arr", lit(2)}, {"n", progen.Lit(progen.Int(2))}}}
	progen.FixUnused(p)
	p.Desc = "split sources " + strings.Join(seq, ",")
	return p
}

func evalSplit(seq []string) (fs []ev.Finding, outcome string) {
	p := buildSplit(seq)
	c := Case{S: strings.Join(seq, ","), Context: "split-consistency"}
	known := map[int]bool{}
	runtime2 := false
	for _, k := range seq {
		switch k {
		case "L2", "M2":
			known[2] = true
		case "L3", "M3":
			known[3] = true
		default:
			runtime2 = true
		}
	}
	src := p.MRO()
	_, _, _, err := syntax.ParseSourceBytes([]byte(src), "prog.mro", nil, false)
	report := func(kind, what string) {
		fs = append(fs, ev.Finding{Sig: "C07:" + kind + ":split-consistency", What: p.Desc + ": " + what, Case: c})
	}
	if len(known) > 1 {
		if err == nil {
			report("inconsistent-split-accepted", "split collections whose lengths are known at compile time to differ (2 and 3) are accepted by the compiler")
			// and what happens then?
			res := psx.Run(p, psx.Schedule{}, psx.Options{Enforce: "error"})
			if res.Err != "" {
				fs[len(fs)-1].What += "; at run time: " + ev.Short(res.Err, 200)
			}
		}
		return fs, "must-reject"
	}
	if err != nil {
		report("consistent-split-rejected", "split collections with consistent (or unknown) lengths are rejected: "+ev.Short(firstLine(err.Error()), 200))
		return fs, "rejected"
	}
	if known[3] && runtime2 {
		return nil, "accepted-runtime-mismatch-not-run"
	}
	res := psx.Run(p, psx.Schedule{}, psx.Options{Enforce: "error"})
	if res.Err != "" || res.Stalled || res.State != "complete" {
		report("runtime-type-error", fmt.Sprintf("accepted program with consistent split lengths fails at run time: state=%s %s %s", res.State, ev.Short(res.Err, 200), ev.Short(firstLine(res.FatalLog), 200)))
	}
	return fs, "accepted"
}

func kindOf(t *progen.T) string {
	switch t.K {
	case progen.TArray:
		return kindOf(t.Elem) + "[]"
	case progen.TTMap:
		return "map<" + kindOf(t.Elem) + ">"
	case progen.TStruct:
		return "struct"
	case progen.TFiletype:
		return "filetype"
	}
	return t.String()
}

func firstLine(s string) string {
	if i := strings.IndexByte(s, '\n'); i >= 0 {
		return s[:i]
	}
	return s
}

func main() {
	r := ev.New("C07", "exploration")
	r.SetBudget(100*time.Second, 25*time.Minute)
	core.VerifQuiet()
	U := universe()
	byName := map[string]*progen.T{}
	for _, t := range U {
		byName[t.String()] = t
	}
	if r.ReplayPath != "" {
		var c Case
		if err := ev.LoadReplay(r.ReplayPath, &c); err != nil {
			fmt.Println(err)
			os.Exit(2)
		}
		r.Eval("replay")
		r.Sample(c)
		if c.Context == "call-order" {
			var oc orderCase
			var mk string
			fmt.Sscanf(c.S, "%s", &mk)
			for _, cand := range orderCases() {
				if fmt.Sprintf("%s %v chain=%d", cand.MapKind, cand.Perm, cand.Chain) == c.S && cand.D == c.D {
					oc = cand
				}
			}
			fs, out := evalOrder(oc)
			fmt.Println("outcome:", out)
			for _, f := range fs {
				r.Report(f)
			}
			r.Finish()
		}
		if c.Context == "split-consistency" {
			fs, out := evalSplit(strings.Split(c.S, ","))
			fmt.Println("outcome:", out)
			for _, f := range fs {
				r.Report(f)
			}
			r.Finish()
		}
		fs, out := evalCase(byName[c.S], byName[c.D], c.Context)
		fmt.Println("outcome:", out)
		if p, _ := build(byName[c.S], byName[c.D], c.Context); p != nil && os.Getenv("VERIF_DEBUG") != "" {
			fmt.Println(p.MRO())
		}
		for _, f := range fs {
			r.Report(f)
		}
		r.Finish()
	}
	if !ev.IsWorker() {
		r.Rule = fmt.Sprintf("all ordered pairs (S, D) of a %d-type universe (11 base types incl. two user file types, a struct and a narrower struct; arrays to depth 2, typed maps, typed maps of arrays, arrays of typed maps) in each of %d binding contexts %v; "+
			"a reference relation written from the statement decides convertible / not convertible / undecided; accepted programs run on the real runtime at --strict=error with three conforming output valuations (typical, empty collections, null leaves) and every value delivered to the consumer is checked by the reference validator; "+
			"rejections must carry a position inside the offending statement; the verdict must not change when the calls of a pipeline are written in any other order (every permutation, pipelines of 2-5 calls), "+
			"and a dedicated family crosses the written order with the typing of a reference to a mapped call: two producers (one mapped over an array / a typed map) and two consumers in all 24 orders x 4 declared consumer types, and chains of 3-5 calls in every order; quick visits the pairs of the depth<=1 types and all pairs of the int-based types up to depth 3 in all contexts; distinct = distinct (S, D, context); non-trivial = S differs from D", len(U), len(contexts), contexts)
		r.RunWorkers(0)
		r.Assume("undecided pairs (file<->path, filetype<->other filetype, map->struct, map->map<T>) are checked for run-time soundness only")
		r.Finish()
	}
	depth := func(t *progen.T) int {
		n := 0
		for x := t; x.K == progen.TArray || x.K == progen.TTMap; x = x.Elem {
			n++
		}
		return n
	}
	idx := 0
	for _, ctx := range contexts {
		for _, s := range U {
			for _, d := range U {
				if !r.Thorough() && (depth(s) > 1 || depth(d) > 1) && !(baseOf(s).K == progen.TInt && baseOf(d).K == progen.TInt) {
					continue
				}
				idx++
				if !r.Mine(idx) {
					continue
				}
				if idx%64 == 0 && r.Expired("pair enumeration") {
					r.Done()
				}
				fs, out := evalCase(s, d, ctx)
				key := ""
				if s.String() != d.String() {
					key = s.String() + "|" + d.String() + "|" + ctx
				}
				r.Eval(key)
				if out == "inexpressible" {
					r.Outcome(out)
					continue
				}
				if len(fs) == 0 {
					r.Outcome(out + ":ok")
				}
				for _, f := range fs {
					r.Outcome("violation:" + strings.Split(f.Sig, ":")[1])
					r.Report(f)
				}
				if idx%2311 == 0 {
					r.Sample(Case{S: s.String(), D: d.String(), Context: ctx})
				}
			}
		}
	}
	// call order x mapped-call typing
	for _, oc := range orderCases() {
		idx++
		if !r.Mine(idx) {
			continue
		}
		fs, out := evalOrder(oc)
		r.Eval(fmt.Sprintf("order|%s|%s|%v|%d", oc.MapKind, oc.D, oc.Perm, oc.Chain))
		if len(fs) == 0 {
			r.Outcome("call-order:" + out)
		}
		for _, f := range fs {
			r.Outcome("violation:" + strings.Split(f.Sig, ":")[1])
			r.Report(f)
		}
	}
	// split consistency: all sequences of 2 and 3 sources
	var seqs [][]string
	for _, a := range splitSources {
		for _, b := range splitSources {
			seqs = append(seqs, []string{a, b})
			for _, c := range splitSources {
				seqs = append(seqs, []string{a, b, c})
			}
		}
	}
	for _, seq := range seqs {
		idx++
		if !r.Mine(idx) {
			continue
		}
		fs, out := evalSplit(seq)
		r.Eval("split|" + strings.Join(seq, ","))
		if len(fs) == 0 {
			r.Outcome("split:" + out)
		}
		for _, f := range fs {
			r.Outcome("violation:" + strings.Split(f.Sig, ":")[1])
			r.Report(f)
		}
	}
	r.Done()
}
