//go:build verif

// c12race: free-running race-detector pass over the C12 scenarios (built
// with -race, no sync rewrite).  Not a check of its own: checks/c12 runs it
// in its thorough tier and records the outcome as evidence.
package main

import (
	"encoding/json"
	"fmt"
	"os"
	"strconv"
	"time"

	"github.com/martian-lang/martian/martian/core"

	"verif/lib/c12sc"
)

func main() {
	core.VerifQuiet()
	budget := 60 * time.Second
	if s := os.Getenv("C12RACE_BUDGET_S"); s != "" {
		if n, err := strconv.Atoi(s); err == nil {
			budget = time.Duration(n) * time.Second
		}
	}
	iters := 5
	deadline := time.Now().Add(budget)
	runs, stuck, scen := 0, 0, 0
	sems, jobs, locals := c12sc.Sem(false), c12sc.Jobs(false), c12sc.Local(false)
	// round-robin over the three kinds so that a short budget covers all
	n := max(len(sems), max(len(jobs), len(locals)))
	for k := 0; k < n && time.Now().Before(deadline); k++ {
		i := (k * 37) % n // spread over the lists: neighbouring scenarios are similar
		for it := 0; it < iters; it++ {
			if i < len(sems) {
				if !core.VerifRaceSem(sems[i]) {
					stuck++
				}
				runs++
			}
			if i < len(jobs) {
				if !core.VerifRaceJobs(jobs[i]) {
					stuck++
				}
				runs++
			}
			if i < len(locals) {
				if !core.VerifRaceLocal(locals[i]) {
					stuck++
				}
				runs++
			}
		}
		scen = k + 1
	}
	b, _ := json.Marshal(map[string]int{"scenario_rounds": scen, "runs": runs, "left_blocked": stuck, "iterations_per_scenario": iters})
	fmt.Println("C12RACE " + string(b))
}
