//go:build verif

package core

// Free-running bodies of the C12 scenarios for the race detector: the same
// operations as checks/c12, on the unmodified semaphores (real sync, real
// goroutines).  A cooperative scheduler's hand-offs are happens-before edges
// that blind the detector, hence this separate pass.  It decides nothing
// about the property; it reports unsynchronised accesses, which would mean
// the scheduling points of the exhaustive exploration are too coarse.

import (
	"fmt"
	"runtime"
	"sync"
	"sync/atomic"
	"time"
)

func waitTimeout(wg *sync.WaitGroup, d time.Duration) bool {
	done := make(chan struct{})
	go func() { wg.Wait(); close(done) }()
	select {
	case <-done:
		return true
	case <-time.After(d):
		return false
	}
}

// VerifRaceSem runs sc once; it returns false when threads stayed blocked
// even after full capacity was restored (they are left behind).
func VerifRaceSem(sc SemScenario) bool {
	sem := NewResourceSemaphore(sc.Max, DefaultResourceFormatter("units"))
	var wg sync.WaitGroup
	start := make(chan struct{})
	var held int64
	for _, ops := range sc.Threads {
		ops := ops
		wg.Add(1)
		go func() {
			defer wg.Done()
			<-start
			for _, o := range ops {
				switch o.Kind {
				case "acq", "hold":
					if err := sem.Acquire(o.N); err != nil {
						continue
					}
					atomic.AddInt64(&held, o.N)
					runtime.Gosched()
					atomic.AddInt64(&held, -o.N)
					// in the free-running pass held requests are released
					// too, so that no goroutine is left behind
					sem.Release(o.N)
				case "actual":
					sem.UpdateActual(o.N)
				case "size":
					sem.UpdateSize(o.N)
				case "free":
					sem.UpdateFreeUsed(o.N, o.M)
				case "obs":
					_ = sem.Reserved() + sem.Available() + int64(sem.QueueLength()) + sem.InUse() + sem.CurrentSize()
				}
			}
		}()
	}
	close(start)
	if waitTimeout(&wg, 200*time.Millisecond) {
		return true
	}
	// requests wait for capacity the updater took away: give it back
	sem.UpdateSize(sc.Max)
	return waitTimeout(&wg, 2*time.Second)
}

// VerifRaceJobs runs a MaxJobsSemaphore scenario once.
func VerifRaceJobs(sc JobsScenario) bool {
	sem := NewMaxJobsSemaphore(sc.Limit)
	mds := make([]*Metadata, sc.Jobs)
	for j := range mds {
		mds[j] = NewMetadata(fmt.Sprintf("ID.ps.TOP.S%d.fork0.chnk0", j), fmt.Sprintf("/nonexistent/S%d", j))
		verifSetState(mds[j], JobInfoFile)
	}
	var wg sync.WaitGroup
	start := make(chan struct{})
	for _, ops := range sc.Threads {
		ops := ops
		wg.Add(1)
		go func() {
			defer wg.Done()
			<-start
			for _, o := range ops {
				switch o.Kind {
				case "job", "lost", "try":
					if !sem.Acquire(mds[o.J], o.Kind == "try") {
						continue
					}
					verifSetState(mds[o.J], LogFile)
					runtime.Gosched()
					verifSetState(mds[o.J], CompleteFile)
					if o.Kind != "lost" {
						sem.Release(mds[o.J])
					}
				case "cancel":
					verifSetState(mds[o.J], Errors)
					runtime.Gosched()
				case "find":
					sem.FindDone()
				}
			}
		}()
	}
	close(start)
	if waitTimeout(&wg, 200*time.Millisecond) {
		return true
	}
	// slots of jobs that ended without Release are only found by FindDone
	for i := 0; i < 4; i++ {
		sem.FindDone()
		if waitTimeout(&wg, 100*time.Millisecond) {
			return true
		}
	}
	sem.Clear()
	return waitTimeout(&wg, 2*time.Second)
}

// VerifRaceLocal enqueues the jobs of sc on a real LocalJobManager.
func VerifRaceLocal(sc LocalScenario) bool {
	jm := newVerifLocalJM(sc)
	var wg sync.WaitGroup
	wg.Add(len(sc.Jobs))
	VerifExecHook = func(md *Metadata) error {
		runtime.Gosched()
		wg.Done()
		return nil
	}
	for j := range sc.Jobs {
		req := sc.Jobs[j]
		md := NewMetadata(fmt.Sprintf("ID.ps.TOP.S%d.fork0.chnk0", j), fmt.Sprintf("/nonexistent/S%d", j))
		jm.Enqueue("/bin/true", []string{"x"}, nil, md, &req, md.fqname, 0, 0, false)
	}
	ok := waitTimeout(&wg, 5*time.Second)
	// let the deferred releases finish before the hook is replaced
	for i := 0; i < 100 && (jm.centcoreSem.Reserved() != 0 || jm.memMBSem.Reserved() != 0); i++ {
		time.Sleep(time.Millisecond)
	}
	return ok
}
