//go:build verif

// tbprobe: hand experiments with the real-binary tier (not a registered check).
package main

import (
	"fmt"
	"os"
	"time"

	"verif/lib/progen"
	"verif/lib/psx"
)

func main() {
	fam := progen.DataflowFamily(1)
	n := 3
	if len(os.Args) > 1 {
		fmt.Sscan(os.Args[1], &n)
	}
	for i := 0; i < n && i < len(fam); i++ {
		p := progen.Dataflow(fam[i])
		if p == nil {
			continue
		}
		ref, err := progen.Interpret(p)
		if err != nil {
			fmt.Println("interp:", err)
			continue
		}
		t0 := time.Now()
		r := psx.RunB(p, psx.BOptions{EffectLog: true, Install: "fsmrp"})
		res := psx.AsResult(p, r)
		fmt.Printf("%s: exit=%d wall=%v obs=%d effects=%d state=%s\n", fam[i], r.Exit, time.Since(t0), len(r.Obs), len(r.Effects), res.State)
		for _, v := range psx.CheckDataflow(ref, res) {
			fmt.Println("  DF:", v)
		}
		for _, v := range psx.CheckExactlyOnce(ref, res) {
			fmt.Println("  X1:", v)
		}
		for _, v := range psx.CheckOrder(ref, res) {
			fmt.Println("  ORD:", v)
		}
		if os.Getenv("SHOW") != "" {
			fmt.Println(r.Console)
			fmt.Println(r.TopOuts)
			for _, e := range r.Effects {
				fmt.Println(e)
			}
		}
		r.Cleanup()
	}
}
