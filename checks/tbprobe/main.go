//go:build verif

// tbprobe: hand experiments with the real-binary tier (not a registered check).
package main

import (
	"fmt"
	"os"
	"time"

	"verif/lib/progen"
	"verif/lib/psx"
)

func main() {
	p := progen.Dataflow(progen.DataflowParams{Kind: "int", Src: "gen", Size: 2, Cons: "add"})
	t0 := time.Now()
	slowJob := "ID." + psx.Psid + ".TOP.GEN.fork0.chnk0.main"
	r := psx.RunB(p, psx.BOptions{JobMode: "fake_remote", FlakyQueue: true, AutoRetry: 1, Slow: map[string]int{slowJob: 9000}, Timeout: 150 * time.Second, KeepDir: true})
	fmt.Printf("exit=%d wall=%v obs=%d err=%s\n", r.Exit, time.Since(t0), len(r.Obs), r.Err)
	for _, o := range r.Obs {
		fmt.Println("  ", o.Key, o.How)
	}
	fmt.Println(psx.ConsoleTail(r.Console, 30))
	b, _ := os.ReadFile(r.Dir + "/ctl/qcount")
	fmt.Println("qcount:", string(b))
}
