//go:build verif

// tbprobe: hand experiments with the real-binary tier (not a registered check).
package main

import (
	"fmt"
	"os"
	"sort"
	"time"

	"verif/lib/progen"
	"verif/lib/psx"
)

func main() {
	p := progen.Dataflow(progen.DataflowParams{Kind: "arr", Src: "gen", Size: 2, Cons: "sums"})
	ref, _ := progen.Interpret(p)
	_ = ref
	kind := os.Args[1]
	job := os.Args[2]
	t0 := time.Now()
	opts := psx.BOptions{Fault: &psx.Fault{Job: job, Kind: kind}, KeepDir: true}
	if len(os.Args) > 3 {
		fmt.Sscan(os.Args[3], &opts.AutoRetry)
		opts.Fault.Times = 1
	}
	r := psx.RunB(p, opts)
	fmt.Printf("exit=%d sig=%s wall=%v obs=%d lock=%v\n", r.Exit, r.Signal, time.Since(t0), len(r.Obs), r.Lock)
	for _, o := range r.Obs {
		fmt.Println("  ", o.Key, o.How, o.Fault)
	}
	fmt.Println(r.Console)
	sort.Strings(r.Completed)
	fmt.Println(r.Completed)
	fq, log := psx.ParseFailure(r.Console)
	fmt.Println("PARSED:", fq, "|", log)
	// restart
	r2 := psx.RunB(p, psx.BOptions{Dir: r.Dir})
	fmt.Printf("restart exit=%d obs=%d\n%s\n%s\n", r2.Exit, len(r2.Obs), psx.ConsoleTail(r2.Console, 6), r2.TopOuts)
	for _, o := range r2.Obs {
		fmt.Println("  ", o.Key, o.How, o.Fault)
	}
	r.Cleanup()
}
