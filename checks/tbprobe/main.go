//go:build verif

// tbprobe: hand experiments with the real-binary tier (not a registered check).
package main

import (
	"fmt"
	"os"
	"time"

	"verif/lib/progen"
	"verif/lib/psx"
)

func main() {
	p := progen.Dataflow(progen.DataflowParams{Kind: "arr", Src: "gen", Size: 2, Cons: "sums", Extra: "chain"})
	ref, _ := progen.Interpret(p)
	t0 := time.Now()
	opts := psx.BOptions{KeepDir: true, JobMode: os.Args[1], MaxJobs: 2}
	r := psx.RunB(p, opts)
	res := psx.AsResult(p, r)
	fmt.Printf("exit=%d wall=%v obs=%d state=%s\n", r.Exit, time.Since(t0), len(r.Obs), res.State)
	for _, v := range psx.CheckDataflow(ref, res) {
		fmt.Println("  DF:", v)
	}
	for _, v := range psx.CheckExactlyOnce(ref, res) {
		fmt.Println("  X1:", v)
	}
	if r.Exit != 0 || os.Getenv("SHOW") != "" {
		fmt.Println(psx.ConsoleTail(r.Console, 25))
	}
	r.Cleanup()
}
