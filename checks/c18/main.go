//go:build verif

// C18: cluster job scripts reproduce commands, paths and environment values
// exactly.  Bounded-exhaustive enumeration of strings over an adversarial
// alphabet; the oracle is the real shell (dash and bash).
package main

import (
	"bytes"
	"fmt"
	"os"
	"os/exec"
	"path/filepath"
	"regexp"
	"sort"
	"strings"
	"time"
	"unicode/utf8"

	"github.com/martian-lang/martian/martian/core"

	"verif/lib/ev"
)

type Case struct {
	Kind     string   `json:"kind"` // quote | script
	Shell    string   `json:"shell"`
	Value    string   `json:"value,omitempty"`
	Template string   `json:"template,omitempty"`
	Role     string   `json:"role,omitempty"`
	Argv     []string `json:"argv,omitempty"`
}

var sigma = []string{"a", " ", "\t", "\n", "\r", `"`, `'`, "`", "$", `\`, "!", "*", "?",
	"[", "~", "#", "&", ";", "|", "<", ">", "(", "{", "=", "%", "-", "é", "☺"}

var active = []string{`"`, "`", "$", `\`, "\n", `'`, "(", ")", "a", "\r"}

func enumerate(alpha []string, minLen, maxLen int) []string {
	var out []string
	var rec func(prefix string, n int)
	rec = func(prefix string, n int) {
		if n == 0 {
			out = append(out, prefix)
			return
		}
		for _, s := range alpha {
			rec(prefix+s, n-1)
		}
	}
	for l := minLen; l <= maxLen; l++ {
		rec("", l)
	}
	return out
}

// byteClass names the first shell-relevant byte class of a value, used to
// build a signature for a failing value.
func sigOf(kind, v string) string {
	if !utf8.ValidString(v) {
		return kind + ":invalid-utf8"
	}
	for _, c := range []struct{ ch, name string }{
		{"`", "0x60"}, {"$", "0x24"}, {`"`, "0x22"}, {`\`, "0x5c"}, {"\n", "0x0a"},
		{"!", "0x21"}, {"'", "0x27"}} {
		if strings.Contains(v, c.ch) {
			return kind + ":byte=" + c.name
		}
	}
	return kind + ":other"
}

var scratch string

func runShell(shell string, script string, dir string) ([]byte, error) {
	cmd := exec.Command(shell)
	cmd.Stdin = strings.NewReader(script)
	cmd.Dir = dir
	cmd.Env = []string{"PATH=/nonexistent", "HOME=/nonexistent-home", "a=EXPANDED"}
	var out bytes.Buffer
	cmd.Stdout = &out
	cmd.Stderr = nil
	err := cmd.Run()
	return out.Bytes(), err
}

// evalQuoted evaluates the quoted forms with the shell; returns for each
// value whether the shell reproduced it.
func evalQuoted(shell string, vals []string) []bool {
	ok := make([]bool, len(vals))
	var sb strings.Builder
	for _, v := range vals {
		sb.WriteString("printf '%s\\0' ")
		sb.WriteString(core.VerifShellSafeQuote(v))
		sb.WriteString("\n")
	}
	out, err := runShell(shell, sb.String(), scratch)
	want := strings.Join(vals, "\x00") + "\x00"
	if err == nil && string(out) == want {
		for i := range ok {
			ok[i] = true
		}
		return ok
	}
	if len(vals) == 1 {
		return ok
	}
	mid := len(vals) / 2
	copy(ok, evalQuoted(shell, vals[:mid]))
	copy(ok[mid:], evalQuoted(shell, vals[mid:]))
	return ok
}

const dumpScript = `#!/bin/sh
printf 'ARGV0=%s\0' "$0"
for x in "$@"; do printf 'ARG=%s\0' "$x"; done
printf 'ENV1=%s\0' "$VENV1"
printf 'ENV2=%s\0' "$VENV2"
printf 'PWD=%s\0' "$(pwd -P; echo x)"
`

// scriptCase renders and executes a whole job script with value v in role.
// Returns "" if ok, else a description.
func scriptCase(c Case) string {
	tmplBytes, err := os.ReadFile(filepath.Join(os.Getenv("REPO"), "jobmanagers", c.Template))
	if err != nil {
		return "" // template absent in this tree: nothing to check
	}
	dir, err := os.MkdirTemp(scratch, "s")
	if err != nil {
		panic(err)
	}
	defer os.RemoveAll(dir)
	v := c.Value
	progDir := filepath.Join(dir, "bin")
	work := filepath.Join(dir, "work")
	outDir := filepath.Join(dir, "md")
	argv := []string{"plain", "two words"}
	env1, env2 := "e1", "e 2"
	usable := !strings.Contains(v, "/") && v != "." && v != ".." && v != ""
	switch c.Role {
	case "program":
		// fake_remote runs the command through env(1), which reads a first
		// word containing '=' as an assignment: that is env's doing after the
		// shell has recovered the string, not part of the property.
		if !usable || (strings.HasPrefix(c.Template, "fake_remote") && strings.Contains(v, "=")) {
			return ""
		}
		progDir = filepath.Join(dir, v)
	case "arg":
		argv = []string{"first", v, "last"}
	case "env":
		env1 = v
	case "stdout":
		if !usable {
			return ""
		}
		outDir = filepath.Join(dir, v)
	case "workdir":
		if !usable {
			return ""
		}
		work = filepath.Join(dir, v)
	}
	for _, d := range []string{progDir, work, outDir} {
		if err := os.MkdirAll(d, 0o755); err != nil {
			return ""
		}
	}
	prog := filepath.Join(progDir, "dump")
	if err := os.WriteFile(prog, []byte(dumpScript), 0o755); err != nil {
		return ""
	}
	script := core.VerifJobScript(string(tmplBytes), true, []string{"THR_A"},
		prog, argv, map[string]string{"VENV1": env1, "VENV2": env2},
		outDir, work, "ID.verif.STAGE.fork0", "main")
	cmd := exec.Command(c.Shell)
	cmd.Stdin = strings.NewReader(script)
	cmd.Dir = dir
	cmd.Env = []string{"PATH=/usr/bin:/bin", "HOME=/nonexistent-home", "a=EXPANDED"}
	var stdout bytes.Buffer
	cmd.Stdout = &stdout
	runErr := cmd.Run()
	got := stdout.Bytes()
	stdoutPath := filepath.Join(outDir, "_stdout")
	if strings.HasPrefix(c.Template, "fake_remote") {
		// background job: wait for the pid printed by the script to vanish.
		pid := strings.TrimSpace(stdout.String())
		for i := 0; i < 2000; i++ {
			if pid == "" {
				break
			}
			st, err := os.ReadFile("/proc/" + pid + "/stat")
			if err != nil {
				break
			}
			if i := bytes.LastIndexByte(st, ')'); i >= 0 && i+2 < len(st) && st[i+2] == 'Z' {
				break // exited, not yet reaped
			}
			time.Sleep(time.Millisecond)
		}
		got, _ = os.ReadFile(stdoutPath)
	}
	var want bytes.Buffer
	fmt.Fprintf(&want, "ARGV0=%s\x00", prog)
	for _, a := range argv {
		fmt.Fprintf(&want, "ARG=%s\x00", a)
	}
	fmt.Fprintf(&want, "ENV1=%s\x00ENV2=%s\x00", env1, env2)
	// only compare PWD when the template changes directory
	gotS := string(got)
	wantS := want.String()
	if i := strings.Index(gotS, "PWD="); i >= 0 {
		pwd := strings.TrimSuffix(gotS[i+4:], "\nx\x00")
		gotS = gotS[:i]
		if bytes.Contains(tmplBytes, []byte("cd __MRO_JOB_WORKDIR__")) {
			rw, _ := filepath.EvalSymlinks(work)
			if pwd != rw {
				return fmt.Sprintf("working directory %q != %q", pwd, rw)
			}
		}
	}
	if gotS != wantS {
		return fmt.Sprintf("script output %q != expected %q (shell err: %v)", gotS, wantS, runErr)
	}
	// nothing else may have been created in the scratch dir
	ents, _ := os.ReadDir(dir)
	if len(ents) > 3 {
		var names []string
		for _, e := range ents {
			names = append(names, e.Name())
		}
		sort.Strings(names)
		if c.Role == "program" || c.Role == "stdout" || c.Role == "workdir" {
			if len(ents) <= 3 {
				return ""
			}
		}
		return fmt.Sprintf("script created unexpected entries: %q", names)
	}
	return ""
}

func inDirective(template, placeholder string) bool {
	b, err := os.ReadFile(filepath.Join(os.Getenv("REPO"), "jobmanagers", template))
	if err != nil {
		return false
	}
	for _, line := range strings.Split(string(b), "\n") {
		if strings.Contains(line, placeholder) && strings.HasPrefix(strings.TrimSpace(line), "#") {
			return true
		}
	}
	return false
}

func evalCase(c Case) *ev.Finding {
	switch c.Kind {
	case "quote":
		ok := evalQuoted(c.Shell, []string{c.Value})
		if !ok[0] {
			out, err := runShell(c.Shell, "printf '%s\\0' "+core.VerifShellSafeQuote(c.Value)+"\n", scratch)
			return &ev.Finding{Sig: sigOf("sh-eval", c.Value),
				What: fmt.Sprintf("%s evaluates %s to %q (err %v), want %q", c.Shell,
					core.VerifShellSafeQuote(c.Value), out, err, c.Value+"\x00"),
				Case: c}
		}
	case "script":
		if msg := scriptCase(c); msg != "" {
			// twice more, identical, before believing (process timing)
			if scriptCase(c) == "" || scriptCase(c) == "" {
				return nil
			}
			sig := sigOf("script-shell:"+c.Role, c.Value)
			if c.Role == "stdout" && strings.Contains(c.Value, "\n") && inDirective(c.Template, "__MRO_STDOUT__") {
				// the value sits in a '#' scheduler-directive line: a line
				// feed ends the comment whatever the quoting does.
				sig = "script-directive:stdout:byte=0x0a"
			}
			return &ev.Finding{Sig: sig,
				What: fmt.Sprintf("template %s role %s value %q under %s: %s",
					c.Template, c.Role, c.Value, c.Shell, msg), Case: c}
		}
	}
	return nil
}

func main() {
	r := ev.New("C18", "exploration")
	r.SetBudget(90*time.Second, 15*time.Minute)
	var err error
	base := "/dev/shm"
	if _, e := os.Stat(base); e != nil {
		base = os.TempDir()
	}
	scratch, err = os.MkdirTemp(base, "verif-c18-")
	ev.AtExit(func() { os.RemoveAll(scratch) })
	if err != nil {
		panic(err)
	}
	defer os.RemoveAll(scratch)
	if os.Getenv("REPO") == "" {
		os.Setenv("REPO", "/repo")
	}
	if r.ReplayPath != "" {
		var c Case
		if err := ev.LoadReplay(r.ReplayPath, &c); err != nil {
			fmt.Println("cannot load replay:", err)
			os.Exit(2)
		}
		r.Eval("replay")
		r.Sample(c)
		if f := evalCase(c); f != nil {
			r.Report(*f)
		}
		r.Finish()
	}
	shells := []string{"/bin/sh", "/bin/bash"}
	maxLen := 3
	actLen := 4
	if r.Thorough() {
		actLen = 6
	}
	vals := enumerate(sigma, 0, maxLen)
	vals = append(vals, enumerate(active, 4, actLen)...)
	// the extension: every single byte and invalid UTF-8 in context
	var ext []string
	for b := 1; b < 256; b++ {
		ext = append(ext, string([]byte{byte(b)}), "a"+string([]byte{byte(b)})+"b")
	}
	r.Rule = "all strings of length<=3 over a 28-symbol shell-adversarial alphabet (incl. CR and LF), all strings of length 4.." +
		fmt.Sprint(actLen) + " over 10 shell-active symbols, every single byte 1..255 alone and between letters; " +
		"each quoted by the real shellSafeQuote and evaluated by /bin/sh (dash) and bash; " +
		"whole job scripts rendered by the real RemoteJobManager.jobScript for each shipped template with the value as " +
		"program path / argument / environment value / stdout path / work dir, executed by the shell with an argv/env dumping program; the script-level values include every __MRO_*__ placeholder token of every template (alone, inside an option, doubled), which must stay literal. " +
		"distinct = distinct (value) strings; non-trivial = contains at least one non-alphanumeric byte"
	for _, sh := range shells {
		sh := sh
		all := append(append([]string{}, vals...), ext...)
		const batch = 400
		nb := (len(all) + batch - 1) / batch
		ev.ParallelFor(nb, func(i int) bool {
			lo, hi := i*batch, (i+1)*batch
			if hi > len(all) {
				hi = len(all)
			}
			ok := evalQuoted(sh, all[lo:hi])
			for j, v := range all[lo:hi] {
				if strings.Trim(v, "a") != "" {
					r.Eval(v)
				} else {
					r.Eval("")
				}
				if ok[j] {
					r.Outcome("reproduced")
				} else {
					r.Outcome("not-reproduced:" + sigOf("", v))
					if f := evalCase(Case{Kind: "quote", Shell: sh, Value: v}); f != nil {
						r.Report(*f)
					}
				}
			}
			return !r.Expired("quote enumeration")
		})
	}
	r.Sample(Case{Kind: "quote", Shell: "/bin/sh", Value: vals[len(vals)/3]})
	r.Sample(Case{Kind: "quote", Shell: "/bin/bash", Value: vals[len(vals)-7]})

	// script level
	templates := []string{"fake_remote.template", "sge.template", "lsf.template",
		"pbspro.template.example", "slurm.template.example", "torque.template.example"}
	scriptVals := enumerate(sigma, 1, 2)
	if !r.Thorough() {
		scriptVals = enumerate(sigma, 1, 1)
		// all pairs of the shell-active subset
		scriptVals = append(scriptVals, enumerate(active, 2, 2)...)
	} else {
		scriptVals = append(scriptVals, enumerate(active, 3, 3)...)
	}
	scriptVals = append(scriptVals, "$(touch CANARY)", "`touch CANARY`", "\"; touch CANARY; \"",
		"\\\"; touch CANARY; \\\"", "$a", "${a}", "$((1+1))", "a\\", "\\\n", "'$(touch CANARY)'",
		"x\ntouch CANARY\n", "\n", "#", "~", "*")
	// text that looks like a template placeholder must stay literal: every
	// __MRO_*__ token of every shipped template, alone and inside a value
	{
		seen := map[string]bool{}
		re := regexp.MustCompile(`__MRO_[A-Z_]+__`)
		for _, t := range templates {
			b, err := os.ReadFile(filepath.Join(os.Getenv("REPO"), "jobmanagers", t))
			if err != nil {
				continue
			}
			for _, tok := range re.FindAllString(string(b), -1) {
				if !seen[tok] {
					seen[tok] = true
					scriptVals = append(scriptVals, tok, "--opt="+tok, tok+tok)
				}
			}
		}
		r.Set("placeholder_tokens", len(seen))
	}
	var cases []Case
	for _, t := range templates {
		for _, role := range []string{"arg", "env", "program", "stdout", "workdir"} {
			for _, sh := range shells {
				if role != "arg" && role != "env" && sh == "/bin/sh" && !strings.HasPrefix(t, "fake") {
					continue // the other templates name bash in their shebang
				}
				for _, v := range scriptVals {
					cases = append(cases, Case{Kind: "script", Shell: sh, Template: t, Role: role, Value: v})
				}
			}
		}
	}
	r.Set("script_cases", len(cases))
	order := r.Rotate(len(cases))
	ev.ParallelFor(len(cases), func(i int) bool {
		c := cases[order[i]]
		r.Eval("script:" + c.Template + ":" + c.Role + ":" + c.Value)
		if f := evalCase(c); f != nil {
			r.Outcome("script-mismatch:" + f.Sig)
			r.Report(*f)
		} else {
			r.Outcome("script-ok")
		}
		return !r.Expired("script enumeration")
	})
	r.Sample(cases[len(cases)/2])
	r.Assume("the shells installed in the sandbox (dash as /bin/sh, bash) stand for 'a POSIX shell'")
	r.Assume("values containing '/' or equal to '.'/'..' are not used as path components (they cannot name a single directory)")
	r.Finish()
}
