//go:build verif

package core

// Run-independent ordering keys for pointer types used as map keys (see
// vshim.Keyer).  All nil-safe: martian stores typed nil pointers as keys.

func (self *Node) VerifKey() string {
	if self == nil {
		return ""
	}
	return "node:" + self.GetFQName()
}
func (self *Stagestance) VerifKey() string {
	if self == nil {
		return ""
	}
	return "node:" + self.GetFQName()
}
func (self *Pipestance) VerifKey() string {
	if self == nil {
		return ""
	}
	return "node:" + self.GetFQName()
}
func (self *TopNode) VerifKey() string {
	if self == nil {
		return ""
	}
	return "node:" + self.GetFQName()
}
func (self *Fork) VerifKey() string {
	if self == nil {
		return ""
	}
	return "fork:" + self.fqname
}
func (self *Metadata) VerifKey() string {
	if self == nil {
		return ""
	}
	return "md:" + self.fqname + ":" + self.path
}
