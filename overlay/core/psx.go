//go:build verif

package core

// psx: the in-package pipestance harness of /verif.
//
// A JobManager (verifJM) that only *registers* the jobs mrp wants to run, a
// model of what mrjob + a stage adapter do to the metadata directory (cut into
// explorer-visible steps), and a driver that performs exactly the calls
// cmd/mrp makes (InvokePipeline / ReattachToPipestance+Reset+RestartLocalJobs,
// LoadMetadata, then RefreshState -> GetState -> CheckHeartbeats -> StepNodes,
// and VDRKill + PostProcess + Unlock on completion).

import (
	"context"
	"encoding/json"
	"fmt"
	"os"
	"path"
	"strings"
	"sync"
	"time"

	"github.com/martian-lang/martian/martian/syntax"
	"github.com/martian-lang/martian/martian/util"
	"github.com/martian-lang/martian/martian/vshim"
)

// VerifJob is one job mrp asked its job manager to run.
type VerifJob struct {
	Seq       int
	Fqname    string // fork or chunk fqname
	Phase     string // split | main | join
	MdPath    string
	FilesPath string
	RunFile   string
	StageCmd  string
	StageArgs []string
	Preflight bool
	Local     bool
	Res       JobResources
	// 0 submitted, 1 started (monitor up), 2 body done, 3 finished
	Step int
	// the mrp-side metadata object (identity used to detect double submission)
	mrpMd *Metadata
	// the job-side view of the metadata directory, as mrjob builds it
	job *Metadata
}

// Key identifies the job independently of submission order and attempt.
func (j *VerifJob) Key() string { return j.Fqname + "." + j.Phase }

// VerifEvent is one entry of the run's event log.
type VerifEvent struct {
	Kind string `json:"k"` // submit | start | body | finish | loop | dup
	Job  string `json:"job,omitempty"`
	Info string `json:"info,omitempty"`
	Iter int    `json:"iter"`
}

type verifJM struct {
	*LocalJobManager
	h *VerifHarness
}

func (jm *verifJM) execJob(shellCmd string, argv []string, envs map[string]string,
	md *Metadata, res *JobResources, fqname, shellName string, preflight bool) {
	jm.h.submit(shellCmd, argv, md, res, fqname, shellName, preflight)
}

func (jm *verifJM) endJob(md *Metadata)         {}
func (jm *verifJM) resetMaxJobs()               {}
func (jm *verifJM) reattach(md *Metadata)       {}
func (jm *verifJM) refreshResources(bool) error { return nil }

// VerifOptions configures a harness run.
type VerifOptions struct {
	VdrMode        string
	SkipPreflight  bool
	FullStageReset bool
	Debug          bool
	Enforce        string // "", "disable", "log", "alarm", "error"
	// InlineGo: run rewritten go statements inline at their spawn point
	// (deterministic default of the explorer).
	InlineGo bool
}

// VerifHarness drives one incarnation of mrp on one pipestance directory.
type VerifHarness struct {
	Rt     *Runtime
	Ps     *Pipestance
	Opts   VerifOptions
	Jobs   []*VerifJob
	Events []VerifEvent
	Iter   int
	mu     sync.Mutex
	// Deferred goroutine bodies (when a GoHook defers them).
	Deferred []func()
	// RetryWait is mrp's --retry-wait (default one second).
	RetryWait time.Duration
	psid      string
	psdir     string
	mroPaths []string
	src      string
	srcPath  string
	seen     map[string]int
}

var verifPrintMu sync.Mutex

type verifDevNull struct{}

func (verifDevNull) Write(b []byte) (int, error)       { return len(b), nil }
func (verifDevNull) WriteString(s string) (int, error) { return len(s), nil }

// VerifQuiet silences martian's console logging (process wide).
func VerifQuiet() {
	util.SetPrintLogger(verifDevNull{})
	util.LogTeeWriter(verifDevNull{})
}

func NewVerifHarness(opts VerifOptions) (*VerifHarness, error) {
	h := &VerifHarness{Opts: opts, seen: map[string]int{}, RetryWait: time.Second}
	rtOpts := DefaultRuntimeOptions()
	if opts.VdrMode != "" {
		rtOpts.VdrMode = VdrMode(opts.VdrMode)
	} else {
		rtOpts.VdrMode = VdrDisable
	}
	rtOpts.SkipPreflight = opts.SkipPreflight
	rtOpts.FullStageReset = opts.FullStageReset
	rtOpts.Debug = opts.Debug
	rt := &Runtime{Config: &rtOpts}
	rt.jobConfig = &JobManagerJson{
		JobSettings: &JobManagerSettings{
			ThreadsPerJob: 1, MemGBPerJob: 1, ExtraVmemGB: 1,
			ThreadEnvs: []string{"GOMAXPROCS"},
		},
	}
	ljm, err := NewLocalJobManager(4, 4, 16, false, false, false, rt.jobConfig)
	if err != nil {
		return nil, err
	}
	rt.LocalJobManager = ljm
	rt.JobManager = &verifJM{LocalJobManager: ljm, h: h}
	rt.overrides, _ = ReadOverrides("")
	rt.mrjob = "/verif-mrjob"
	rt.adaptersPath = "/verif-adapters"
	h.Rt = rt
	switch opts.Enforce {
	case "error":
		syntax.SetEnforcementLevel(syntax.EnforceError)
	case "alarm":
		syntax.SetEnforcementLevel(syntax.EnforceAlarm)
	case "log":
		syntax.SetEnforcementLevel(syntax.EnforceLog)
	default:
		syntax.SetEnforcementLevel(syntax.EnforceDisable)
	}
	return h, nil
}

func (h *VerifHarness) event(kind, job, info string) {
	h.mu.Lock()
	h.Events = append(h.Events, VerifEvent{Kind: kind, Job: job, Info: info, Iter: h.Iter})
	h.mu.Unlock()
}

func (h *VerifHarness) submit(shellCmd string, argv []string, md *Metadata,
	res *JobResources, fqname, shellName string, preflight bool) {
	n := len(argv)
	if n < 4 {
		panic("verifJM: unexpected argv " + strings.Join(argv, " "))
	}
	j := &VerifJob{
		Seq: len(h.Jobs), Fqname: fqname, Phase: shellName,
		MdPath: argv[n-3], FilesPath: argv[n-2], RunFile: argv[n-1],
		Preflight: preflight, mrpMd: md,
	}
	if res != nil {
		j.Res = *res
	}
	// argv = [stagecmd, args..., phase, md, files, runfile] for compiled
	// stages (shellCmd = mrjob); for exec stages shellCmd is the command.
	if shellCmd == h.Rt.mrjob {
		j.StageCmd = argv[0]
		j.StageArgs = argv[1 : n-4]
	} else {
		j.StageCmd = shellCmd
		j.StageArgs = argv[:n-4]
	}
	if argv[n-4] != shellName {
		panic("verifJM: phase mismatch in argv")
	}
	j.job = NewMetadataRunWithJournalPath(path.Base(j.RunFile), j.MdPath,
		j.FilesPath, path.Dir(j.RunFile), j.Phase)
	key := j.Key() + "@" + j.MdPath
	h.mu.Lock()
	h.seen[key]++
	dup := h.seen[key] > 1
	h.Jobs = append(h.Jobs, j)
	h.mu.Unlock()
	h.event("submit", j.Key(), j.MdPath)
	if dup {
		h.event("dup", j.Key(), j.MdPath)
	}
}

// Invoke starts a new pipestance, as cmd/mrp does.
func (h *VerifHarness) Invoke(src, srcPath, psid, psdir string, mroPaths []string) error {
	h.psid, h.psdir, h.mroPaths, h.src, h.srcPath = psid, psdir, mroPaths, src, srcPath
	ps, err := h.Rt.InvokePipeline(src, srcPath, psid, psdir, mroPaths, "verif", nil, nil)
	if err != nil {
		return err
	}
	h.Ps = ps
	ps.LoadMetadata(context.Background())
	return nil
}

// Reattach re-attaches to an existing pipestance directory with the steps
// cmd/mrp main performs (ReattachToPipestance, Reset, RestartLocalJobs) and
// then LoadMetadata as runLoop does.
func (h *VerifHarness) Reattach(src, srcPath, psid, psdir string, mroPaths []string, checkSrc bool) error {
	h.psid, h.psdir, h.mroPaths, h.src, h.srcPath = psid, psdir, mroPaths, src, srcPath
	ps, err := h.Rt.ReattachToPipestance(psid, psdir, src, srcPath, mroPaths,
		"verif", nil, checkSrc, false, context.Background())
	if err != nil {
		return err
	}
	h.Ps = ps
	if err := ps.Reset(); err != nil {
		return err
	}
	if err := ps.RestartLocalJobs(h.Rt.Config.JobMode); err != nil {
		return err
	}
	ps.LoadMetadata(context.Background())
	return nil
}

// RetryRestart does what cmd/mrp attemptRetry + pipestanceHolder.restart do
// once a failure has been judged transient: look for further failures, give
// up the lock, re-attach, reset the failed stages and reload the metadata.
// It returns false (and changes nothing) when the failure is not transient.
func (h *VerifHarness) RetryRestart() (bool, error) {
	ctx := context.Background()
	if can, _ := h.Ps.IsErrorTransient(); !can {
		return false, nil
	}
	h.Ps.RefreshState(ctx)
	h.Ps.CheckHeartbeats(ctx)
	if can, _ := h.Ps.IsErrorTransient(); !can {
		return false, nil
	}
	h.Ps.Unlock()
	// mrp sleeps --retry-wait (default one second) before it restarts; the
	// clock of files rewritten with "time=" moves on by as much
	vshim.ClockOffset += h.RetryWait
	ps, err := h.Rt.ReattachToPipestance(h.psid, h.psdir, h.src, h.srcPath, h.mroPaths,
		"verif", nil, true, false, ctx)
	if err != nil {
		return true, err
	}
	h.Ps = ps
	if err := ps.Reset(); err != nil {
		ps.Unlock()
		return true, err
	}
	ps.LoadMetadata(ctx)
	return true, nil
}

// LoopBody is one iteration of mrp's run loop without the terminal actions.
func (h *VerifHarness) LoopBody() (MetadataState, bool) {
	h.Iter++
	ctx := context.Background()
	h.Ps.RefreshState(ctx)
	state := h.Ps.GetState(ctx)
	h.event("loop", "", string(state))
	if state == Complete || state == DisabledState || state == Failed {
		return state, false
	}
	h.Ps.CheckHeartbeats(ctx)
	return state, h.Ps.StepNodes(ctx)
}

// CleanupCompleted does what cmd/mrp cleanupCompleted does.
func (h *VerifHarness) CleanupCompleted() *VDRKillReport {
	var rep *VDRKillReport
	if h.Rt.Config.VdrMode != VdrDisable {
		rep = h.Ps.VDRKill()
	}
	h.Ps.PostProcess()
	h.Ps.Unlock()
	return rep
}

// Unlock releases the pipestance (what mrp does before dying on failure).
func (h *VerifHarness) Unlock() { h.Ps.Unlock() }

// FatalError returns what mrp would report for a failed pipestance.
func (h *VerifHarness) FatalError() (fqname string, log string, kind string, paths []string) {
	f, _, _, l, k, p := h.Ps.GetFatalError()
	return f, l, string(k), p
}

// IsErrorTransient exposes the auto-retry classification.
func (h *VerifHarness) IsErrorTransient() (bool, string) { return h.Ps.IsErrorTransient() }

// NodeStates returns the state of every node by fqname.
func (h *VerifHarness) NodeStates() map[string]string {
	out := map[string]string{}
	for _, n := range h.Ps.allNodes() {
		out[n.GetFQName()] = string(n.getState())
	}
	return out
}

// TopOuts reads the top-level pipeline's recorded outputs.
func (h *VerifHarness) TopOuts() ([]byte, error) {
	return os.ReadFile(path.Join(h.Ps.getNode().path, defaultFork, OutsFile.FileName()))
}

// TopPath is the directory of the top-level pipeline call.
func (h *VerifHarness) TopPath() string { return h.Ps.getNode().path }

// ---------------------------------------------------------------------------
// The model job: the protocol mrjob and the stage adapter speak.

func effect(site, op, p string) bool { return vshim.Effect("job:"+site, op, p) }

// jobWrite is a plain (non-atomic) file write by the job process; it
// reports whether the write was performed completely.
func jobWrite(site, p string, data []byte) bool {
	if effect(site, "write", p) {
		os.WriteFile(p, data, 0o644)
		return true
	}
	vshim.Torn(p, data, 0o644)
	return false
}

// JobStart performs what happens between the job manager launching the
// process and the stage code being entered: _stdout/_stderr created,
// _queued_locally removed (local job manager), then the monitor (mrjob)
// creates _log, journals stdout/stderr, rewrites _jobinfo with its pid and
// journals the log.
func (h *VerifHarness) JobStart(j *VerifJob, pid int) {
	if j.Step != 0 {
		return
	}
	md := j.job
	jobWrite("stdout", md.MetadataFilePath(StdOut), []byte("[stdout]\n"))
	jobWrite("stderr", md.MetadataFilePath(StdErr), []byte("[stderr]\n"))
	if effect("dequeue", "remove", md.MetadataFilePath(QueuedLocally)) {
		os.Remove(md.MetadataFilePath(QueuedLocally))
	}
	if effect("log", "write", md.MetadataFilePath(LogFile)) {
		if f, err := os.OpenFile(md.MetadataFilePath(LogFile),
			os.O_WRONLY|os.O_CREATE|os.O_APPEND, 0o644); err == nil {
			f.Close()
		}
	}
	h.journal(md, StdOut)
	h.journal(md, StdErr)
	var ji JobInfo
	if err := md.ReadInto(JobInfoFile, &ji); err == nil {
		ji.Pid = pid
		ji.Cwd = md.FilesPath()
		ji.Host = "verif"
		if effect("jobinfo", "write", md.MetadataFilePath(JobInfoFile)) {
			md.WriteAtomic(JobInfoFile, &ji)
		}
	}
	h.journal(md, LogFile)
	j.Step = 1
	h.event("start", j.Key(), "")
}

func (h *VerifHarness) journal(md *Metadata, name MetadataFileName) {
	// Metadata.UpdateJournal is itself a numbered effect (rewritten os.WriteFile)
	md.UpdateJournal(name)
}

// VerifJobInput is what the stage code of a job can read.
type VerifJobInput struct {
	Args      json.RawMessage
	Outs      json.RawMessage // the pre-populated _outs
	ChunkDefs json.RawMessage // join only
	ChunkOuts json.RawMessage // join only
	ArgsErr   string
}

// JobRead reads what the stage adapter reads.
func (h *VerifHarness) JobRead(j *VerifJob) VerifJobInput {
	var in VerifJobInput
	b, err := j.job.readRawBytes(ArgsFile)
	if err != nil {
		in.ArgsErr = err.Error()
	}
	in.Args = b
	in.Outs, _ = j.job.readRawBytes(OutsFile)
	if j.Phase == "join" {
		in.ChunkDefs, _ = j.job.readRawBytes(ChunkDefsFile)
		in.ChunkOuts, _ = j.job.readRawBytes(ChunkOutsFile)
	}
	return in
}

// JobWriteRaw writes a metadata file the way the adapter does (plain write
// followed by a journal entry).
func (h *VerifHarness) JobWriteRaw(j *VerifJob, name string, data []byte, journal bool) {
	fn := MetadataFileName(name)
	jobWrite("adapter:"+name, j.job.MetadataFilePath(fn), data)
	if journal {
		h.journal(j.job, fn)
	}
}

// JobWriteFile lets the stage code write an output file under its files
// directory (or anywhere else).
func (h *VerifHarness) JobWriteFile(j *VerifJob, p string, data []byte) {
	os.MkdirAll(path.Dir(p), 0o755)
	jobWrite("stagefile", p, data)
}

// JobBodyDone marks the stage code as having returned.
func (h *VerifHarness) JobBodyDone(j *VerifJob, info string) {
	j.Step = 2
	h.event("body", j.Key(), info)
}

// JobFinish performs mrjob's termination protocol.  how is one of
// complete | errors | assert | none (process vanished without a trace).
func (h *VerifHarness) JobFinish(j *VerifJob, how, msg string) (recorded bool) {
	md := j.job
	if how != "none" {
		var ji JobInfo
		if err := md.ReadInto(JobInfoFile, &ji); err == nil {
			if effect("jobinfo-final", "write", md.MetadataFilePath(JobInfoFile)) {
				md.WriteAtomic(JobInfoFile, &ji)
			}
			h.journal(md, JobInfoFile)
		}
	}
	switch how {
	case "complete":
		recorded = jobWrite("complete", md.MetadataFilePath(CompleteFile), []byte(util.Timestamp()))
		h.journal(md, CompleteFile)
	case "errors":
		jobWrite("errors", md.MetadataFilePath(Errors), []byte(msg))
		h.journal(md, Errors)
	case "assert":
		jobWrite("assert", md.MetadataFilePath(Assert), []byte(msg))
		h.journal(md, Assert)
	case "jm-errors":
		// The local job manager notices a failed process which left no
		// _errors and writes one itself (jobmanager_local.go Enqueue); this
		// goes through the mrp-side metadata object, without a journal entry.
		if _, err := j.mrpMd.readRawSafe(Errors); os.IsNotExist(err) {
			j.mrpMd.WriteErrorString(msg)
		}
	case "none":
	}
	j.Step = 3
	h.event("finish", j.Key(), how)
	return recorded
}

// JobsCatchSignal does what the job monitors of the running jobs do when mrp
// dies or is signalled (they get SIGTERM through the process group or
// PR_SET_PDEATHSIG): mrjob's HandleSignal records "_errors: Caught signal
// terminated" and journals it.  These writes belong to other processes than
// the dead mrp, so they are not suppressed.  Returns the jobs concerned.
func (h *VerifHarness) JobsCatchSignal() []string {
	var out []string
	for _, j := range h.Jobs {
		if j.Step != 1 && j.Step != 2 {
			continue
		}
		md := j.job
		if md == nil {
			continue
		}
		if _, err := os.Stat(md.MetadataFilePath(CompleteFile)); err == nil {
			continue
		}
		os.WriteFile(md.MetadataFilePath(Errors), []byte("Caught signal terminated"), 0o644)
		os.WriteFile(md.journalPath+"."+md.journalPrefix+string(Errors), []byte(util.Timestamp()), 0o644)
		j.Step = 3
		out = append(out, j.Key())
	}
	return out
}

// VerifStraggler is a job monitor that outlives its mrp: it was running when
// mrp died and records the termination signal only later.
type VerifStraggler struct {
	Key         string
	ErrorsPath  string
	JournalFile string
}

// RunningJobs lists the monitors that are alive right now (started, not
// finished), as stragglers-to-be.
func (h *VerifHarness) RunningJobs() []VerifStraggler {
	var out []VerifStraggler
	for _, j := range h.Jobs {
		if (j.Step != 1 && j.Step != 2) || j.job == nil {
			continue
		}
		md := j.job
		if _, err := os.Stat(md.MetadataFilePath(CompleteFile)); err == nil {
			continue
		}
		out = append(out, VerifStraggler{Key: j.Key(), ErrorsPath: md.MetadataFilePath(Errors),
			JournalFile: md.journalPath + "." + md.journalPrefix + string(Errors)})
	}
	return out
}

// Write performs the straggler's late record (the directory may have been
// removed by a reset in the meantime: then the write simply fails, as it
// would for the real process).
func (s VerifStraggler) Write() {
	if _, err := os.Stat(path.Dir(s.ErrorsPath)); err != nil {
		return
	}
	os.WriteFile(s.ErrorsPath, []byte("Caught signal terminated"), 0o644)
	os.MkdirAll(path.Dir(s.JournalFile), 0o755)
	os.WriteFile(s.JournalFile, []byte(util.Timestamp()), 0o644)
}

// Pending returns the jobs which have not finished, in submission order.
func (h *VerifHarness) Pending() []*VerifJob {
	var out []*VerifJob
	for _, j := range h.Jobs {
		if j.Step < 3 {
			out = append(out, j)
		}
	}
	return out
}

// StageOf returns the stage name a job belongs to (the callable id).
func (h *VerifHarness) StageOf(j *VerifJob) string {
	fq := j.Fqname
	if i := strings.LastIndex(fq, ".fork"); i >= 0 {
		fq = fq[:i]
	}
	if n := h.Ps.getNode().top.allNodes[fq]; n != nil {
		return n.call.Callable().GetId()
	}
	return ""
}

// CallPathOf returns the node fqid (without the ID.<psid>. prefix) of a job.
func (h *VerifHarness) CallPathOf(j *VerifJob) string {
	fq := j.Fqname
	if i := strings.LastIndex(fq, ".fork"); i >= 0 {
		fq = fq[:i]
	}
	return strings.TrimPrefix(fq, "ID."+h.psid+".")
}

// RunDeferred runs goroutine bodies that a GoHook deferred.
func (h *VerifHarness) RunDeferred() {
	for len(h.Deferred) > 0 {
		f := h.Deferred[0]
		h.Deferred = h.Deferred[1:]
		f()
	}
}

func (h *VerifHarness) String() string {
	return fmt.Sprintf("harness(%s, %d jobs, iter %d)", h.psdir, len(h.Jobs), h.Iter)
}

// VdrDebug describes the storage bookkeeping of every stage fork.
func (h *VerifHarness) VdrDebug() []string {
	var out []string
	for _, n := range h.Ps.allNodes() {
		for _, f := range n.forks {
			var args []string
			for a, ns := range f.fileArgs {
				args = append(args, fmt.Sprintf("%s:%d", a, len(ns)))
			}
			out = append(out, fmt.Sprintf("%s state=%s vdrkill=%v partial=%v postnodes=%d fileArgs=%v paramMap=%d",
				f.fqname, f.getState(), f.metadata.exists(VdrKill), f.metadata.exists(PartialVdr),
				len(f.filePostNodes), args, len(f.fileParamMap)))
		}
	}
	return out
}

// verifWriteAtomic numbers atomic metadata writes as file-system effects
// (checks built with the rewrite "call=writeAtomic:verifWriteAtomic").  An
// atomic write is all-or-nothing: suppressed once the process has "died",
// never torn.
func verifWriteAtomic(target string, data []byte) error {
	if !vshim.Effect("martian/core/write_atomic_linux.go:0:writeAtomic", "write-atomic", target) {
		return nil
	}
	return writeAtomic(target, data)
}

// AttachOnly performs ReattachToPipestance alone (no Reset / restart of
// jobs), read-only or for writing, as mrp --inspect / mrp do first.
func (h *VerifHarness) AttachOnly(src, srcPath, psid, psdir string, mroPaths []string, readOnly bool) error {
	h.psid, h.psdir, h.mroPaths, h.src, h.srcPath = psid, psdir, mroPaths, src, srcPath
	ps, err := h.Rt.ReattachToPipestance(psid, psdir, src, srcPath, mroPaths,
		"verif", nil, true, readOnly, context.Background())
	if err != nil {
		return err
	}
	h.Ps = ps
	return nil
}
