//go:build verif

package core

// Scenario types of the C12 check, shared by the scheduled harness
// (checks/c12) and the free-running race pass (checks/c12race).

import (
	"fmt"
	"os/exec"
	"sort"
	"strings"
)

// SemOp is one operation of a harness thread on a ResourceSemaphore.
//
//	acq N      Acquire(N); on success hold it across one scheduling point, then Release(N)
//	hold N     Acquire(N) and never release
//	actual N   UpdateActual(N)
//	size N     UpdateSize(N)
//	free N M   UpdateFreeUsed(N, M)
//	obs        read Reserved/Available/CurrentSize/QueueLength/InUse
type SemOp struct {
	Kind string `json:"k"`
	N    int64  `json:"n,omitempty"`
	M    int64  `json:"m,omitempty"`
}

func (o SemOp) String() string {
	switch o.Kind {
	case "free":
		return fmt.Sprintf("free(%d,%d)", o.N, o.M)
	case "obs":
		return "obs"
	}
	return fmt.Sprintf("%s(%d)", o.Kind, o.N)
}

type SemScenario struct {
	Max     int64     `json:"max"`
	Threads [][]SemOp `json:"threads"`
}

func (sc SemScenario) String() string {
	var ts []string
	for _, t := range sc.Threads {
		var os []string
		for _, o := range t {
			os = append(os, o.String())
		}
		ts = append(ts, strings.Join(os, ";"))
	}
	return fmt.Sprintf("sem{max=%d | %s}", sc.Max, strings.Join(ts, " | "))
}

// JobsOp is one operation of a harness thread on a MaxJobsSemaphore.
//
//	job J        Acquire(md J, blocking); if granted: the job starts (running), one
//	             scheduling point, completes, Release(md J)
//	lost J       as job, but nobody calls Release (the completion is found by FindDone)
//	try J        Acquire(md J, nonblocking) (re-attach); if granted behaves like job
//	cancel J     the job of md J is marked failed (while it may still wait)
//	find         FindDone()
type JobsOp struct {
	Kind string `json:"k"`
	J    int    `json:"j,omitempty"`
}

func (o JobsOp) String() string {
	if o.Kind == "find" {
		return "find"
	}
	return fmt.Sprintf("%s(%d)", o.Kind, o.J)
}

type JobsScenario struct {
	Limit   int        `json:"limit"`
	Jobs    int        `json:"jobs"`
	Threads [][]JobsOp `json:"threads"`
	// Reattach: jobs an earlier mrp submitted and which are running on the
	// cluster; mrp re-attaches them (one after the other, before anything
	// new is submitted, as ReattachToPipestance does).  A thread finishes
	// such a job with the op "finish".
	Reattach []int `json:"reattach,omitempty"`
}

func (sc JobsScenario) String() string {
	var ts []string
	if len(sc.Reattach) > 0 {
		ts = append(ts, fmt.Sprintf("reattached%v", sc.Reattach))
	}
	for _, t := range sc.Threads {
		var os []string
		for _, o := range t {
			os = append(os, o.String())
		}
		ts = append(ts, strings.Join(os, ";"))
	}
	return fmt.Sprintf("jobs{limit=%d | %s}", sc.Limit, strings.Join(ts, " | "))
}

// LocalScenario: jobs enqueued on a LocalJobManager.
type LocalScenario struct {
	Cores   int            `json:"cores"`
	MemGB   int            `json:"mem_gb"`
	VmemGB  int            `json:"vmem_gb"`
	Default [2]int         `json:"default"` // ThreadsPerJob, MemGBPerJob
	Jobs    []JobResources `json:"jobs"`
	// Killed[j]: job j was killed (its metadata says failed) while it was
	// still waiting for its resources.
	Killed []bool `json:"killed,omitempty"`
}

func (sc LocalScenario) String() string {
	var js []string
	for _, j := range sc.Jobs {
		js = append(js, fmt.Sprintf("%g/%g/%g", j.Threads, j.MemGB, j.VMemGB))
	}
	k := ""
	for j, b := range sc.Killed {
		if b {
			k += fmt.Sprintf(" killed=%d", j)
		}
	}
	return fmt.Sprintf("local{cores=%d mem=%d vmem=%d default=%v | %s%s}", sc.Cores, sc.MemGB, sc.VmemGB, sc.Default, strings.Join(js, " "), k)
}

func verifSetState(md *Metadata, names ...MetadataFileName) {
	md.mutex.Lock()
	for _, n := range names {
		md._cacheNoLock(n)
	}
	md.mutex.Unlock()
}

// VerifExecHook replaces executeLocal in the c12 build.
var VerifExecHook func(md *Metadata) error

func verifExecuteLocal(cmd *exec.Cmd, stdoutPath, stderrPath string,
	localpreflight bool, metadata *Metadata) error {
	if VerifExecHook != nil {
		return VerifExecHook(metadata)
	}
	return executeLocal(cmd, stdoutPath, stderrPath, localpreflight, metadata)
}

func newVerifLocalJM(sc LocalScenario) *LocalJobManager {
	jm := &LocalJobManager{
		jobSettings: &JobManagerSettings{ThreadsPerJob: sc.Default[0], MemGBPerJob: sc.Default[1], ExtraVmemGB: 1},
		jobDone:     make(chan struct{}, 1),
		maxCores:    sc.Cores,
		maxMemGB:    sc.MemGB,
		maxVmemMB:   int64(sc.VmemGB) * 1024,
	}
	jm.centcoreSem = NewResourceSemaphore(int64(jm.maxCores)*100, formatCentiThreads)
	jm.memMBSem = NewResourceSemaphore(int64(jm.maxMemGB)*1024, formatMemMB)
	if jm.maxVmemMB > 0 {
		jm.vmemMBSem = NewResourceSemaphore(jm.maxVmemMB, formatVMemMB)
	}
	return jm
}

func keysOf(m map[int]bool) []int {
	var out []int
	for k := range m {
		out = append(out, k)
	}
	sort.Ints(out)
	return out
}
