//go:build verif

package core

// Seams for the C18 check (shell quoting and cluster job scripts).

func VerifShellSafeQuote(s string) string { return shellSafeQuote(s) }

func VerifFormatArgs(envs map[string]string, shellCmd string, argv []string) string {
	return formatArgs(envs, shellCmd, argv)
}

// VerifJobScript renders the job script exactly as RemoteJobManager.sendJob
// does, for a given template text.
func VerifJobScript(template string, threading bool, threadEnvs []string,
	shellCmd string, argv []string, envs map[string]string,
	mdPath, filesPath string, fqname, shellName string) string {
	jm := &RemoteJobManager{
		jobMode: "verif",
		config: jobManagerConfig{
			jobSettings: &JobManagerSettings{
				ThreadsPerJob: 1, MemGBPerJob: 1, ExtraVmemGB: 1,
				ThreadEnvs: threadEnvs,
			},
			jobTemplate:      template,
			threadingEnabled: threading,
		},
		jobResourcesMappings: map[string]string{},
	}
	md := NewMetadata(fqname, mdPath)
	md.curFilesPath = filesPath
	res := &JobResources{Threads: 1, MemGB: 1}
	return jm.jobScript(shellCmd, argv, envs, md, res, fqname, shellName)
}
