//go:build verif

package core

// Seams for the C11 check (fork identities and journal routing).

import (
	"context"
	"os"
	"path"
	"sort"
	"strings"
)

// VerifMakeKeySafe is the directory-name encoding of a map key.
func VerifMakeKeySafe(k string) string { return makeKeySafe(k) }

// VerifMapForkString is the fork id of a single map-key fork ("fork_<key>").
func VerifMapForkString(k string) string { return mapKeyFork(k).forkString() }

// VerifArrayForkString is the fork id of a single array-index fork.
func VerifArrayForkString(i int) string { return arrayIndexFork(i).forkString() }

// VerifEncodeJournalName is the extra encoding applied to a fork id before it
// becomes part of a journal file name.
func VerifEncodeJournalName(id string) string { return encodeJournalName.Replace(id) }

// VerifParseRunFilename is Node.parseRunFilename.
func VerifParseRunFilename(name string) (fqname, fork string, chunk int, uniq, state string) {
	var n *Node
	return n.parseRunFilename(name)
}

// VerifMd describes one metadata object of a pipestance.
type VerifMd struct {
	Kind    string // node fork split join chunk
	Fqname  string
	Path    string
	RunFile string // what a job of this object is given as its journal prefix
	Prefix  string // split_ / join_ / ""
	Uniq    string
	Call    string // fqid of the owning call
	ForkId  string
	Chunk   int
	md      *Metadata
}

// VerifMetadatas lists every metadata object of the pipestance in a
// deterministic order.
func (h *VerifHarness) VerifMetadatas() []VerifMd {
	var out []VerifMd
	nodes := h.Ps.getNode().allNodes()
	sort.Slice(nodes, func(i, j int) bool { return nodes[i].call.GetFqid() < nodes[j].call.GetFqid() })
	for _, n := range nodes {
		fq := n.call.GetFqid()
		out = append(out, VerifMd{Kind: "node", Fqname: n.metadata.fqname, Path: n.metadata.path, Call: fq, Chunk: -1, md: n.metadata})
		for _, f := range n.forks {
			out = append(out, VerifMd{Kind: "fork", Fqname: f.metadata.fqname, Path: f.metadata.path, Call: fq, ForkId: f.id, Chunk: -1, md: f.metadata})
			out = append(out, VerifMd{Kind: "split", Fqname: f.split_metadata.fqname, Path: f.split_metadata.path,
				RunFile: f.split_metadata.journalFile(), Prefix: SplitPrefix, Uniq: f.split_metadata.uniquifier,
				Call: fq, ForkId: f.id, Chunk: -1, md: f.split_metadata})
			out = append(out, VerifMd{Kind: "join", Fqname: f.join_metadata.fqname, Path: f.join_metadata.path,
				RunFile: f.join_metadata.journalFile(), Prefix: JoinPrefix, Uniq: f.join_metadata.uniquifier,
				Call: fq, ForkId: f.id, Chunk: -1, md: f.join_metadata})
			for _, c := range f.chunks {
				out = append(out, VerifMd{Kind: "chunk", Fqname: c.metadata.fqname, Path: c.metadata.path,
					RunFile: c.metadata.journalFile(), Uniq: c.metadata.uniquifier,
					Call: fq, ForkId: f.id, Chunk: c.index, md: c.metadata})
			}
		}
	}
	return out
}

func (m *VerifMd) has(name MetadataFileName) bool {
	m.md.mutex.Lock()
	defer m.md.mutex.Unlock()
	_, ok := m.md.contents[name]
	return ok
}

// VerifProbeRoute writes the journal file a job of mds[owner] would write for
// notification name (with the given journal file base, normally
// path.Base(mds[owner].RunFile)), lets mrp consume the journal, and returns
// the indices of the metadata objects that were told about the notification.
func (h *VerifHarness) VerifProbeRoute(mds []VerifMd, base, prefix, name string) (got []int, err error) {
	fn := MetadataFileName(name)
	had := make([]bool, len(mds))
	for i := range mds {
		had[i] = mds[i].has(fn)
		mds[i].md.uncache(fn)
	}
	// the journal directory is removed when the pipestance completes
	os.MkdirAll(h.Ps.getNode().top.journalPath, 0755)
	jf := path.Join(h.Ps.getNode().top.journalPath, base+"."+prefix+name)
	if err := os.WriteFile(jf, []byte("probe"), 0644); err != nil {
		return nil, err
	}
	h.Ps.getNode().refreshState(true)
	os.Remove(jf)
	for i := range mds {
		if mds[i].has(fn) {
			got = append(got, i)
		}
		mds[i].md.uncache(fn)
		if had[i] {
			mds[i].md.mutex.Lock()
			mds[i].md._cacheNoLock(fn)
			mds[i].md.mutex.Unlock()
		}
	}
	return got, nil
}

// VerifForkDirs lists, per stage call, the fork directory names on disk
// (relative to the call's directory; nested fork ids are joined with '/').
func (h *VerifHarness) VerifForkDirs() map[string][]string {
	out := map[string][]string{}
	for _, n := range h.Ps.getNode().allNodes() {
		var ids []string
		for _, f := range n.forks {
			rel := strings.TrimPrefix(f.path, n.path+"/")
			ids = append(ids, rel)
		}
		out[n.call.GetFqid()] = ids
	}
	return out
}

var _ = context.Background
