//go:build verif

package util

import "syscall"

// VerifDeliverSignal does what the signal goroutine of SetupSignalHandlers
// does between receiving a handled signal and os.Exit, synchronously: if a
// critical section is open it returns false (the real handler would block and
// the process would keep running until the section is left); otherwise it runs
// every registered handler and returns true - the process is dead from here.
func VerifDeliverSignal() bool {
	if !signalHandler.criticalSection.TryLock() {
		return false
	}
	signalHandler.mutex.Lock()
	objs := make([]HandlerObject, 0, len(signalHandler.objects))
	for o := range signalHandler.objects {
		objs = append(objs, o)
	}
	signalHandler.mutex.Unlock()
	for _, o := range objs {
		o.HandleSignal(syscall.SIGTERM)
	}
	// the next incarnation lives in the same process
	signalHandler.criticalSection.Unlock()
	return true
}

// VerifResetSignalHandlers forgets the handlers of a dead incarnation.
func VerifResetSignalHandlers() {
	signalHandler.mutex.Lock()
	signalHandler.objects = nil
	signalHandler.mutex.Unlock()
}
