//go:build verif

package vshim

// A cooperative scheduler for exhaustive interleaving exploration (C12).
//
// Code rewritten with the "sync" rewrite uses vshim.Mutex / vshim.Cond /
// vshim.ChanRecv / vshim.ChanClose instead of sync.Mutex / sync.Cond /
// "<-c" / close(c), and vshim.Go instead of go statements.  While a Sched is
// active exactly one of the scheduled goroutines ("threads") runs at a time;
// before every potentially blocking operation (Lock, Cond.Wait and its
// re-acquisition, receive from a channel that is not ready, thread start) the
// thread parks and the controller decides which enabled thread continues.
// The sequence of decisions is the schedule; replaying a recorded prefix and
// taking choice 0 afterwards is deterministic.  With no active Sched the
// types behave like their sync counterparts.

import (
	"fmt"
	"reflect"
	"runtime/debug"
	"sync"
)

type opKind int

const (
	opStart opKind = iota
	opLock
	opCond
	opRecv
	opYield
)

type op struct {
	kind opKind
	m    *Mutex
	ch   uintptr
}

type thr struct {
	id       int
	name     string
	wake     chan bool
	pend     op
	done     bool
	signaled bool
}

// Decision is one scheduling decision.
type Decision struct {
	Enabled        []int // thread ids, canonical order: the running thread first if enabled, then ascending
	Choice         int
	Running        int // thread that ran last (-1 at the start)
	RunningEnabled bool
}

// Sched is one controlled execution.
type Sched struct {
	threads []*thr
	cur     *thr
	last    int
	prefix  []int
	Trace   []Decision
	aborted bool
	yield   chan struct{}
	closed  map[uintptr]bool
	keep    []interface{} // closed channels stay referenced: their addresses are identities
	Log     []string
	// UnlockHook is called (in the unlocking thread, scheduler state stable)
	// just before a scheduled Mutex is released.
	UnlockHook func(m *Mutex, thread int)
	MaxSteps   int
	Steps      int
	Err        string   // replay divergence, step limit
	Panic      string   // a thread panicked
	Blocked    []string // threads still blocked when nothing was enabled
}

var active *Sched

var abortSentinel = new(int)

// Active returns the running scheduler (nil outside RunOnce).
func Active() *Sched { return active }

// Cur is the id of the running thread.
func (s *Sched) Cur() int {
	if s.cur == nil {
		return -1
	}
	return s.cur.id
}

// Logf appends to the event log of the active execution.
func Logf(format string, a ...interface{}) {
	if s := active; s != nil && !s.aborted {
		s.Log = append(s.Log, fmt.Sprintf(format, a...))
	}
}

func (s *Sched) enabled(t *thr) bool {
	if t.done {
		return false
	}
	switch t.pend.kind {
	case opStart, opYield:
		return true
	case opLock:
		return !t.pend.m.held
	case opCond:
		return t.signaled
	case opRecv:
		return s.closed[t.pend.ch]
	}
	return false
}

func (s *Sched) spawn(name string, fn func()) *thr {
	t := &thr{id: len(s.threads), name: name, wake: make(chan bool)}
	t.pend = op{kind: opStart}
	s.threads = append(s.threads, t)
	go func() {
		ok := <-t.wake
		if !ok {
			t.done = true
			s.yield <- struct{}{}
			return
		}
		defer func() {
			if r := recover(); r != nil && r != interface{}(abortSentinel) {
				if s.Panic == "" {
					s.Panic = fmt.Sprintf("thread %d (%s): %v\n%s", t.id, t.name, r, debug.Stack())
				}
			}
			t.done = true
			s.yield <- struct{}{}
		}()
		fn()
	}()
	return t
}

// point parks the running thread with its pending operation and resumes when
// the controller picked it again (the operation is then enabled).
func (s *Sched) point(o op) {
	t := s.cur
	t.pend = o
	s.yield <- struct{}{}
	if ok := <-t.wake; !ok {
		panic(abortSentinel)
	}
}

// RunOnce executes body as thread 0 under the scheduler, replaying prefix and
// then always taking choice 0.
func RunOnce(prefix []int, maxSteps int, body func()) *Sched {
	s := &Sched{prefix: prefix, yield: make(chan struct{}), closed: map[uintptr]bool{}, last: -1, MaxSteps: maxSteps}
	if active != nil {
		panic("vshim: nested RunOnce")
	}
	active = s
	prevGo := GoHook
	GoHook = func(site string, fn func()) bool {
		if s.aborted {
			return true // drop goroutines spawned while unwinding
		}
		s.spawn(site, fn)
		return true
	}
	s.spawn("main", body)
	for {
		var en []*thr
		runEn := false
		for _, t := range s.threads {
			if s.enabled(t) {
				if t.id == s.last {
					runEn = true
				} else {
					en = append(en, t)
				}
			}
		}
		if runEn {
			en = append([]*thr{s.threads[s.last]}, en...)
		}
		if len(en) == 0 {
			break
		}
		if s.Steps >= s.MaxSteps {
			s.Err = fmt.Sprintf("step limit %d reached", s.MaxSteps)
			break
		}
		choice := 0
		if len(s.Trace) < len(s.prefix) {
			choice = s.prefix[len(s.Trace)]
			if choice < 0 || choice >= len(en) {
				s.Err = fmt.Sprintf("replay divergence at decision %d: choice %d of %d enabled", len(s.Trace), choice, len(en))
				break
			}
		}
		d := Decision{Choice: choice, Running: s.last, RunningEnabled: runEn}
		for _, t := range en {
			d.Enabled = append(d.Enabled, t.id)
		}
		s.Trace = append(s.Trace, d)
		t := en[choice]
		s.cur, s.last = t, t.id
		s.Steps++
		t.wake <- true
		<-s.yield
		if s.Panic != "" {
			break
		}
	}
	for _, t := range s.threads {
		if !t.done {
			s.Blocked = append(s.Blocked, fmt.Sprintf("%d:%s", t.id, t.name))
		}
	}
	// unwind whatever is still parked
	s.aborted = true
	for i := 0; i < len(s.threads); i++ { // threads may not grow while aborted
		t := s.threads[i]
		if !t.done {
			s.cur = t
			t.wake <- false
			<-s.yield
		}
	}
	s.cur = nil
	active = nil
	GoHook = prevGo
	return s
}

// Yield is an explicit scheduling point (used by harness bodies to model a
// running job: other threads may run here).
func Yield() {
	if s := active; s != nil && !s.aborted && s.cur != nil {
		s.point(op{kind: opYield})
	}
}

// Mutex replaces sync.Mutex in rewritten files.
type Mutex struct {
	real sync.Mutex
	held bool
}

func (m *Mutex) Lock() {
	s := active
	if s == nil {
		m.real.Lock()
		return
	}
	if s.aborted {
		return
	}
	s.point(op{kind: opLock, m: m})
	if m.held {
		panic("vshim: scheduled a thread onto a held mutex")
	}
	m.held = true
}

func (m *Mutex) Unlock() {
	s := active
	if s == nil {
		m.real.Unlock()
		return
	}
	if s.aborted {
		return
	}
	if !m.held {
		panic("vshim: unlock of unlocked mutex")
	}
	if s.UnlockHook != nil {
		s.UnlockHook(m, s.cur.id)
	}
	m.held = false
}

// Cond replaces sync.Cond.  Signal wakes the longest-waiting thread, as the
// Go runtime's notifyList does.
type Cond struct {
	L       sync.Locker
	waiters []*thr
	real    *sync.Cond
}

func NewCond(l sync.Locker) *Cond { return &Cond{L: l, real: sync.NewCond(l)} }

func (c *Cond) Wait() {
	s := active
	if s == nil {
		c.real.Wait()
		return
	}
	if s.aborted {
		panic(abortSentinel)
	}
	t := s.cur
	t.signaled = false
	c.waiters = append(c.waiters, t)
	c.L.Unlock()
	s.point(op{kind: opCond})
	c.L.Lock()
}

// VerifWaiters lists the ids of the threads waiting on the condition.
func (c *Cond) VerifWaiters() []int {
	var out []int
	for _, t := range c.waiters {
		out = append(out, t.id)
	}
	return out
}

func (c *Cond) Signal() {
	s := active
	if s == nil {
		c.real.Signal()
		return
	}
	if s.aborted {
		return
	}
	if len(c.waiters) > 0 {
		c.waiters[0].signaled = true
		c.waiters = c.waiters[1:]
	}
}

func (c *Cond) Broadcast() {
	s := active
	if s == nil {
		c.real.Broadcast()
		return
	}
	if s.aborted {
		return
	}
	for _, t := range c.waiters {
		t.signaled = true
	}
	c.waiters = nil
}

func chanID(c interface{}) uintptr { return reflect.ValueOf(c).Pointer() }

// ChanRecv replaces "<-c".  Under the scheduler only channels that are used
// as one-shot signals (closed by ChanClose) are supported.
func ChanRecv[T any](c <-chan T) T {
	s := active
	if s == nil {
		return <-c
	}
	for {
		select {
		case v := <-c:
			return v
		default:
		}
		if s.aborted {
			panic(abortSentinel)
		}
		s.point(op{kind: opRecv, ch: chanID(c)})
	}
}

// ChanClose replaces close(c).
func ChanClose[T any](c chan<- T) {
	close(c)
	if s := active; s != nil && !s.aborted {
		s.closed[chanID(c)] = true
		s.keep = append(s.keep, c)
	}
}
