//go:build verif

// Package vshim is the run-time side of the /verif source rewrites: every
// rewritten map iteration, go statement and file-system effect passes through
// a hook that the explorer owns.  With no hook installed the behaviour is the
// original one, except that map iteration order is the sorted order.
package vshim

import (
	"fmt"
	"io/fs"
	"os"
	"sort"
	"sync"
	"time"
)

// Keyer is implemented (in overlay files) by pointer types that are used as
// map keys, to give them a run-independent order.
type Keyer interface{ VerifKey() string }

var (
	// KeysHook may return a permutation of [0,n) to apply to the sorted key
	// snapshot of the map iterated at site, or nil for the default order.
	KeysHook func(site string, n int) []int
	// GoHook may take over a go statement; it returns false to let the
	// goroutine be spawned normally.
	GoHook func(site string, fn func()) bool
	// FsHook is called before every file-system effect; returning false
	// suppresses the effect (the process has "crashed").
	FsHook func(site, op, path string) bool
	// TornHook, when it returns n >= 0 for a write effect that FsHook
	// suppressed, makes the write leave the first n bytes behind (a torn
	// write: the process died in the middle of it).
	TornHook func() int
	// PidHook overrides os.Getpid for code rewritten with the pid rewrite.
	PidHook func() int

	mu             sync.Mutex
	UnorderedSites = map[string]int{}
)

func keyString(k interface{}) (string, bool) {
	switch k := k.(type) {
	case nil:
		return "", true
	case string:
		return k, true
	case Keyer:
		return k.VerifKey(), true
	case fmt.Stringer:
		return k.String(), true
	case int:
		return fmt.Sprintf("%020d", k+1<<40), true
	case int64:
		return fmt.Sprintf("%020d", k+1<<40), true
	case uint64:
		return fmt.Sprintf("%020d", k), true
	case bool:
		return fmt.Sprint(k), true
	}
	return "", false
}

// Keys returns a snapshot of the keys of m in the explorer-chosen order.
func Keys[M ~map[K]V, K comparable, V any](site string, m M) []K {
	if len(m) == 0 {
		return nil
	}
	keys := make([]K, 0, len(m))
	for k := range m {
		keys = append(keys, k)
	}
	if len(keys) < 2 {
		return keys
	}
	strs := make([]string, len(keys))
	ordered := true
	for i, k := range keys {
		s, ok := keyString(interface{}(k))
		if !ok {
			s = fmt.Sprintf("%T:%v", k, k)
			if _, isStr := interface{}(k).(string); !isStr {
				// value-typed keys (e.g. named strings) print fine; pointers
				// without VerifKey do not have a stable order.
				if len(s) > 2 && (fmt.Sprintf("%p", interface{}(k)) != "%!p("+fmt.Sprintf("%T=%v", k, k)+")") {
					ordered = ordered && !isPointerLike(interface{}(k))
				}
			}
		}
		strs[i] = s
	}
	if !ordered {
		mu.Lock()
		UnorderedSites[site]++
		mu.Unlock()
	}
	idx := make([]int, len(keys))
	for i := range idx {
		idx[i] = i
	}
	sort.SliceStable(idx, func(a, b int) bool { return strs[idx[a]] < strs[idx[b]] })
	sorted := make([]K, len(keys))
	for i, j := range idx {
		sorted[i] = keys[j]
	}
	if h := KeysHook; h != nil {
		if perm := h(site, len(sorted)); perm != nil {
			if len(perm) != len(sorted) {
				panic(fmt.Sprintf("vshim: bad permutation length %d for %d keys at %s", len(perm), len(sorted), site))
			}
			out := make([]K, len(sorted))
			for i, p := range perm {
				out[i] = sorted[p]
			}
			return out
		}
	}
	return sorted
}

func isPointerLike(k interface{}) bool {
	s := fmt.Sprintf("%v", k)
	return len(s) > 2 && s[0] == '0' && s[1] == 'x' || (len(s) > 3 && s[0] == '&')
}

// Go runs fn as the go statement at site would.
func Go(site string, fn func()) {
	if h := GoHook; h != nil && h(site, fn) {
		return
	}
	go fn()
}

func fsOK(site, op, path string) bool {
	if h := FsHook; h != nil {
		return h(site, op, path)
	}
	return true
}

// Effect lets harness code (model jobs) number its own file-system effects.
func Effect(site, op, path string) bool { return fsOK(site, op, path) }

func OsWriteFile(site, name string, data []byte, perm os.FileMode) error {
	if !fsOK(site, "write", name) {
		Torn(name, data, perm)
		return nil
	}
	return os.WriteFile(name, data, perm)
}

// Torn performs the partial write of a suppressed write effect, if the
// explorer asked for one.
func Torn(name string, data []byte, perm os.FileMode) {
	if h := TornHook; h != nil {
		if n := h(); n >= 0 || n == -2 {
			if n == -2 {
				n = len(data) / 2
			}
			if n > len(data) {
				n = len(data)
			}
			os.WriteFile(name, data[:n], perm)
		}
	}
}

// ClockOffset is added to the wall clock by Now (files rewritten with
// "time=").  The harness advances it where mrp would have waited.
var ClockOffset time.Duration

// Frozen, when not the zero time, is what the wall clock of rewritten files
// shows (plus ClockOffset): the harness owns the clock, so that "within the
// same second" is a decision of the explorer and not an accident of the run.
var Frozen time.Time

// Now replaces time.Now in rewritten files.
func Now() time.Time {
	if !Frozen.IsZero() {
		return Frozen.Add(ClockOffset)
	}
	return time.Now().Add(ClockOffset)
}

// Getpid is os.Getpid unless the explorer overrides it.
func Getpid() int {
	if h := PidHook; h != nil {
		return h()
	}
	return os.Getpid()
}

func OsRemove(site, name string) error {
	if !fsOK(site, "remove", name) {
		return nil
	}
	return os.Remove(name)
}

func OsRemoveAll(site, name string) error {
	if !fsOK(site, "removeall", name) {
		return nil
	}
	return os.RemoveAll(name)
}

func OsRename(site, from, to string) error {
	if !fsOK(site, "rename", to) {
		return nil
	}
	return os.Rename(from, to)
}

func OsSymlink(site, target, name string) error {
	if !fsOK(site, "symlink", name) {
		return nil
	}
	return os.Symlink(target, name)
}

func OsLink(site, target, name string) error {
	if !fsOK(site, "link", name) {
		return nil
	}
	return os.Link(target, name)
}

func OsMkdir(site, name string, perm os.FileMode) error {
	if !fsOK(site, "mkdir", name) {
		return nil
	}
	return os.Mkdir(name, perm)
}

func OsMkdirAll(site, name string, perm os.FileMode) error {
	if !fsOK(site, "mkdirall", name) {
		return nil
	}
	return os.MkdirAll(name, perm)
}

func OsCreate(site, name string) (*os.File, error) {
	if !fsOK(site, "create", name) {
		return nil, &fs.PathError{Op: "create", Path: name, Err: fs.ErrClosed}
	}
	return os.Create(name)
}

func OsOpenFile(site, name string, flag int, perm os.FileMode) (*os.File, error) {
	if flag&(os.O_WRONLY|os.O_RDWR|os.O_CREATE|os.O_TRUNC|os.O_APPEND) != 0 {
		if !fsOK(site, "open-w", name) {
			return nil, &fs.PathError{Op: "open", Path: name, Err: fs.ErrClosed}
		}
	}
	return os.OpenFile(name, flag, perm)
}
