//go:build verif

package main

// Hook of the instrumented mrp of the real-binary tier (lib/psx/tierb.go).
// Every file-system effect of mrp (rewritten by /verif/rw, "fs") is numbered.
//
//	VERIF_EFFECT_LOG=<file>   append one line per effect
//	VERIF_KILL_AT=<n>         before the n-th effect ...
//	VERIF_KILL_SIG=KILL|TERM|INT   ... mrp sends itself that signal.
//
// SIGKILL: the effect is never performed and no other effect of any goroutine
// gets through (the numbering lock is held until the process is gone).
// TERM/INT: mrp's own signal goroutine (util.SetupSignalHandlers) takes over
// while the signalled goroutine continues, as with a signal from outside.

import (
	"fmt"
	"os"
	"strconv"
	"sync"
	"syscall"
	"time"

	"github.com/martian-lang/martian/martian/vshim"
)

func init() {
	at, _ := strconv.Atoi(os.Getenv("VERIF_KILL_AT"))
	logPath := os.Getenv("VERIF_EFFECT_LOG")
	if at <= 0 && logPath == "" {
		return
	}
	sig := syscall.SIGKILL
	switch os.Getenv("VERIF_KILL_SIG") {
	case "TERM":
		sig = syscall.SIGTERM
	case "INT":
		sig = syscall.SIGINT
	}
	var log *os.File
	if logPath != "" {
		log, _ = os.OpenFile(logPath, os.O_WRONLY|os.O_CREATE|os.O_APPEND, 0o644)
	}
	var mu sync.Mutex
	n := 0
	vshim.FsHook = func(site, op, path string) bool {
		mu.Lock()
		n++
		if log != nil {
			fmt.Fprintf(log, "%d %s %s @%s\n", n, op, path, site)
		}
		if n == at {
			if log != nil {
				fmt.Fprintf(log, "SIGNAL %v before effect %d\n", sig, n)
			}
			syscall.Kill(os.Getpid(), sig)
			if sig == syscall.SIGKILL {
				select {} // never performs the effect; mu stays locked
			}
			mu.Unlock()
			// give the signal goroutine the time to notice the signal
			time.Sleep(30 * time.Millisecond)
			return true
		}
		mu.Unlock()
		return true
	}
}
