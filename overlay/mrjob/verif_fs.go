//go:build verif

package main

// Hook of the instrumented mrjob of the real-binary tier: every file-system
// effect of the job monitor is numbered; for the job selected by
// VERIF_JOB_KILL_MATCH (a substring of the run file name + "." + phase)
// mrp - the parent process - is killed with SIGKILL just before the monitor's
// VERIF_JOB_KILL_AT-th effect, and the monitor carries on (it receives
// SIGTERM through PR_SET_PDEATHSIG, as any local job of a dying mrp does).
//
//	VERIF_JOB_EFFECT_LOG=<dir>  one file per job with its effects

import (
	"fmt"
	"os"
	"path/filepath"
	"regexp"
	"strconv"
	"strings"
	"sync"
	"syscall"
	"time"

	"github.com/martian-lang/martian/martian/vshim"
)

func init() {
	at, _ := strconv.Atoi(os.Getenv("VERIF_JOB_KILL_AT"))
	match := os.Getenv("VERIF_JOB_KILL_MATCH")
	logDir := os.Getenv("VERIF_JOB_EFFECT_LOG")
	if (at <= 0 || match == "") && logDir == "" {
		return
	}
	if len(os.Args) < 5 {
		return
	}
	key := regexp.MustCompile(`\.u[0-9a-f]{10}$`).ReplaceAllString(filepath.Base(os.Args[len(os.Args)-1]), "") +
		"." + os.Args[len(os.Args)-4]
	selected := at > 0 && match != "" && key == match
	var log *os.File
	if logDir != "" {
		os.MkdirAll(logDir, 0o755)
		log, _ = os.OpenFile(filepath.Join(logDir, strings.ReplaceAll(key, "/", "%2F")),
			os.O_WRONLY|os.O_CREATE|os.O_APPEND, 0o644)
	}
	var mu sync.Mutex
	n := 0
	vshim.FsHook = func(site, op, path string) bool {
		mu.Lock()
		defer mu.Unlock()
		n++
		if log != nil {
			fmt.Fprintf(log, "%d %s %s @%s\n", n, op, path, site)
		}
		if selected && n == at {
			ppid := os.Getppid()
			if log != nil {
				fmt.Fprintf(log, "KILL mrp (pid %d) before effect %d\n", ppid, n)
			}
			syscall.Kill(ppid, syscall.SIGKILL)
			for i := 0; i < 2000 && os.Getppid() == ppid; i++ {
				time.Sleep(time.Millisecond)
			}
		}
		return true
	}
}
