//go:build verif

package syntax

import "fmt"

// Run-independent ordering keys for pointer types used as map keys.

func (c *CallStm) VerifKey() string {
	if c == nil {
		return ""
	}
	return fmt.Sprintf("call:%s:%s:%d", c.DecId, c.Id, c.Node.Loc.Line)
}

func (s *SplitExp) VerifKey() string {
	if s == nil {
		return ""
	}
	return "split:" + s.GoString()
}

func (s *Stage) VerifKey() string {
	if s == nil {
		return ""
	}
	return "stage:" + s.Id
}

func (s *Pipeline) VerifKey() string {
	if s == nil {
		return ""
	}
	return "pipeline:" + s.Id
}

func (s *CallGraphStage) VerifKey() string {
	if s == nil {
		return ""
	}
	return "cgs:" + s.Fqid
}

func (s *CallGraphPipeline) VerifKey() string {
	if s == nil {
		return ""
	}
	return "cgp:" + s.Fqid
}
