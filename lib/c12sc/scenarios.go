//go:build verif

// Package c12sc enumerates the scenarios of the C12 check (shared by the
// scheduled exploration and the free-running race pass).
package c12sc

import (
	"github.com/martian-lang/martian/martian/core"
)

// ---------------------------------------------------------------- scenarios

func multisets(vals []int64, k int) [][]int64 {
	var out [][]int64
	var rec func(start int, cur []int64)
	rec = func(start int, cur []int64) {
		if len(cur) == k {
			out = append(out, append([]int64{}, cur...))
			return
		}
		for i := start; i < len(vals); i++ {
			rec(i, append(cur, vals[i]))
		}
	}
	rec(0, nil)
	return out
}

func Sem(thorough bool) []core.SemScenario {
	const max = 4
	amounts := []int64{1, 2, 3, 4, 5}
	updates := []core.SemOp{{Kind: "actual", N: 0}, {Kind: "actual", N: 2}, {Kind: "actual", N: 4},
		{Kind: "size", N: 1}, {Kind: "size", N: 4}, {Kind: "free", N: 0, M: 0}, {Kind: "free", N: 2, M: 1}, {Kind: "free", N: 1, M: 4}}
	var out []core.SemScenario
	add := func(threads ...[]core.SemOp) {
		sc := core.SemScenario{Max: max, Threads: threads}
		out = append(out, sc)
	}
	acq := func(n int64) []core.SemOp { return []core.SemOp{{Kind: "acq", N: n}} }
	for _, ms := range multisets(amounts, 2) {
		add(acq(ms[0]), acq(ms[1]))
		add(acq(ms[0]), acq(ms[1]), []core.SemOp{{Kind: "obs"}})
		for _, u := range updates {
			add(acq(ms[0]), acq(ms[1]), []core.SemOp{u})
			for _, u2 := range updates {
				add(acq(ms[0]), acq(ms[1]), []core.SemOp{u, u2})
			}
		}
		// one request that is never released
		add([]core.SemOp{{Kind: "hold", N: ms[0]}}, acq(ms[1]), []core.SemOp{{Kind: "size", N: 4}})
	}
	for _, ms := range multisets(amounts, 3) {
		add(acq(ms[0]), acq(ms[1]), acq(ms[2]))
		for _, u := range updates {
			add(acq(ms[0]), acq(ms[1]), acq(ms[2]), []core.SemOp{u})
		}
	}
	for _, a := range amounts {
		for _, b := range amounts {
			for _, c := range amounts {
				add([]core.SemOp{{Kind: "acq", N: a}, {Kind: "acq", N: b}}, acq(c))
			}
		}
	}
	if thorough {
		for _, ms := range multisets(amounts[:4], 4) {
			add(acq(ms[0]), acq(ms[1]), acq(ms[2]), acq(ms[3]))
		}
		for _, ms := range multisets(amounts, 3) {
			for _, u := range updates {
				for _, u2 := range updates {
					add(acq(ms[0]), acq(ms[1]), acq(ms[2]), []core.SemOp{u, u2})
				}
			}
		}
	}
	return out
}

func Jobs(thorough bool) []core.JobsScenario {
	var out []core.JobsScenario
	kinds := []string{"job", "lost", "try"}
	fourth := [][]core.JobsOp{nil, {{Kind: "find"}}, {{Kind: "find"}, {Kind: "find"}}, {{Kind: "cancel", J: 1}}, {{Kind: "cancel", J: 1}, {Kind: "find"}}}
	for _, limit := range []int{1, 2} {
		for _, k0 := range kinds {
			for _, k1 := range kinds {
				for _, j1 := range []int{1, 0} {
					for _, k2 := range kinds {
						for _, j2 := range []int{2, 0} {
							for _, f := range fourth {
								threads := [][]core.JobsOp{{{Kind: k0, J: 0}}, {{Kind: k1, J: j1}}, {{Kind: k2, J: j2}}}
								if f != nil {
									threads = append(threads, f)
								}
								sc := core.JobsScenario{Limit: limit, Jobs: 3, Threads: threads}
								out = append(out, sc)
							}
						}
					}
				}
			}
		}
	}
	// after a restart of mrp: jobs that are already running on the cluster are
	// re-attached (as many as fit the limit) before new jobs are submitted
	for _, limit := range []int{1, 2} {
		for _, k := range []string{"job", "try"} {
			out = append(out,
				core.JobsScenario{Limit: limit, Jobs: 3, Reattach: []int{0}, Threads: [][]core.JobsOp{{{Kind: "finish", J: 0}}, {{Kind: k, J: 1}}, {{Kind: "job", J: 2}}}},
				core.JobsScenario{Limit: limit, Jobs: 3, Reattach: []int{0}, Threads: [][]core.JobsOp{{{Kind: "finish", J: 0}}, {{Kind: k, J: 1}}, {{Kind: "find"}}}})
		}
		if limit == 2 {
			out = append(out,
				core.JobsScenario{Limit: limit, Jobs: 3, Reattach: []int{0, 1}, Threads: [][]core.JobsOp{{{Kind: "finish", J: 0}}, {{Kind: "finish", J: 1}}, {{Kind: "job", J: 2}}}})
		}
	}
	if thorough {
		// four submitters
		for _, limit := range []int{1, 2, 3} {
			for _, k := range kinds {
				threads := [][]core.JobsOp{{{Kind: "job", J: 0}}, {{Kind: k, J: 1}}, {{Kind: "job", J: 2}}, {{Kind: k, J: 3}}, {{Kind: "find"}}}
				sc := core.JobsScenario{Limit: limit, Jobs: 4, Threads: threads}
				out = append(out, sc)
			}
		}
	}
	return out
}

var localRequests = []core.JobResources{
	{Threads: 0, MemGB: 0}, {Threads: 1, MemGB: 1}, {Threads: 2, MemGB: 2}, {Threads: 3, MemGB: 1}, {Threads: 1, MemGB: 3},
	{Threads: -1, MemGB: 1}, {Threads: 1, MemGB: -1}, {Threads: 0.5, MemGB: 0.5}, {Threads: 1.5, MemGB: 1},
	{Threads: 0.5, MemGB: 1.5}, {Threads: 0.3, MemGB: 0.75},
}

func Local(thorough bool) []core.LocalScenario {
	var out []core.LocalScenario
	n := len(localRequests)
	for _, vmem := range []int{0, 3} {
		base := core.LocalScenario{Cores: 2, MemGB: 2, VmemGB: vmem, Default: [2]int{1, 1}}
		for a := 0; a < n; a++ {
			for b := a; b < n; b++ {
				sc := base
				sc.Jobs = []core.JobResources{localRequests[a], localRequests[b]}
				out = append(out, sc)
				// one of the jobs is killed while it waits in line
				if a < 3 && b < 3 {
					for k := 0; k < 2; k++ {
						sk := sc
						sk.Killed = make([]bool, 2)
						sk.Killed[k] = true
						out = append(out, sk)
					}
				}
				// triples over the first nine shapes only (the fractional
				// memory shapes are covered in pairs)
				for c := b; c < n && c < 9 && a < 9 && b < 9; c++ {
					sc3 := base
					sc3.Jobs = []core.JobResources{localRequests[a], localRequests[b], localRequests[c]}
					out = append(out, sc3)
					if a < 3 && b < 3 && c < 3 {
						for k := 0; k < 3; k++ {
							sk := sc3
							sk.Killed = make([]bool, 3)
							sk.Killed[k] = true
							out = append(out, sk)
						}
					}
				}
			}
		}
	}
	return out
}
