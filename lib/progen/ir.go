package progen

import (
	"fmt"
	"sort"
	"strings"
)

type TK int

const (
	TInt TK = iota
	TFloat
	TString
	TBool
	TMap  // untyped map
	TFile // "file"
	TPath
	TFiletype // user file type, Name
	TStruct   // Name
	TArray    // Elem
	TTMap     // typed map, Elem
)

// T is an MRO type.
type T struct {
	K    TK
	Name string
	Elem *T
}

var (
	IntT    = &T{K: TInt}
	FloatT  = &T{K: TFloat}
	StringT = &T{K: TString}
	BoolT   = &T{K: TBool}
	MapT    = &T{K: TMap}
	FileT   = &T{K: TFile}
	PathT   = &T{K: TPath}
)

func ArrayOf(t *T) *T       { return &T{K: TArray, Elem: t} }
func TMapOf(t *T) *T        { return &T{K: TTMap, Elem: t} }
func StructT(n string) *T   { return &T{K: TStruct, Name: n} }
func FiletypeT(n string) *T { return &T{K: TFiletype, Name: n} }

func (t *T) String() string {
	switch t.K {
	case TInt:
		return "int"
	case TFloat:
		return "float"
	case TString:
		return "string"
	case TBool:
		return "bool"
	case TMap:
		return "map"
	case TFile:
		return "file"
	case TPath:
		return "path"
	case TFiletype, TStruct:
		return t.Name
	case TArray:
		return t.Elem.String() + "[]"
	case TTMap:
		return "map<" + t.Elem.String() + ">"
	}
	return "?"
}

// Mangle gives an identifier-safe rendering of a type.
func (t *T) Mangle() string {
	s := t.String()
	s = strings.NewReplacer("[]", "_A", "map<", "M_", ">", "").Replace(s)
	return strings.ToUpper(s)
}

// Valid reports whether MRO can express the type (no map of maps).
func (t *T) Valid() bool {
	switch t.K {
	case TArray:
		return t.Elem.Valid()
	case TTMap:
		for e := t.Elem; ; e = e.Elem {
			if e.K == TTMap {
				return false
			}
			if e.K != TArray {
				return e.Valid()
			}
		}
	}
	return true
}

type Param struct {
	T    *T
	Name string
	// OutName is the explicit output file name (out params / struct members).
	OutName string
}

type StructDecl struct {
	Name   string
	Fields []Param
}

type Stage struct {
	Name      string
	Ins       []Param
	Outs      []Param
	Split     bool
	ChunkIns  []Param
	ChunkOuts []Param
	Retain    []string
	// Volatile is the stage-level resource annotation: "", "strict", "false".
	Volatile string
	// Fn names the stage function in the library (defaults to Name).
	Fn string
	// Resources: written into the using (...) block when non-zero.
	Threads float64
	MemGB   float64
	VMemGB  float64
}

type ExpK int

const (
	ELit ExpK = iota
	ERefSelf
	ERefCall
	EArr
	EMap    // map literal (string keys)
	EStruct // struct literal (identifier keys)
	ESplit  // split <exp>, only at the top of a binding of a map call
)

type Exp struct {
	K   ExpK
	Lit *Val
	// LitT, when set, makes the printer render objects at struct-typed
	// positions as struct literals (identifier keys).
	LitT *T
	Prog *Program
	Id   string // param name (self) or call id
	Path string // dotted projection (may be empty)
	Arr  []*Exp
	Keys []string
	Vals []*Exp
	Sub  *Exp
}

func Lit(v *Val) *Exp { return &Exp{K: ELit, Lit: v} }
func Self(id string, path ...string) *Exp {
	return &Exp{K: ERefSelf, Id: id, Path: strings.Join(path, ".")}
}
func Ref(call string, path ...string) *Exp {
	return &Exp{K: ERefCall, Id: call, Path: strings.Join(path, ".")}
}
func SplitE(e *Exp) *Exp                      { return &Exp{K: ESplit, Sub: e} }
func ArrE(es ...*Exp) *Exp                    { return &Exp{K: EArr, Arr: es} }
func MapE(keys []string, vals []*Exp) *Exp    { return &Exp{K: EMap, Keys: keys, Vals: vals} }
func StructE(keys []string, vals []*Exp) *Exp { return &Exp{K: EStruct, Keys: keys, Vals: vals} }

type Bind struct {
	Name string // "*" = wildcard
	E    *Exp
}

type Call struct {
	Callee    string
	Alias     string
	Map       bool
	Binds     []Bind
	Disabled  *Exp
	Volatile  string // "", "true", "strict", "false"
	Preflight bool
	Local     bool
}

func (c *Call) Id() string {
	if c.Alias != "" {
		return c.Alias
	}
	return c.Callee
}

type Pipeline struct {
	Name   string
	Ins    []Param
	Outs   []Param
	Calls  []*Call
	Ret    []Bind
	Retain []*Exp // refs
}

type Program struct {
	Filetypes []string
	Structs   []*StructDecl
	Stages    []*Stage
	Pipelines []*Pipeline
	Top       *Call // the top-level call (callee must be a pipeline)
	// Desc describes the template instance (for evidence and replay).
	Desc string
	// Py: stages are declared as python modules (src py "pystages/<NAME>")
	// instead of compiled executables (src comp "<NAME>").
	Py bool
}

func (p *Program) Struct(name string) *StructDecl {
	for _, s := range p.Structs {
		if s.Name == name {
			return s
		}
	}
	return nil
}

func (p *Program) Stage(name string) *Stage {
	for _, s := range p.Stages {
		if s.Name == name {
			return s
		}
	}
	return nil
}

func (p *Program) Pipeline(name string) *Pipeline {
	for _, s := range p.Pipelines {
		if s.Name == name {
			return s
		}
	}
	return nil
}

// ---------------------------------------------------------------------------
// Printer (independent of the formatter under test)

func writeParams(b *strings.Builder, kind string, ps []Param) {
	for _, p := range ps {
		fmt.Fprintf(b, "    %s %s %s", kind, p.T.String(), p.Name)
		if p.OutName != "" {
			fmt.Fprintf(b, " \"\" %q", p.OutName)
		}
		b.WriteString(",\n")
	}
}

func (e *Exp) String() string {
	switch e.K {
	case ELit:
		if e.LitT != nil && e.Prog != nil {
			return litTyped(e.Prog, e.Lit, e.LitT)
		}
		return litString(e.Lit)
	case ERefSelf:
		if e.Id == "" {
			return "self"
		}
		if e.Path != "" {
			return "self." + e.Id + "." + e.Path
		}
		return "self." + e.Id
	case ERefCall:
		if e.Path != "" {
			return e.Id + "." + e.Path
		}
		return e.Id
	case EArr:
		parts := make([]string, len(e.Arr))
		for i, x := range e.Arr {
			parts[i] = x.String()
		}
		return "[" + strings.Join(parts, ", ") + "]"
	case EMap:
		parts := make([]string, len(e.Keys))
		for i, k := range e.Keys {
			parts[i] = fmt.Sprintf("%q: %s", k, e.Vals[i].String())
		}
		return "{" + strings.Join(parts, ", ") + "}"
	case EStruct:
		parts := make([]string, len(e.Keys))
		for i, k := range e.Keys {
			parts[i] = fmt.Sprintf("%s: %s", k, e.Vals[i].String())
		}
		return "{" + strings.Join(parts, ", ") + "}"
	case ESplit:
		return "split " + e.Sub.String()
	}
	return "?"
}

// TLit is a literal of a known type.
func TLit(p *Program, v *Val, t *T) *Exp { return &Exp{K: ELit, Lit: v, LitT: t, Prog: p} }

// litTyped prints a literal, using struct-literal syntax where the type is a
// struct.
func litTyped(p *Program, v *Val, t *T) string {
	if v == nil || t == nil {
		return litString(v)
	}
	switch {
	case v.K == VArr && t.K == TArray:
		parts := make([]string, len(v.A))
		for i, e := range v.A {
			parts[i] = litTyped(p, e, t.Elem)
		}
		return "[" + strings.Join(parts, ", ") + "]"
	case v.K == VObj && t.K == TTMap:
		var parts []string
		for _, k := range v.Keys() {
			parts = append(parts, fmt.Sprintf("%q: %s", k, litTyped(p, v.O[k], t.Elem)))
		}
		return "{" + strings.Join(parts, ", ") + "}"
	case v.K == VObj && t.K == TStruct:
		sd := p.Struct(t.Name)
		var parts []string
		for _, f := range sd.Fields {
			if fv, ok := v.O[f.Name]; ok {
				parts = append(parts, fmt.Sprintf("%s: %s", f.Name, litTyped(p, fv, f.T)))
			}
		}
		return "{" + strings.Join(parts, ", ") + "}"
	}
	return litString(v)
}

// litString prints a literal value in MRO syntax (JSON-like; objects are
// printed as map literals with quoted keys).
func litString(v *Val) string {
	if v == nil {
		return "null"
	}
	switch v.K {
	case VArr:
		parts := make([]string, len(v.A))
		for i, e := range v.A {
			parts[i] = litString(e)
		}
		return "[" + strings.Join(parts, ", ") + "]"
	case VObj:
		var parts []string
		for _, k := range v.Keys() {
			parts = append(parts, fmt.Sprintf("%q: %s", k, litString(v.O[k])))
		}
		return "{" + strings.Join(parts, ", ") + "}"
	}
	return v.JSON()
}

func writeCall(b *strings.Builder, c *Call, indent string) {
	b.WriteString(indent)
	if c.Map {
		b.WriteString("map ")
	}
	b.WriteString("call " + c.Callee)
	if c.Alias != "" {
		b.WriteString(" as " + c.Alias)
	}
	b.WriteString("(\n")
	for _, bd := range c.Binds {
		fmt.Fprintf(b, "%s    %s = %s,\n", indent, bd.Name, bd.E.String())
	}
	b.WriteString(indent + ")")
	var mods []string
	if c.Disabled != nil {
		mods = append(mods, "disabled = "+c.Disabled.String())
	}
	if c.Volatile != "" {
		mods = append(mods, "volatile = "+c.Volatile)
	}
	if c.Preflight {
		mods = append(mods, "preflight = true")
	}
	if c.Local {
		mods = append(mods, "local = true")
	}
	if len(mods) > 0 {
		b.WriteString(" using (\n")
		for _, m := range mods {
			b.WriteString(indent + "    " + m + ",\n")
		}
		b.WriteString(indent + ")")
	}
	b.WriteString("\n")
}

// MRO prints the program as MRO source text.
func (p *Program) MRO() string {
	var b strings.Builder
	for _, f := range p.Filetypes {
		fmt.Fprintf(&b, "filetype %s;\n", f)
	}
	b.WriteString("\n")
	for _, s := range p.Structs {
		fmt.Fprintf(&b, "struct %s(\n", s.Name)
		for _, f := range s.Fields {
			fmt.Fprintf(&b, "    %s %s", f.T.String(), f.Name)
			if f.OutName != "" {
				fmt.Fprintf(&b, " \"\" %q", f.OutName)
			}
			b.WriteString(",\n")
		}
		b.WriteString(")\n\n")
	}
	for _, s := range p.Stages {
		fmt.Fprintf(&b, "stage %s(\n", s.Name)
		writeParams(&b, "in ", s.Ins)
		writeParams(&b, "out", s.Outs)
		if p.Py {
			fmt.Fprintf(&b, "    src py   \"pystages/%s\",\n", s.Name)
		} else {
			fmt.Fprintf(&b, "    src comp \"%s\",\n", s.Name)
		}
		if s.Split {
			b.WriteString(") split (\n")
			writeParams(&b, "in ", s.ChunkIns)
			writeParams(&b, "out", s.ChunkOuts)
		}
		b.WriteString(")")
		if s.Volatile != "" || s.Threads != 0 || s.MemGB != 0 || s.VMemGB != 0 {
			b.WriteString(" using (\n")
			if s.MemGB != 0 {
				fmt.Fprintf(&b, "    mem_gb = %v,\n", s.MemGB)
			}
			if s.VMemGB != 0 {
				fmt.Fprintf(&b, "    vmem_gb = %v,\n", s.VMemGB)
			}
			if s.Threads != 0 {
				fmt.Fprintf(&b, "    threads = %v,\n", s.Threads)
			}
			if s.Volatile != "" {
				b.WriteString("    volatile = " + s.Volatile + ",\n")
			}
			b.WriteString(")")
		}
		if len(s.Retain) > 0 {
			b.WriteString(" retain (\n")
			for _, r := range s.Retain {
				b.WriteString("    " + r + ",\n")
			}
			b.WriteString(")")
		}
		b.WriteString("\n\n")
	}
	for _, pl := range p.Pipelines {
		fmt.Fprintf(&b, "pipeline %s(\n", pl.Name)
		writeParams(&b, "in ", pl.Ins)
		writeParams(&b, "out", pl.Outs)
		b.WriteString(")\n{\n")
		for _, c := range pl.Calls {
			writeCall(&b, c, "    ")
			b.WriteString("\n")
		}
		b.WriteString("    return (\n")
		for _, r := range pl.Ret {
			fmt.Fprintf(&b, "        %s = %s,\n", r.Name, r.E.String())
		}
		b.WriteString("    )\n")
		if len(pl.Retain) > 0 {
			b.WriteString("\n    retain (\n")
			for _, r := range pl.Retain {
				b.WriteString("        " + r.String() + ",\n")
			}
			b.WriteString("    )\n")
		}
		b.WriteString("}\n\n")
	}
	if p.Top != nil {
		writeCall(&b, p.Top, "")
	}
	return b.String()
}

// UsedStages returns the names of the declared stages, sorted.
func (p *Program) UsedStages() []string {
	var out []string
	for _, s := range p.Stages {
		out = append(out, s.Name)
	}
	sort.Strings(out)
	return out
}
