package progen

import (
	"fmt"
	"os"
	"path/filepath"
	"strconv"
	"strings"
)

// StageIO is what a stage function sees for one job.
type StageIO struct {
	Stage     *Stage
	Phase     string // split | main | join
	Args      *Val   // object
	ChunkDefs []*Val // join
	ChunkOuts []*Val // join
	// OutsTemplate is the pre-populated _outs (real runs only; file paths).
	OutsTemplate *Val
	// FilesPath is the job's files directory (real runs only).
	FilesPath string
	// WriteFile lets a stage function create files (real runs); in the
	// reference interpreter it records the logical write.
	WriteFile func(path string, content string)
	// CheckFile (real runs) verifies that a file or directory named in an
	// argument is present and intact; problems are recorded by the harness.
	CheckFile func(path string)
	// TempPath is the job's temporary directory (real runs).
	TempPath string
	// Symlink creates a symbolic link (real runs).
	Symlink func(target, link string)
	// OutsideDir is a directory outside the pipestance (real runs).
	OutsideDir string
	// RealPath, when set, makes FILEW report its files by their physical
	// path (all symlinks resolved), as a stage using realpath() would.
	RealPath func(path string) string
	// firstFile is the first file FILEW wrote in this job (mode 5).
	firstFile string
}

// FileContent is what FILEW writes into the file at path p: self-describing,
// so that a reader can verify it without knowing the writer.
func FileContent(p string, pad int) string {
	return "FILEW\n" + p + "\n" + strings.Repeat("x", pad)
}

// collectPaths returns every absolute-path string inside a value (including
// object keys).
func collectPaths(v *Val, out []string) []string {
	if v == nil {
		return out
	}
	switch v.K {
	case VStr:
		if strings.HasPrefix(v.S, "/") {
			out = append(out, v.S)
		}
	case VArr:
		for _, e := range v.A {
			out = collectPaths(e, out)
		}
	case VObj:
		for _, k := range v.Keys() {
			out = collectPaths(v.O[k], out)
		}
	}
	return out
}

// filewValue builds the value of a FILEW output of type t whose files are
// named after tag under dir, writing each file.
func filewValue(p *Program, io *StageIO, t *T, n int64, dir, tag string, pad *int) *Val {
	mode := int64(0)
	if io.Args != nil && io.Args.K == VObj {
		if m, ok := io.Args.O["mode"]; ok {
			mode = m.Int()
		}
	}
	write := func(name string) *Val {
		pth := dir + "/" + name
		if dir == "" {
			pth = "@" + name
		}
		*pad += 13
		switch mode {
		case 1: // null instead of a file
			return Null()
		case 2: // names a file that was never written
			return Str(pth)
		case 3: // a relative symlink to the real file
			if io.WriteFile != nil && io.Symlink != nil {
				real := pth + ".real"
				io.WriteFile(real, FileContent(real, *pad))
				io.Symlink(name[strings.LastIndex(name, "/")+1:]+".real", pth)
				return Str(pth)
			}
		case 5: // every file after the first is a relative link, from a
			// sub-directory, to the first file (itself another output)
			if io.WriteFile != nil && io.Symlink != nil && dir != "" && !strings.Contains(name, "/") {
				if io.firstFile == "" {
					io.firstFile = pth
					io.WriteFile(pth, FileContent(pth, *pad))
					return Str(pth)
				}
				if rel, ok := strings.CutPrefix(io.firstFile, dir+"/"); ok && !strings.Contains(rel, "/") {
					link := dir + "/links/" + strings.ReplaceAll(name, "/", "_")
					io.Symlink("../"+rel, link)
					return Str(link)
				}
			}
		case 4, 6: // a file outside the pipestance (6: named relative to the working directory)
			if io.WriteFile != nil && io.OutsideDir != "" {
				out := io.OutsideDir + "/" + strings.ReplaceAll(name, "/", "_")
				io.WriteFile(out, FileContent(out, *pad))
				if mode == 6 {
					if wd, err := os.Getwd(); err == nil {
						if rel, err := filepath.Rel(wd, out); err == nil {
							return Str(rel)
						}
					}
				}
				return Str(out)
			}
		}
		if io.WriteFile != nil {
			io.WriteFile(pth, FileContent(pth, *pad))
		}
		if io.RealPath != nil {
			pth = io.RealPath(pth)
		}
		return Str(pth)
	}
	switch t.K {
	case TFiletype:
		return write(tag + "." + t.Name)
	case TFile:
		return write(tag)
	case TPath:
		d := tag + "_dir"
		if mode == 1 {
			return Null()
		}
		if mode == 2 {
			return Str(dir + "/" + d)
		}
		if mode == 4 || mode == 6 {
			// a directory outside the pipestance
			if io.WriteFile != nil && io.OutsideDir != "" {
				od := io.OutsideDir + "/" + d
				io.WriteFile(od+"/inner.dat", FileContent(od+"/inner.dat", *pad))
				return Str(od)
			}
		}
		write(d + "/inner.dat")
		if dir == "" {
			return Str("@" + d)
		}
		if mode == 7 {
			// the directory named with a trailing slash
			return Str(dir + "/" + d + "/")
		}
		return Str(dir + "/" + d)
	case TString:
		return write(tag + ".str.dat")
	case TMap:
		return Obj(map[string]*Val{"path": write(tag + ".um.dat"), "n": Int(n)})
	case TInt:
		return Int(n)
	case TArray:
		a := &Val{K: VArr}
		for i := int64(0); i < n; i++ {
			a.A = append(a.A, filewValue(p, io, t.Elem, n, dir, fmt.Sprintf("%s_%d", tag, i), pad))
		}
		return a
	case TTMap:
		o := Obj(nil)
		kstyle := int64(0)
		if io.Args != nil && io.Args.K == VObj {
			if m, ok := io.Args.O["kstyle"]; ok {
				kstyle = m.Int()
			}
		}
		for i := int64(0); i < n; i++ {
			k := "k" + strconv.FormatInt(i, 10)
			o.O[MapKeyStyle(kstyle, i)] = filewValue(p, io, t.Elem, n, dir, tag+"_"+k, pad)
		}
		return o
	case TStruct:
		sd := p.Struct(t.Name)
		o := Obj(nil)
		for _, f := range sd.Fields {
			o.O[f.Name] = filewValue(p, io, f.T, n, dir, tag+"_"+f.Name, pad)
		}
		return o
	}
	return Null()
}

// MapKeyStyle gives the i-th key of the typed maps FILEW produces.
// 0 plain; 1 legal file names with unusual characters; 2 a key holding '/';
// 3 the reserved names "." and ".."; 4 the empty key; 5 quotes, backslashes
// and control characters.
func MapKeyStyle(style, i int64) string {
	plain := "k" + strconv.FormatInt(i, 10)
	var special []string
	switch style {
	case 1:
		special = []string{"a b", "\u00fc\u4e2d", "k.2", "%2F", "-x", "*", "~", "$HOME"}
	case 2:
		special = []string{"a/b", "/abs"}
	case 3:
		special = []string{"..", "."}
	case 4:
		special = []string{""}
	case 5:
		special = []string{"q\"uote", "back\\slash", "new\nline", "tab\t", "<&>"}
	case 6:
		// a key that is also the name of a field of the element struct
		special = []string{"f"}
	}
	if int(i) < len(special) {
		return special[i]
	}
	return plain
}

// KeySets are the adversarial map-key sets of the C11 family.  Negative
// selectors -n stand for the plain keys k0..k(n-1).
var KeySets = [][]string{
	{"a", "b"},
	{".", "..", "a.b", "a..b", ".a"},
	{"a/b", "a%2Fb", "a%252Fb", "/", "//"},
	{"%", "%25", "%2E", "%2e", "2E", "%%"},
	{"a b", " a", "a ", " ", "a\tb"},
	{""},
	{"", "0", "fork0"},
	{"\u00fc", "u\u0308", "\u4e2d", "\U0001F600", "\u00e9"},
	{"0", "1", "00", "01", "_0", "10", "-1", "+1"},
	{"fork0", "fork_a", "a/fork_b", ".fork1", "x.fork1.chnk2", "fork1"},
	{"chnk0", "a.chnk0", "a.chnk0.u0123456789", "x.u0123456789", "u0123456789"},
	{"complete", "a.complete", "x.join_complete", "split_complete", "errors"},
	{"A", "a"},
	{"a\nb", "a\"b", "a\\b", "a'b", "a*b", "a?b", "~", "$x", "&", "+", "=", ":", "@", ";", ","},
	{"a%2Eb", "a.b", "a%252Eb"},
	{"k.0", "k/0", "k%0", "k 0", "k_0", "k0"},
	{"a_b", "b", "x_a_b", "_b", "b_"},
	{"a", "ab", "ba", "aba", "b"},
}

// PairAtoms generate the keys of the key-pair family: every key is one or two
// atoms, every unordered pair of distinct keys is a key set (selector
// 1000 + index).
var PairAtoms = []string{"a", "b", "_", ".", "/", "%", "0"}

var pairKeys []string
var pairSets [][2]int

func init() {
	for _, a := range PairAtoms {
		pairKeys = append(pairKeys, a)
	}
	for _, a := range PairAtoms {
		for _, b := range PairAtoms {
			pairKeys = append(pairKeys, a+b)
		}
	}
	for i := range pairKeys {
		for j := i + 1; j < len(pairKeys); j++ {
			pairSets = append(pairSets, [2]int{i, j})
		}
	}
}

// PairSetCount is the number of key pairs.
func PairSetCount() int { return len(pairSets) }

// raggedShapes are the inner lengths of the ragged nests (-1 = null).
var raggedShapes = [][]int{
	{0, 2}, {2, 0}, {0, 1}, {0, 0}, {1, 2}, {0, 1, 2}, {3, 0, 1}, {-1, 2}, {2, -1}, {1, 1}, {0}, {2, 3}, {1, 0, 3, 0}, {0, 2, 0},
}

// RaggedHasNull reports whether ragged shape sel has a null element.
func RaggedHasNull(sel int) bool {
	if sel < 0 || sel >= len(raggedShapes) {
		return false
	}
	for _, n := range raggedShapes[sel] {
		if n < 0 {
			return true
		}
	}
	return false
}

// RaggedCount is the number of ragged shapes.
func RaggedCount() int { return len(raggedShapes) }

// RaggedArrays returns [[..], [..]] with the inner lengths of shape sel.
func RaggedArrays(sel int) *Val {
	out := &Val{K: VArr}
	if sel < 0 || sel >= len(raggedShapes) {
		return out
	}
	v := int64(1)
	for _, n := range raggedShapes[sel] {
		if n < 0 {
			out.A = append(out.A, Null())
			continue
		}
		in := &Val{K: VArr}
		for i := 0; i < n; i++ {
			in.A = append(in.A, Int(v))
			v++
		}
		out.A = append(out.A, in)
	}
	return out
}

// RaggedMaps is RaggedArrays with typed maps (keys ka, kb, ...) as elements.
func RaggedMaps(sel int) *Val {
	out := &Val{K: VArr}
	if sel < 0 || sel >= len(raggedShapes) {
		return out
	}
	v := int64(1)
	for _, n := range raggedShapes[sel] {
		if n < 0 {
			out.A = append(out.A, Null())
			continue
		}
		in := Obj(nil)
		for i := 0; i < n; i++ {
			key := "k" + string(rune('a'+i))
			if sel%2 == 1 {
				// odd shapes: the key sets of the elements are disjoint
				key += strconv.Itoa(len(out.A))
			}
			in.O[key] = Int(v)
			v++
		}
		out.A = append(out.A, in)
	}
	return out
}

// KeySet returns the key set selected by sel.
func KeySet(sel int) []string {
	if sel < 0 {
		var out []string
		for i := 0; i < -sel; i++ {
			out = append(out, "k"+strconv.Itoa(i))
		}
		return out
	}
	if sel < len(KeySets) {
		return KeySets[sel]
	}
	if sel >= 1000 && sel-1000 < len(pairSets) {
		ps := pairSets[sel-1000]
		return []string{pairKeys[ps[0]], pairKeys[ps[1]]}
	}
	return nil
}

// StageResult is what the stage function produced.
type StageResult struct {
	Outs   *Val   // main / join / chunk: object of outputs
	Chunks []*Val // split: chunk defs
}

func argOf(io *StageIO, name string) *Val {
	if io.Args == nil || io.Args.K != VObj {
		return Null()
	}
	if v, ok := io.Args.O[name]; ok {
		return v
	}
	return Null()
}

func collLen(v *Val) int {
	if v == nil {
		return 0
	}
	// elements that carry nothing (null, or collections of nulls only) do
	// not count: the renderings of a disabled or empty mapped call (null,
	// [], [null, null]) must be indistinguishable to every library function
	n := 0
	switch v.K {
	case VArr:
		for _, e := range v.A {
			if !e.NullLike() {
				n++
			}
		}
	case VObj:
		for _, e := range v.O {
			if !e.NullLike() {
				n++
			}
		}
	}
	return n
}

var stringTails = []string{"", "\\", "\",[", "}],{", " \u00e9\\\\", "\\\""}

// genValue builds the value GEN produces for an output of type t from n.
func genValue(p *Program, t *T, n int64, tag string) *Val {
	return genSized(p, t, n, n, tag)
}

// genSized: n seeds the scalar values, size is the length of every
// collection (at every nesting level).
func genSized(p *Program, t *T, n, size int64, tag string) *Val {
	switch t.K {
	case TInt:
		return Int(n)
	case TFloat:
		return Num(strconv.FormatInt(n, 10) + ".5")
	case TString:
		// text that is awkward for anything scanning JSON by hand: a trailing
		// backslash, quotes, commas and brackets, non-ASCII
		return Str(tag + strconv.FormatInt(n, 10) + stringTails[int(n%int64(len(stringTails))+int64(len(stringTails)))%len(stringTails)])
	case TFile, TPath, TFiletype:
		return Str("/data/" + tag + strconv.FormatInt(n, 10))
	case TBool:
		return Bool(n > 0)
	case TMap:
		return Obj(map[string]*Val{"n": Int(n), "tag": Str(tag)})
	case TArray:
		a := make([]*Val, 0, size)
		for i := int64(0); i < size; i++ {
			a = append(a, genSized(p, t.Elem, n*10+i, size, tag+"_"+strconv.FormatInt(i, 10)))
		}
		return &Val{K: VArr, A: a}
	case TTMap:
		o := map[string]*Val{}
		for i := int64(0); i < size; i++ {
			k := "k" + strconv.FormatInt(i, 10)
			o[k] = genSized(p, t.Elem, n*100+i, size, tag+"_"+k)
		}
		return Obj(o)
	case TStruct:
		sd := p.Struct(t.Name)
		o := map[string]*Val{}
		for i, f := range sd.Fields {
			o[f.Name] = genSized(p, f.T, n+int64(i), size, tag+"."+f.Name)
		}
		return Obj(o)
	}
	return Null()
}

// Exec evaluates the library function of a stage for one job.  All functions
// are total, deterministic, and treat null like an empty collection / zero,
// so that the renderings of a disabled producer's value are indistinguishable
// downstream.
func Exec(p *Program, io *StageIO) (*StageResult, error) {
	st := io.Stage
	fn := st.Fn
	if fn == "" {
		fn = st.Name
	}
	outs := map[string]*Val{}
	switch fn {
	case "GEN":
		n := argOf(io, "n").Int()
		for _, o := range st.Outs {
			outs[o.Name] = genValue(p, o.T, n, o.Name)
		}
	case "GENV":
		// conforming outputs in one of three valuations (input mode)
		mode := int(argOf(io, "mode").Int())
		for _, o := range st.Outs {
			outs[o.Name] = GenVariant(p, o.T, mode, o.Name)
		}
	case "ID":
		// every output named like y<suffix> echoes input x<suffix>;
		// with a single in/out pair it echoes that.
		if len(st.Ins) == 1 && len(st.Outs) == 1 {
			outs[st.Outs[0].Name] = argOf(io, st.Ins[0].Name).Clone()
		} else {
			for i, o := range st.Outs {
				if i < len(st.Ins) {
					outs[o.Name] = argOf(io, st.Ins[i].Name).Clone()
				} else {
					outs[o.Name] = Null()
				}
			}
		}
	case "ADD":
		var s int64
		for _, in := range st.Ins {
			s += argOf(io, in.Name).Int()
		}
		outs[st.Outs[0].Name] = Int(s)
	case "LEN":
		var s int64
		for _, in := range st.Ins {
			s += int64(collLen(argOf(io, in.Name)))
		}
		outs[st.Outs[0].Name] = Int(s)
	case "COND":
		outs[st.Outs[0].Name] = Bool(argOf(io, st.Ins[0].Name).Int() > 0)
	case "RAGGED":
		// aa: array of int arrays of different lengths; am: array of typed
		// maps with different key sets (ragged set sel)
		sel := int(argOf(io, "sel").Int())
		for _, o := range st.Outs {
			switch o.Name {
			case "aa":
				outs["aa"] = RaggedArrays(sel)
			case "am":
				outs["am"] = RaggedMaps(sel)
			}
		}
	case "KEYS":
		// m: a typed map with the keys of key set sel (values 1, 2, ...);
		// a: an array of the same length (values 100, 200, ...)
		ks := KeySet(int(argOf(io, "sel").Int()))
		m := Obj(nil)
		a := &Val{K: VArr}
		for i, k := range ks {
			m.O[k] = Int(int64(i + 1))
			a.A = append(a.A, Int(int64(100*(i+1))))
		}
		for _, o := range st.Outs {
			switch o.Name {
			case "m":
				outs["m"] = m
			case "a":
				outs["a"] = a
			}
		}
	case "FILEW":
		// every output is produced from n; file-typed leaves name files the
		// stage writes under its own files directory.  Top-level file outputs
		// use the path mrp pre-populated in _outs.
		n := argOf(io, "n").Int()
		sparse := int64(-1)
		extDir := false
		if n >= 100 && n < 200 {
			// files/extlink is a symbolic link to a directory outside the
			// pipestance (reference data); the string output names a file
			// below it
			n -= 100
			extDir = true
		}
		slash := false
		if n >= 300 && n < 400 {
			// the directory output is named with a trailing slash
			n -= 300
			slash = true
		}
		if n >= 200 {
			// a mapped producer whose forks leave complementary outputs
			// null: even forks write no g, odd forks no f
			n -= 200
			sparse = n % 2
		}
		if n >= 10 {
			// elements of GEN.arr (a mapped producer over a run-time array)
			n = n%10 + 1
		}
		pad := 100
		for _, o := range st.Outs {
			if (sparse == 0 && o.Name == "g") || (sparse == 1 && o.Name == "f") {
				outs[o.Name] = Null()
				continue
			}
			if o.Name == "din" && argOf(io, "mode").Int() == 0 {
				// the file the directory output d holds, written with d
				if io.FilesPath == "" {
					outs[o.Name] = Str("@d_dir/inner.dat")
				} else {
					outs[o.Name] = Str(io.FilesPath + "/d_dir/inner.dat")
				}
				continue
			}
			if io.OutsTemplate != nil && io.OutsTemplate.K == VObj {
				if tv := io.OutsTemplate.O[o.Name]; tv != nil && tv.K == VStr && (o.T.K == TFiletype || o.T.K == TFile) && argOf(io, "mode").Int() == 0 {
					pad += 13
					if io.WriteFile != nil {
						io.WriteFile(tv.S, FileContent(tv.S, pad))
					}
					outs[o.Name] = Str(tv.S)
					if io.RealPath != nil {
						outs[o.Name] = Str(io.RealPath(tv.S))
					}
					continue
				}
			}
			outs[o.Name] = filewValue(p, io, o.T, n, io.FilesPath, o.Name, &pad)
			if slash && o.T.K == TPath && outs[o.Name].K == VStr && !strings.HasPrefix(outs[o.Name].S, "@") {
				outs[o.Name] = Str(outs[o.Name].S + "/")
			}
			if extDir && o.Name == "sp" && io.WriteFile != nil && io.Symlink != nil && io.OutsideDir != "" && io.FilesPath != "" {
				ext := io.OutsideDir + "/refdata"
				io.WriteFile(ext+"/ref.dat", FileContent(ext+"/ref.dat", 23))
				io.WriteFile(ext+"/other.dat", FileContent(ext+"/other.dat", 31))
				io.Symlink(ext, io.FilesPath+"/extlink")
				outs[o.Name] = Str(io.FilesPath + "/extlink/ref.dat")
			}
		}
		if io.WriteFile != nil && io.FilesPath != "" {
			// files no output names
			io.WriteFile(io.FilesPath+"/scratch.dat", FileContent(io.FilesPath+"/scratch.dat", 41))
			for _, o := range st.Outs {
				if v := outs[o.Name]; v != nil && v.K == VStr && strings.HasPrefix(v.S, io.FilesPath+"/") {
					// a sibling whose name extends a referenced file's name
					io.WriteFile(v.S+".idx", FileContent(v.S+".idx", 17))
					break
				}
			}
			if io.TempPath != "" {
				io.WriteFile(io.TempPath+"/work.tmp", FileContent(io.TempPath+"/work.tmp", 29))
			}
		}
	case "SPLITW", "SPLITN":
		// split stage writing files in every phase (SPLITN: its chunks
		// write nothing but temporary files)
		n := argOf(io, "n").Int()
		if n >= 10 {
			n = n%10 + 1
		}
		switch io.Phase {
		case "split":
			var chunks []*Val
			for i := int64(0); i < n; i++ {
				chunks = append(chunks, Obj(map[string]*Val{"i": Int(i)}))
			}
			if io.WriteFile != nil && io.TempPath != "" {
				io.WriteFile(io.TempPath+"/split.tmp", FileContent(io.TempPath+"/split.tmp", 5))
			}
			return &StageResult{Chunks: chunks}, nil
		case "main":
			pad := 60
			for _, o := range st.ChunkOuts {
				if io.OutsTemplate != nil && io.OutsTemplate.K == VObj {
					if tv := io.OutsTemplate.O[o.Name]; tv != nil && tv.K == VStr {
						if io.WriteFile != nil {
							io.WriteFile(tv.S, FileContent(tv.S, pad))
						}
						outs[o.Name] = Str(tv.S)
						continue
					}
				}
				outs[o.Name] = filewValue(p, io, o.T, n, io.FilesPath, o.Name, &pad)
			}
			if io.WriteFile != nil && io.FilesPath != "" {
				if st.Fn != "SPLITN" {
					io.WriteFile(io.FilesPath+"/chunk_scratch.dat", FileContent(io.FilesPath+"/chunk_scratch.dat", 7))
				}
				if io.TempPath != "" {
					io.WriteFile(io.TempPath+"/chunk.tmp", FileContent(io.TempPath+"/chunk.tmp", 9))
				}
			}
			for _, o := range st.Outs {
				outs[o.Name] = Null()
			}
		case "join":
			pad := 200
			for _, o := range st.Outs {
				if io.OutsTemplate != nil && io.OutsTemplate.K == VObj {
					if tv := io.OutsTemplate.O[o.Name]; tv != nil && tv.K == VStr {
						if io.WriteFile != nil {
							io.WriteFile(tv.S, FileContent(tv.S, pad))
						}
						outs[o.Name] = Str(tv.S)
						continue
					}
				}
				outs[o.Name] = filewValue(p, io, o.T, n, io.FilesPath, o.Name, &pad)
			}
			// the join reads the chunk files (they must still exist)
			if io.CheckFile != nil {
				for _, co := range io.ChunkOuts {
					for _, pth := range collectPaths(co, nil) {
						io.CheckFile(pth)
					}
				}
			}
			if io.WriteFile != nil && io.TempPath != "" {
				io.WriteFile(io.TempPath+"/join.tmp", FileContent(io.TempPath+"/join.tmp", 11))
			}
		}
	case "FILER":
		// consumes files: every path named anywhere in the arguments must be
		// readable and intact
		var cnt int64
		for _, in := range st.Ins {
			for _, pth := range collectPaths(argOf(io, in.Name), nil) {
				cnt++
				if io.CheckFile != nil {
					io.CheckFile(pth)
				}
			}
		}
		outs[st.Outs[0].Name] = Int(cnt)
	case "CTRL":
		outs["p"] = Bool(argOf(io, "a").Int() > 0)
		outs["q"] = Bool(argOf(io, "b").Int() > 0)
	case "PRE":
		// preflight: no outputs
	case "SUMS":
		xs := argOf(io, "xs")
		k := argOf(io, "k").Int()
		switch io.Phase {
		case "split":
			var chunks []*Val
			if xs.K == VArr {
				for i, x := range xs.A {
					// the chunk definitions depend on every argument, so that
					// two forks of a mapped SUMS never return the same ones
					chunks = append(chunks, Obj(map[string]*Val{
						"x": Int(x.Int() + 1000*k), "idx": Int(int64(i))}))
				}
			}
			return &StageResult{Chunks: chunks}, nil
		case "main":
			outs["part"] = Int(argOf(io, "x").Int()*2 + argOf(io, "idx").Int() + k)
			outs["total"] = Null()
			outs["parts"] = Null()
			outs["n"] = Null()
		case "join":
			var total int64 = k
			parts := []*Val{}
			for _, co := range io.ChunkOuts {
				pv := Null()
				if co != nil && co.K == VObj {
					if v, ok := co.O["part"]; ok {
						pv = v
					}
				}
				total += pv.Int()
				parts = append(parts, pv.Clone())
			}
			outs["total"] = Int(total)
			outs["parts"] = &Val{K: VArr, A: parts}
			outs["n"] = Int(int64(len(io.ChunkDefs)))
		}
	default:
		return nil, fmt.Errorf("no library function %q", fn)
	}
	if io.Phase == "main" && st.Split {
		// chunk of a split stage: only chunk outs (+ stage outs nulls) matter
	}
	return &StageResult{Outs: Obj(outs)}, nil
}

// Verdict of the reference validator.
type Verdict int

const (
	Accept Verdict = iota
	Reject
	Unspecified
)

// Validate is the reference validator of C17/C07: does JSON value v have the
// declared shape of type t?  null is accepted everywhere.
func Validate(p *Program, t *T, v *Val) Verdict {
	if v == nil || v.K == VNull || v.K == VBottom {
		return Accept
	}
	worst := Accept
	merge := func(x Verdict) bool {
		if x == Reject {
			worst = Reject
			return false
		}
		if x == Unspecified {
			worst = Unspecified
		}
		return true
	}
	switch t.K {
	case TArray:
		if v.K != VArr {
			return Reject
		}
		for _, e := range v.A {
			if !merge(Validate(p, t.Elem, e)) {
				return Reject
			}
		}
		return worst
	case TTMap:
		if v.K != VObj {
			return Reject
		}
		for _, e := range v.O {
			if !merge(Validate(p, t.Elem, e)) {
				return Reject
			}
		}
		return worst
	case TInt:
		if v.K != VNum {
			return Reject
		}
		if strings.ContainsAny(v.N, ".eE") {
			return Unspecified
		}
		return Accept
	case TFloat:
		if v.K != VNum {
			return Reject
		}
		return Accept
	case TString, TFile, TPath, TFiletype:
		if v.K != VStr {
			return Reject
		}
		return Accept
	case TBool:
		if v.K != VBool {
			return Reject
		}
		return Accept
	case TMap:
		if v.K != VObj {
			return Reject
		}
		return Accept
	case TStruct:
		if v.K != VObj {
			return Reject
		}
		sd := p.Struct(t.Name)
		for _, f := range sd.Fields {
			fv, ok := v.O[f.Name]
			if !ok {
				return Reject
			}
			if !merge(Validate(p, f.T, fv)) {
				return Reject
			}
		}
		if len(v.O) > len(sd.Fields) {
			return Reject // extra fields must have been dropped on the way to a stage
		}
		return worst
	}
	return Unspecified
}

// GenVariant builds a value conforming to t: mode 0 typical, 1 empty
// collections, 2 null leaves.
func GenVariant(p *Program, t *T, mode int, tag string) *Val {
	switch mode {
	case 1:
		switch t.K {
		case TArray:
			return Arr()
		case TTMap, TMap:
			return Obj(nil)
		case TStruct:
			o := Obj(nil)
			for _, f := range p.Struct(t.Name).Fields {
				o.O[f.Name] = GenVariant(p, f.T, 1, tag+"."+f.Name)
			}
			return o
		}
		return genSized(p, t, 1, 1, tag)
	case 2:
		switch t.K {
		case TArray:
			return Arr(GenVariant(p, t.Elem, 2, tag), Null())
		case TTMap:
			return Obj(map[string]*Val{"a": GenVariant(p, t.Elem, 2, tag), "b": Null()})
		case TStruct:
			o := Obj(nil)
			for _, f := range p.Struct(t.Name).Fields {
				o.O[f.Name] = Null()
			}
			return o
		}
		return Null()
	}
	return genSized(p, t, 2, 2, tag)
}
