package progen

import (
	"fmt"
	"strconv"
)

// StageIO is what a stage function sees for one job.
type StageIO struct {
	Stage     *Stage
	Phase     string // split | main | join
	Args      *Val   // object
	ChunkDefs []*Val // join
	ChunkOuts []*Val // join
	// OutsTemplate is the pre-populated _outs (real runs only; file paths).
	OutsTemplate *Val
	// FilesPath is the job's files directory (real runs only).
	FilesPath string
	// WriteFile lets a stage function create files (real runs); in the
	// reference interpreter it records the logical write.
	WriteFile func(path string, content string)
}

// StageResult is what the stage function produced.
type StageResult struct {
	Outs   *Val   // main / join / chunk: object of outputs
	Chunks []*Val // split: chunk defs
}

func argOf(io *StageIO, name string) *Val {
	if io.Args == nil || io.Args.K != VObj {
		return Null()
	}
	if v, ok := io.Args.O[name]; ok {
		return v
	}
	return Null()
}

func collLen(v *Val) int {
	if v == nil {
		return 0
	}
	switch v.K {
	case VArr:
		return len(v.A)
	case VObj:
		return len(v.O)
	}
	return 0
}

// genValue builds the value GEN produces for an output of type t from n.
func genValue(p *Program, t *T, n int64, tag string) *Val {
	return genSized(p, t, n, n, tag)
}

// genSized: n seeds the scalar values, size is the length of every
// collection (at every nesting level).
func genSized(p *Program, t *T, n, size int64, tag string) *Val {
	switch t.K {
	case TInt:
		return Int(n)
	case TFloat:
		return Num(strconv.FormatInt(n, 10) + ".5")
	case TString:
		return Str(tag + strconv.FormatInt(n, 10))
	case TBool:
		return Bool(n > 0)
	case TMap:
		return Obj(map[string]*Val{"n": Int(n), "tag": Str(tag)})
	case TArray:
		a := make([]*Val, 0, size)
		for i := int64(0); i < size; i++ {
			a = append(a, genSized(p, t.Elem, n*10+i, size, tag+"_"+strconv.FormatInt(i, 10)))
		}
		return &Val{K: VArr, A: a}
	case TTMap:
		o := map[string]*Val{}
		for i := int64(0); i < size; i++ {
			k := "k" + strconv.FormatInt(i, 10)
			o[k] = genSized(p, t.Elem, n*100+i, size, tag+"_"+k)
		}
		return Obj(o)
	case TStruct:
		sd := p.Struct(t.Name)
		o := map[string]*Val{}
		for i, f := range sd.Fields {
			o[f.Name] = genSized(p, f.T, n+int64(i), size, tag+"."+f.Name)
		}
		return Obj(o)
	}
	return Null()
}

// Exec evaluates the library function of a stage for one job.  All functions
// are total, deterministic, and treat null like an empty collection / zero,
// so that the renderings of a disabled producer's value are indistinguishable
// downstream.
func Exec(p *Program, io *StageIO) (*StageResult, error) {
	st := io.Stage
	fn := st.Fn
	if fn == "" {
		fn = st.Name
	}
	outs := map[string]*Val{}
	switch fn {
	case "GEN":
		n := argOf(io, "n").Int()
		for _, o := range st.Outs {
			outs[o.Name] = genValue(p, o.T, n, o.Name)
		}
	case "ID":
		// every output named like y<suffix> echoes input x<suffix>;
		// with a single in/out pair it echoes that.
		if len(st.Ins) == 1 && len(st.Outs) == 1 {
			outs[st.Outs[0].Name] = argOf(io, st.Ins[0].Name).Clone()
		} else {
			for i, o := range st.Outs {
				if i < len(st.Ins) {
					outs[o.Name] = argOf(io, st.Ins[i].Name).Clone()
				} else {
					outs[o.Name] = Null()
				}
			}
		}
	case "ADD":
		var s int64
		for _, in := range st.Ins {
			s += argOf(io, in.Name).Int()
		}
		outs[st.Outs[0].Name] = Int(s)
	case "LEN":
		var s int64
		for _, in := range st.Ins {
			s += int64(collLen(argOf(io, in.Name)))
		}
		outs[st.Outs[0].Name] = Int(s)
	case "COND":
		outs[st.Outs[0].Name] = Bool(argOf(io, st.Ins[0].Name).Int() > 0)
	case "CTRL":
		outs["p"] = Bool(argOf(io, "a").Int() > 0)
		outs["q"] = Bool(argOf(io, "b").Int() > 0)
	case "PRE":
		// preflight: no outputs
	case "SUMS":
		xs := argOf(io, "xs")
		k := argOf(io, "k").Int()
		switch io.Phase {
		case "split":
			var chunks []*Val
			if xs.K == VArr {
				for i, x := range xs.A {
					chunks = append(chunks, Obj(map[string]*Val{
						"x": x.Clone(), "idx": Int(int64(i))}))
				}
			}
			return &StageResult{Chunks: chunks}, nil
		case "main":
			outs["part"] = Int(argOf(io, "x").Int()*2 + argOf(io, "idx").Int() + k)
			outs["total"] = Null()
			outs["parts"] = Null()
			outs["n"] = Null()
		case "join":
			var total int64 = k
			parts := []*Val{}
			for _, co := range io.ChunkOuts {
				pv := Null()
				if co != nil && co.K == VObj {
					if v, ok := co.O["part"]; ok {
						pv = v
					}
				}
				total += pv.Int()
				parts = append(parts, pv.Clone())
			}
			outs["total"] = Int(total)
			outs["parts"] = &Val{K: VArr, A: parts}
			outs["n"] = Int(int64(len(io.ChunkDefs)))
		}
	default:
		return nil, fmt.Errorf("no library function %q", fn)
	}
	if io.Phase == "main" && st.Split {
		// chunk of a split stage: only chunk outs (+ stage outs nulls) matter
	}
	return &StageResult{Outs: Obj(outs)}, nil
}
