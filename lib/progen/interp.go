package progen

import (
	"fmt"
	"sort"
	"strings"
)

// RefJob is one job execution the reference semantics requires.
type RefJob struct {
	Path      string // call path, e.g. TOP.SUB.STAGE (call ids)
	Stage     string
	Phase     string // split | main | join
	Chunk     int    // chunk index for main of a split stage, else -1
	Args      *Val
	ChunkDefs []*Val
	ChunkOuts []*Val
	// Deps is the set of call paths that must have finished before this job
	// may be submitted (stage-level, see DESIGN.md appendix A).
	Deps map[string]bool
	// Inst identifies the fork instance (sequence of element indices/keys).
	Inst string
	Outs *Val
}

// RefResult is the denotation of a program.
type RefResult struct {
	Jobs    []*RefJob
	TopOuts *Val
	// ForkCount is the number of executions (forks) per stage call path.
	ForkCount map[string]int
	// StagePaths is every stage call path of the program (run or not).
	StagePaths map[string]bool
	// Unspecified lists reasons why (part of) the program is outside the
	// decided semantics; such programs are excluded from claims.
	Unspecified []string
	// Dependents[p] = stage call paths whose jobs (transitively) depend on p.
	Files []RefFile
}

// RefFile is a file a stage wrote, by logical name.
type RefFile struct {
	Path, Inst, Name, Content string
}

type interp struct {
	p   *Program
	res *RefResult
}

type frame struct {
	pl   *Pipeline
	path string
	in   map[string]*Val
	res  map[string]*callRes
	ctx  map[string]bool // deps inherited by every job in this frame
	dis  bool
	inst string
}

type callRes struct {
	call *Call
	outs *Val // object of outputs; array/object of such for map calls; bottom when disabled
	// outType gives types of outputs for projection
	outParams []Param
	mapped    int // 0 none, 1 array, 2 map
}

// Interpret evaluates the program's top call.
func Interpret(p *Program) (res *RefResult, err error) {
	defer func() {
		if r := recover(); r != nil {
			err = fmt.Errorf("reference interpreter: %v", r)
		}
	}()
	ip := &interp{p: p, res: &RefResult{ForkCount: map[string]int{}, StagePaths: map[string]bool{}}}
	top := p.Pipeline(p.Top.Callee)
	if top == nil {
		return nil, fmt.Errorf("top callee %s is not a pipeline", p.Top.Callee)
	}
	root := &frame{pl: nil, path: "", in: map[string]*Val{}, res: map[string]*callRes{}, ctx: map[string]bool{}}
	cr := ip.evalCall(root, p.Top)
	ip.res.TopOuts = cr.outs
	return ip.res, nil
}

func copyDeps(a map[string]bool, more ...map[string]bool) map[string]bool {
	out := make(map[string]bool, len(a))
	for k := range a {
		out[k] = true
	}
	for _, m := range more {
		for k := range m {
			out[k] = true
		}
	}
	return out
}

func (ip *interp) callee(name string) (st *Stage, pl *Pipeline) {
	if s := ip.p.Stage(name); s != nil {
		return s, nil
	}
	if q := ip.p.Pipeline(name); q != nil {
		return nil, q
	}
	panic("unknown callee " + name)
}

func (ip *interp) params(name string) (ins, outs []Param) {
	st, pl := ip.callee(name)
	if st != nil {
		return st.Ins, st.Outs
	}
	return pl.Ins, pl.Outs
}

func structOf(ps []Param) *T { return &T{K: TStruct, Name: "", Elem: nil} }

// project applies a dotted path to a value of type t.
func (ip *interp) project(v *Val, t *T, pathElems []string) (*Val, *T) {
	if len(pathElems) == 0 {
		return v, t
	}
	if v == nil {
		v = Null()
	}
	switch t.K {
	case TArray:
		_, et := ip.project(nil, t.Elem, pathElems)
		if v.K == VBottom || v.K == VNull {
			return &Val{K: v.K, Deps: copyDeps(v.Deps)}, ArrayOf(et)
		}
		if v.K != VArr {
			panic(fmt.Sprintf("projecting %v through non-array value %s", pathElems, v.Show()))
		}
		out := &Val{K: VArr, Deps: copyDeps(v.Deps)}
		for _, e := range v.A {
			pe, _ := ip.project(e, t.Elem, pathElems)
			out.A = append(out.A, pe)
		}
		return out, ArrayOf(et)
	case TTMap:
		_, et := ip.project(nil, t.Elem, pathElems)
		if v.K == VBottom || v.K == VNull {
			return &Val{K: v.K, Deps: copyDeps(v.Deps)}, TMapOf(et)
		}
		if v.K != VObj {
			panic(fmt.Sprintf("projecting %v through non-map value %s", pathElems, v.Show()))
		}
		out := &Val{K: VObj, O: map[string]*Val{}, Deps: copyDeps(v.Deps)}
		for k, e := range v.O {
			pe, _ := ip.project(e, t.Elem, pathElems)
			out.O[k] = pe
		}
		return out, TMapOf(et)
	case TStruct:
		var fields []Param
		if t.Name == "" {
			panic("anonymous struct projection must be handled by caller")
		}
		sd := ip.p.Struct(t.Name)
		if sd == nil {
			panic("unknown struct " + t.Name)
		}
		fields = sd.Fields
		for _, f := range fields {
			if f.Name == pathElems[0] {
				var fv *Val
				if v.K == VBottom || v.K == VNull {
					fv = &Val{K: v.K, Deps: copyDeps(v.Deps)}
				} else if v.K == VObj {
					fv = v.O[f.Name]
					if fv == nil {
						fv = Null()
					}
				} else {
					panic("projecting field of non-object " + v.Show())
				}
				return ip.project(fv, f.T, pathElems[1:])
			}
		}
		panic("no field " + pathElems[0] + " in " + t.Name)
	}
	panic(fmt.Sprintf("cannot project %v through %s", pathElems, t.String()))
}

// projectOuts projects through a call's result (a struct of its outputs,
// possibly mapped).
func (ip *interp) projectOuts(cr *callRes, path string) *Val {
	elems := []string{}
	if path != "" {
		elems = strings.Split(path, ".")
	}
	var proj func(v *Val) *Val
	proj = func(v *Val) *Val {
		if len(elems) == 0 {
			return v
		}
		if v.K == VBottom || v.K == VNull {
			return &Val{K: v.K, Deps: copyDeps(v.Deps)}
		}
		for _, o := range cr.outParams {
			if o.Name == elems[0] {
				fv := v.O[o.Name]
				if fv == nil {
					fv = Null()
				}
				r, _ := ip.project(fv, o.T, elems[1:])
				return r
			}
		}
		panic("no output " + elems[0] + " of " + cr.call.Id())
	}
	switch cr.mapped {
	case 0:
		return proj(cr.outs)
	case 1:
		if cr.outs.K != VArr {
			return &Val{K: cr.outs.K, Deps: copyDeps(cr.outs.Deps)}
		}
		out := &Val{K: VArr, Deps: copyDeps(cr.outs.Deps)}
		for _, e := range cr.outs.A {
			out.A = append(out.A, proj(e))
		}
		return out
	default:
		if cr.outs.K != VObj {
			return &Val{K: cr.outs.K, Deps: copyDeps(cr.outs.Deps)}
		}
		out := &Val{K: VObj, O: map[string]*Val{}, Deps: copyDeps(cr.outs.Deps)}
		for k, e := range cr.outs.O {
			out.O[k] = proj(e)
		}
		return out
	}
}

func (ip *interp) eval(f *frame, e *Exp) *Val {
	switch e.K {
	case ELit:
		return e.Lit.Clone()
	case ERefSelf:
		v, ok := f.in[e.Id]
		if !ok {
			panic("no pipeline input " + e.Id)
		}
		if e.Path == "" {
			return v.Clone()
		}
		var t *T
		for _, p := range f.pl.Ins {
			if p.Name == e.Id {
				t = p.T
			}
		}
		r, _ := ip.project(v, t, strings.Split(e.Path, "."))
		return r.Clone()
	case ERefCall:
		cr := f.res[e.Id]
		if cr == nil {
			panic("reference to call " + e.Id + " before its evaluation")
		}
		return ip.projectOuts(cr, e.Path).Clone()
	case EArr:
		out := &Val{K: VArr}
		for _, x := range e.Arr {
			out.A = append(out.A, ip.eval(f, x))
		}
		return out
	case EMap, EStruct:
		out := &Val{K: VObj, O: map[string]*Val{}}
		for i, k := range e.Keys {
			out.O[k] = ip.eval(f, e.Vals[i])
		}
		return out
	case ESplit:
		return ip.eval(f, e.Sub)
	}
	panic("bad expression")
}

// Coerce drops struct fields not declared by t (binding to a narrower
// struct), element-wise through arrays and typed maps.
func (ip *interp) Coerce(v *Val, t *T) *Val {
	if v == nil || v.K == VNull || v.K == VBottom {
		return v
	}
	switch t.K {
	case TArray:
		if v.K == VArr {
			for i, e := range v.A {
				v.A[i] = ip.Coerce(e, t.Elem)
			}
		}
	case TTMap:
		if v.K == VObj {
			for k, e := range v.O {
				v.O[k] = ip.Coerce(e, t.Elem)
			}
		}
	case TStruct:
		if v.K == VObj {
			sd := ip.p.Struct(t.Name)
			no := map[string]*Val{}
			for _, fd := range sd.Fields {
				fv, ok := v.O[fd.Name]
				if !ok {
					fv = Null()
				}
				no[fd.Name] = ip.Coerce(fv, fd.T)
			}
			v.O = no
		}
	}
	return v
}

// bindings expands wildcards and returns param name -> expression.
func (ip *interp) bindings(f *frame, c *Call, ins []Param) map[string]*Exp {
	out := map[string]*Exp{}
	for _, b := range c.Binds {
		if b.Name != "*" {
			out[b.Name] = b.E
		}
	}
	for _, b := range c.Binds {
		if b.Name != "*" {
			continue
		}
		for _, in := range ins {
			if _, ok := out[in.Name]; ok {
				continue
			}
			switch b.E.K {
			case ERefSelf:
				// * = self  (Id empty) or * = self.x (struct typed input)
				if b.E.Id == "" {
					out[in.Name] = Self(in.Name)
				} else {
					pth := in.Name
					if b.E.Path != "" {
						pth = b.E.Path + "." + in.Name
					}
					out[in.Name] = Self(b.E.Id, pth)
				}
			case ERefCall:
				pth := in.Name
				if b.E.Path != "" {
					pth = b.E.Path + "." + in.Name
				}
				out[in.Name] = Ref(b.E.Id, pth)
			}
		}
	}
	return out
}

// evalCall evaluates one call statement.  Whatever a call with a disabled
// modifier returns - also an input its callee merely hands through - is the
// value or null depending on the condition, and so derives from it.
func (ip *interp) evalCall(f *frame, c *Call) *callRes {
	cr := ip.evalCall0(f, c)
	if c.Disabled != nil && cr != nil && cr.outs != nil {
		deps := map[string]bool{}
		ip.eval(f, c.Disabled).AllDeps(deps)
		cr.outs.Taint(deps)
	}
	return cr
}

func (ip *interp) evalCall0(f *frame, c *Call) *callRes {
	ins, outsP := ip.params(c.Callee)
	cr := &callRes{call: c, outParams: outsP}
	path := c.Id()
	if f.path != "" {
		path = f.path + "." + c.Id()
	}
	ctx := copyDeps(f.ctx)
	disabled := f.dis
	if c.Disabled != nil {
		dv := ip.eval(f, c.Disabled)
		dv.AllDeps(ctx)
		if dv.K == VBool {
			if dv.B {
				disabled = true
			}
		} else if !f.dis {
			ip.res.Unspecified = append(ip.res.Unspecified,
				"disabled bound to a non-boolean value "+dv.Show()+" at "+path)
		}
	}
	binds := ip.bindings(f, c, ins)
	// evaluate arguments
	args := map[string]*Val{}
	var splitNames []string
	for _, in := range ins {
		e, ok := binds[in.Name]
		if !ok {
			args[in.Name] = Null()
			continue
		}
		if e.K == ESplit {
			splitNames = append(splitNames, in.Name)
		}
		args[in.Name] = ip.eval(f, e)
	}
	sort.Strings(splitNames)
	if !c.Map {
		cr.outs = ip.evalOnce(f, c, path, args, ins, ctx, disabled, f.inst)
		return cr
	}
	// map call
	if len(splitNames) == 0 {
		panic("map call without split argument: " + path)
	}
	first := args[splitNames[0]]
	srcDeps := map[string]bool{}
	for _, n := range splitNames {
		args[n].AllDeps(srcDeps)
	}
	ctx = copyDeps(ctx, srcDeps)
	mkBottom := func() *Val { return (&Val{K: VBottom}).Taint(ctx) }
	kind := 0
	for _, n := range splitNames {
		v := args[n]
		switch v.K {
		case VArr:
			if kind == 2 {
				ip.res.Unspecified = append(ip.res.Unspecified, "mixed array/map split sources at "+path)
			}
			kind = 1
		case VObj:
			if kind == 1 {
				ip.res.Unspecified = append(ip.res.Unspecified, "mixed array/map split sources at "+path)
			}
			kind = 2
		}
	}
	// static kind from types is not available for null sources; decide
	// from the declared parameter type relation instead (the source type is
	// one collection level above the parameter type).  With a null source
	// the call does not run at all.
	for _, n := range splitNames {
		if args[n].IsNullish() {
			ip.markNoRun(c, path)
			cr.mapped = 1
			cr.outs = mkBottom()
			return cr
		}
	}
	if disabled {
		ip.markNoRun(c, path)
		cr.mapped = kind
		cr.outs = mkBottom()
		return cr
	}
	cr.mapped = kind
	if kind == 1 {
		n := len(first.A)
		for _, sn := range splitNames {
			if len(args[sn].A) != n {
				ip.res.Unspecified = append(ip.res.Unspecified, "split sources of different lengths at "+path)
				cr.outs = mkBottom()
				return cr
			}
		}
		if n == 0 {
			ip.markNoRun(c, path)
			cr.outs = mkBottom()
			return cr
		}
		out := &Val{K: VArr, Deps: copyDeps(srcDeps)}
		for i := 0; i < n; i++ {
			a := map[string]*Val{}
			for k, v := range args {
				a[k] = v
			}
			for _, sn := range splitNames {
				a[sn] = args[sn].A[i].Clone().Taint(args[sn].Deps)
			}
			out.A = append(out.A, ip.evalOnce(f, c, path, a, ins, ctx, false, fmt.Sprintf("%s/%d", f.inst, i)))
		}
		cr.outs = out
		return cr
	}
	keys := first.Keys()
	for _, sn := range splitNames {
		k2 := args[sn].Keys()
		if strings.Join(k2, "\x00") != strings.Join(keys, "\x00") {
			ip.res.Unspecified = append(ip.res.Unspecified, "split sources with different keys at "+path)
			cr.outs = mkBottom()
			return cr
		}
	}
	if len(keys) == 0 {
		ip.markNoRun(c, path)
		cr.outs = mkBottom()
		return cr
	}
	out := &Val{K: VObj, O: map[string]*Val{}, Deps: copyDeps(srcDeps)}
	for _, k := range keys {
		a := map[string]*Val{}
		for kk, v := range args {
			a[kk] = v
		}
		for _, sn := range splitNames {
			a[sn] = args[sn].O[k].Clone().Taint(args[sn].Deps)
		}
		out.O[k] = ip.evalOnce(f, c, path, a, ins, ctx, false, fmt.Sprintf("%s/%s", f.inst, k))
	}
	cr.outs = out
	return cr
}

// markNoRun registers the stage paths under a call that never runs.
func (ip *interp) markNoRun(c *Call, path string) {
	st, pl := ip.callee(c.Callee)
	if st != nil {
		ip.res.StagePaths[path] = true
		return
	}
	for _, sc := range pl.Calls {
		ip.markNoRun(sc, path+"."+sc.Id())
	}
}

func (ip *interp) evalOnce(f *frame, c *Call, path string, args map[string]*Val,
	ins []Param, ctx map[string]bool, disabled bool, inst string) *Val {
	st, pl := ip.callee(c.Callee)
	// coerce to the declared parameter types
	cargs := map[string]*Val{}
	for _, in := range ins {
		v := args[in.Name]
		if v == nil {
			v = Null()
		}
		cargs[in.Name] = ip.Coerce(v.Clone(), in.T)
	}
	if st != nil {
		ip.res.StagePaths[path] = true
		if disabled {
			return (&Val{K: VBottom}).Taint(ctx)
		}
		return ip.runStage(st, path, cargs, ctx, inst)
	}
	// pipeline
	nf := &frame{pl: pl, path: path, in: cargs, res: map[string]*callRes{},
		ctx: copyDeps(ctx), dis: disabled, inst: inst}
	// preflight calls are dependencies of every other call of the pipeline
	// (and of everything nested in it).
	pre := map[string]bool{}
	for _, sc := range pl.Calls {
		if sc.Preflight {
			pre[path+"."+sc.Id()] = true
		}
	}
	for _, sc := range pl.Calls {
		saved := nf.ctx
		if !sc.Preflight && len(pre) > 0 && !disabled {
			nf.ctx = copyDeps(nf.ctx, pre)
		}
		nf.res[sc.Id()] = ip.evalCall(nf, sc)
		nf.ctx = saved
	}
	if disabled {
		return (&Val{K: VBottom}).Taint(ctx)
	}
	outs := map[string]*Val{}
	retb := map[string]*Exp{}
	for _, r := range pl.Ret {
		if r.Name != "*" {
			retb[r.Name] = r.E
		}
	}
	for _, r := range pl.Ret {
		if r.Name != "*" {
			continue
		}
		for _, o := range pl.Outs {
			if _, ok := retb[o.Name]; !ok {
				if r.E.K == ERefCall {
					retb[o.Name] = Ref(r.E.Id, o.Name)
				} else {
					retb[o.Name] = Self(o.Name)
				}
			}
		}
	}
	for _, o := range pl.Outs {
		e := retb[o.Name]
		if e == nil {
			outs[o.Name] = Null()
			continue
		}
		outs[o.Name] = ip.Coerce(ip.eval(nf, e), o.T)
	}
	return Obj(outs)
}

func (ip *interp) runStage(st *Stage, path string, args map[string]*Val,
	ctx map[string]bool, inst string) *Val {
	deps := copyDeps(ctx)
	argObj := Obj(map[string]*Val{})
	for k, v := range args {
		v.AllDeps(deps)
		argObj.O[k] = v
	}
	delete(deps, path)
	ip.res.ForkCount[path]++
	self := map[string]bool{path: true}
	add := func(j *RefJob) {
		j.Path, j.Stage, j.Deps, j.Inst = path, st.Name, deps, inst
		ip.res.Jobs = append(ip.res.Jobs, j)
	}
	writer := func(p, content string) {
		ip.res.Files = append(ip.res.Files, RefFile{Path: path, Inst: inst, Name: p, Content: content})
	}
	if !st.Split {
		r, err := Exec(ip.p, &StageIO{Stage: st, Phase: "main", Args: argObj, WriteFile: writer})
		if err != nil {
			panic(err)
		}
		add(&RefJob{Phase: "main", Chunk: -1, Args: argObj, Outs: r.Outs})
		return filterOuts(r.Outs, st.Outs).Taint(self)
	}
	r, err := Exec(ip.p, &StageIO{Stage: st, Phase: "split", Args: argObj, WriteFile: writer})
	if err != nil {
		panic(err)
	}
	add(&RefJob{Phase: "split", Chunk: -1, Args: argObj})
	var couts []*Val
	for i, cd := range r.Chunks {
		merged := Obj(map[string]*Val{})
		for k, v := range argObj.O {
			merged.O[k] = v
		}
		for k, v := range cd.O {
			merged.O[k] = v
		}
		cr, err := Exec(ip.p, &StageIO{Stage: st, Phase: "main", Args: merged, WriteFile: writer})
		if err != nil {
			panic(err)
		}
		add(&RefJob{Phase: "main", Chunk: i, Args: merged, Outs: cr.Outs})
		couts = append(couts, cr.Outs)
	}
	jr, err := Exec(ip.p, &StageIO{Stage: st, Phase: "join", Args: argObj,
		ChunkDefs: r.Chunks, ChunkOuts: couts, WriteFile: writer})
	if err != nil {
		panic(err)
	}
	add(&RefJob{Phase: "join", Chunk: -1, Args: argObj, ChunkDefs: r.Chunks, ChunkOuts: couts, Outs: jr.Outs})
	return filterOuts(jr.Outs, st.Outs).Taint(self)
}

func filterOuts(v *Val, outs []Param) *Val {
	o := map[string]*Val{}
	for _, p := range outs {
		if x, ok := v.O[p.Name]; ok {
			o[p.Name] = x.Clone()
		} else {
			o[p.Name] = Null()
		}
	}
	return Obj(o)
}
