package progen

import (
	"fmt"
	"strings"
)

// The fixed declarations shared by the dataflow families.
func baseProgram() *Program {
	p := &Program{Filetypes: []string{"txt"}}
	p.Structs = []*StructDecl{
		{Name: "B", Fields: []Param{{T: IntT, Name: "x"}}},
		{Name: "A", Fields: []Param{{T: IntT, Name: "x"}, {T: StringT, Name: "s"}, {T: ArrayOf(IntT), Name: "v"}}},
		{Name: "C", Fields: []Param{{T: StructT("A"), Name: "a"}, {T: ArrayOf(StructT("A")), Name: "sa"}, {T: TMapOf(StructT("A")), Name: "ma"}}},
	}
	p.Stages = []*Stage{
		{Name: "GEN", Fn: "GEN", Ins: []Param{{T: IntT, Name: "n"}}, Outs: []Param{
			{T: IntT, Name: "v"}, {T: ArrayOf(IntT), Name: "arr"}, {T: TMapOf(IntT), Name: "m"},
			{T: StructT("A"), Name: "one"}, {T: ArrayOf(StructT("A")), Name: "ss"},
			{T: TMapOf(StructT("A")), Name: "ms"}, {T: BoolT, Name: "pos"},
			{T: StructT("C"), Name: "c"}, {T: ArrayOf(ArrayOf(IntT)), Name: "aa"},
		}},
		{Name: "COND", Fn: "COND", Ins: []Param{{T: IntT, Name: "n"}}, Outs: []Param{{T: BoolT, Name: "b"}}},
		{Name: "ADD", Fn: "ADD", Ins: []Param{{T: IntT, Name: "a"}, {T: IntT, Name: "b"}}, Outs: []Param{{T: IntT, Name: "sum"}}},
		{Name: "SUMS", Fn: "SUMS", Split: true,
			Ins:       []Param{{T: ArrayOf(IntT), Name: "xs"}, {T: IntT, Name: "k"}},
			Outs:      []Param{{T: IntT, Name: "total"}, {T: ArrayOf(IntT), Name: "parts"}, {T: IntT, Name: "n"}},
			ChunkIns:  []Param{{T: IntT, Name: "x"}, {T: IntT, Name: "idx"}},
			ChunkOuts: []Param{{T: IntT, Name: "part"}}},
	}
	return p
}

// idStage returns (adding it if needed) the echo stage for type t.
func idStage(p *Program, t *T) *Stage {
	name := "ID_" + t.Mangle()
	if s := p.Stage(name); s != nil {
		return s
	}
	s := &Stage{Name: name, Fn: "ID", Ins: []Param{{T: t, Name: "x"}}, Outs: []Param{{T: t, Name: "y"}}}
	p.Stages = append(p.Stages, s)
	return s
}

func lenStage(p *Program, t *T) *Stage {
	name := "LEN_" + t.Mangle()
	if s := p.Stage(name); s != nil {
		return s
	}
	s := &Stage{Name: name, Fn: "LEN", Ins: []Param{{T: t, Name: "c"}}, Outs: []Param{{T: IntT, Name: "n"}}}
	p.Stages = append(p.Stages, s)
	return s
}

// DataflowParams selects one program of the dataflow family.
type DataflowParams struct {
	Kind   string // int arr tmap struct sarr smap cstruct aa
	Src    string // lit input gen mixnull mixref
	Size   int    // 0 1 2 (3)
	Proj   string // "" x v a.x sa.x ma.x
	Map    string // "" top inner   (consumer mapped: at the outermost or innermost level)
	Wrap   int    // 0 1 2 nested sub-pipelines around the consumer
	Dis    string // "" in-true in-false gen-true gen-false
	DisAt  string // cons wrap src
	Narrow bool   // consumer takes B where the source is A
	Cons   string // id sums add
	Alias  bool
	Pre    bool // a preflight stage in the top pipeline
	// PreLast: the preflight call is written last in the pipeline body
	// instead of first.
	PreLast bool   `json:",omitempty"`
	Extra   string // "" chain (a downstream consumer of the result) ret-struct
}

func (d DataflowParams) String() string {
	if d.PreLast {
		e := d
		e.PreLast = false
		return strings.TrimSuffix(e.String(), "}") + " prelast=true}"
	}
	return fmt.Sprintf("df{kind=%s src=%s size=%d proj=%q map=%q wrap=%d dis=%q@%s narrow=%v cons=%s alias=%v pre=%v extra=%s}",
		d.Kind, d.Src, d.Size, d.Proj, d.Map, d.Wrap, d.Dis, d.DisAt, d.Narrow, d.Cons, d.Alias, d.Pre, d.Extra)
}

func kindType(kind string) *T {
	switch kind {
	case "int":
		return IntT
	case "arr":
		return ArrayOf(IntT)
	case "tmap":
		return TMapOf(IntT)
	case "struct":
		return StructT("A")
	case "sarr":
		return ArrayOf(StructT("A"))
	case "smap":
		return TMapOf(StructT("A"))
	case "cstruct":
		return StructT("C")
	case "aa":
		return ArrayOf(ArrayOf(IntT))
	}
	panic("kind " + kind)
}

func genOut(kind string) string {
	return map[string]string{"int": "v", "arr": "arr", "tmap": "m", "struct": "one",
		"sarr": "ss", "smap": "ms", "cstruct": "c", "aa": "aa"}[kind]
}

// projType computes the type after projecting path through t.
func projType(p *Program, t *T, path []string) (*T, bool) {
	if len(path) == 0 {
		return t, true
	}
	switch t.K {
	case TArray:
		e, ok := projType(p, t.Elem, path)
		if !ok {
			return nil, false
		}
		return ArrayOf(e), true
	case TTMap:
		e, ok := projType(p, t.Elem, path)
		if !ok {
			return nil, false
		}
		r := TMapOf(e)
		return r, r.Valid()
	case TStruct:
		sd := p.Struct(t.Name)
		for _, f := range sd.Fields {
			if f.Name == path[0] {
				return projType(p, f.T, path[1:])
			}
		}
	}
	return nil, false
}

func narrowType(t *T) *T {
	switch t.K {
	case TStruct:
		if t.Name == "A" {
			return StructT("B")
		}
	case TArray:
		if n := narrowType(t.Elem); n != nil {
			return ArrayOf(n)
		}
	case TTMap:
		if n := narrowType(t.Elem); n != nil {
			return TMapOf(n)
		}
	}
	return nil
}

// Dataflow builds the program for d, or returns nil when the combination is
// not expressible.
func Dataflow(d DataflowParams) *Program {
	if d.PreLast && !d.Pre {
		return nil
	}
	p := dataflow0(d)
	if p != nil && d.PreLast {
		for _, pl := range p.Pipelines {
			if pl.Name != "TOP" {
				continue
			}
			for i, c := range pl.Calls {
				if c.Preflight {
					pl.Calls = append(append(append([]*Call{}, pl.Calls[:i]...), pl.Calls[i+1:]...), c)
					break
				}
			}
		}
	}
	return p
}

func dataflow0(d DataflowParams) *Program {
	p := baseProgram()
	p.Desc = d.String()
	srcT := kindType(d.Kind)
	n := int64(d.Size)
	var srcE *Exp
	top := &Pipeline{Name: "TOP", Ins: []Param{{T: IntT, Name: "n"}, {T: BoolT, Name: "flag"}}}
	topCall := &Call{Callee: "TOP", Binds: []Bind{{"n", Lit(Int(n))}}}
	flagVal := d.Dis == "in-true"
	topCall.Binds = append(topCall.Binds, Bind{"flag", Lit(Bool(flagVal))})
	needGen := d.Src == "gen"
	switch d.Src {
	case "lit":
		srcE = TLit(p, genValue(p, srcT, n, "lit"), srcT)
	case "input":
		top.Ins = append(top.Ins, Param{T: srcT, Name: "p"})
		topCall.Binds = append(topCall.Binds, Bind{"p", TLit(p, genValue(p, srcT, n, "inp"), srcT)})
		srcE = Self("p")
	case "gen":
		srcE = Ref("GEN", genOut(d.Kind))
	case "mixnull", "mixref":
		// an array literal of structs whose first element is a pipeline
		// input (a struct literal once resolved) and whose last element is
		// null / a reference to a stage output
		if d.Kind != "sarr" {
			return nil
		}
		top.Ins = append(top.Ins, Param{T: srcT.Elem, Name: "p0"})
		topCall.Binds = append(topCall.Binds, Bind{"p0", TLit(p, genValue(p, srcT.Elem, n, "inp"), srcT.Elem)})
		if d.Src == "mixnull" {
			srcE = ArrE(Self("p0"), Lit(Null()))
		} else {
			needGen = true
			srcE = ArrE(Self("p0"), Ref("GEN", "one"))
		}
	default:
		return nil
	}
	var path []string
	if d.Proj != "" {
		path = strings.Split(d.Proj, ".")
		if d.Src == "lit" || strings.HasPrefix(d.Src, "mix") {
			return nil // projections apply to references only
		}
		srcE = &Exp{K: srcE.K, Id: srcE.Id, Path: strings.Trim(srcE.Path+"."+d.Proj, ".")}
	}
	valT, ok := projType(p, srcT, path)
	if !ok || !valT.Valid() {
		return nil
	}
	// disabling condition
	var disE *Exp
	switch d.Dis {
	case "":
	case "in-true", "in-false":
		disE = Self("flag")
	case "gen-true", "gen-false":
		cn := int64(0)
		if d.Dis == "gen-true" {
			cn = 1
		}
		top.Calls = append(top.Calls, &Call{Callee: "COND", Binds: []Bind{{"n", Lit(Int(cn))}}})
		disE = Ref("COND", "b")
	default:
		return nil
	}
	if d.Dis != "" && d.DisAt != "cons" && d.DisAt != "wrap" && d.DisAt != "src" {
		return nil
	}
	if d.DisAt == "src" && d.Src != "gen" {
		return nil // "src": the producing call GEN carries the disabled modifier
	}
	if d.Dis == "" && d.DisAt != "" {
		return nil
	}
	if d.DisAt == "wrap" && d.Wrap == 0 {
		return nil
	}
	if needGen {
		gen := &Call{Callee: "GEN", Binds: []Bind{{"n", Self("n")}}}
		if d.DisAt == "src" {
			gen.Disabled = disE
		}
		top.Calls = append(top.Calls, gen)
	}
	if d.Pre {
		p.Stages = append(p.Stages, &Stage{Name: "PRE", Fn: "PRE", Ins: []Param{{T: IntT, Name: "n"}}})
		// two preflight checks: everything else, also inside nested
		// pipelines, waits for both
		top.Calls = append([]*Call{
			{Callee: "PRE", Binds: []Bind{{"n", Self("n")}}, Preflight: true},
			{Callee: "PRE", Alias: "PRE2", Binds: []Bind{{"n", Self("n")}}, Preflight: true}}, top.Calls...)
	}

	// element type when mapping
	elemT := valT
	mapKind := 0
	if d.Map != "" {
		switch valT.K {
		case TArray:
			elemT, mapKind = valT.Elem, 1
		case TTMap:
			elemT, mapKind = valT.Elem, 2
		default:
			return nil
		}
		if d.Map == "inner" && d.Wrap == 0 {
			return nil
		}
		if d.Map != "top" && d.Map != "inner" {
			return nil
		}
	}
	consInT := elemT
	if d.Narrow {
		nt := narrowType(elemT)
		if nt == nil {
			return nil
		}
		consInT = nt
	}
	// the consumer stage
	var cons *Stage
	consIn, consOut := "x", "y"
	var consOutT *T
	extraBinds := []Bind{}
	switch d.Cons {
	case "id":
		cons = idStage(p, consInT)
		consOutT = consInT
	case "sums":
		if consInT.K != TArray || consInT.Elem.K != TInt {
			return nil
		}
		cons = p.Stage("SUMS")
		consIn, consOut = "xs", "parts"
		consOutT = ArrayOf(IntT)
		extraBinds = append(extraBinds, Bind{"k", Lit(Int(7))})
	case "add":
		if consInT.K != TInt {
			return nil
		}
		cons = p.Stage("ADD")
		consIn, consOut = "a", "sum"
		consOutT = IntT
		extraBinds = append(extraBinds, Bind{"b", Lit(Int(100))})
	default:
		return nil
	}
	wrapColl := func(t *T) *T {
		if mapKind == 1 {
			return ArrayOf(t)
		}
		if mapKind == 2 {
			r := TMapOf(t)
			return r
		}
		return t
	}
	consCallId := cons.Name
	mkCons := func(arg *Exp, mapped bool, dis *Exp) *Call {
		c := &Call{Callee: cons.Name, Map: mapped, Disabled: dis}
		if d.Alias {
			c.Alias = "CONS"
			consCallId = "CONS"
		}
		if mapped {
			arg = SplitE(arg)
		}
		c.Binds = append([]Bind{{consIn, arg}}, extraBinds...)
		return c
	}
	var resultE *Exp
	var resultT *T
	if d.Wrap == 0 {
		var dis *Exp
		if d.DisAt == "cons" {
			dis = disE
		}
		top.Calls = append(top.Calls, mkCons(srcE, d.Map == "top", dis))
		resultE = Ref(consCallId, consOut)
		resultT = consOutT
		if d.Map == "top" {
			resultT = wrapColl(consOutT)
		}
	} else {
		// innermost pipeline W<Wrap> holds the consumer
		// type passed down: valT unless mapped at top (then elemT)
		passT := valT
		if d.Map == "top" {
			passT = elemT
		}
		innerResT := consOutT
		if d.Map == "inner" {
			innerResT = wrapColl(consOutT)
		}
		if !innerResT.Valid() {
			return nil
		}
		for lvl := d.Wrap; lvl >= 1; lvl-- {
			w := &Pipeline{Name: fmt.Sprintf("W%d", lvl),
				Ins:  []Param{{T: passT, Name: "p"}, {T: BoolT, Name: "flag"}},
				Outs: []Param{{T: innerResT, Name: "r"}}}
			if lvl == d.Wrap {
				var dis *Exp
				if d.DisAt == "cons" && disE != nil {
					if disE.K == ERefSelf {
						dis = Self("flag")
					} else {
						// run-time condition produced at top level is passed down as flag
						dis = Self("flag")
					}
				}
				w.Calls = append(w.Calls, mkCons(Self("p"), d.Map == "inner", dis))
				w.Ret = []Bind{{"r", Ref(consCallId, consOut)}}
			} else {
				w.Calls = append(w.Calls, &Call{Callee: fmt.Sprintf("W%d", lvl+1),
					Binds: []Bind{{"p", Self("p")}, {"flag", Self("flag")}}})
				w.Ret = []Bind{{"r", Ref(fmt.Sprintf("W%d", lvl+1), "r")}}
			}
			if lvl == 1 && d.Extra == "handthru" {
				// the outermost wrapper also hands its own input through
				w.Outs = append(w.Outs, Param{T: passT, Name: "pp"})
				w.Ret = append(w.Ret, Bind{"pp", Self("p")})
			}
			p.Pipelines = append(p.Pipelines, w)
		}
		flagE := Lit(Bool(false))
		if disE != nil {
			flagE = disE
		}
		wc := &Call{Callee: "W1", Map: d.Map == "top",
			Binds: []Bind{{"p", srcE}, {"flag", flagE}}}
		if d.Map == "top" {
			wc.Binds[0].E = SplitE(srcE)
		}
		if d.DisAt == "wrap" {
			wc.Disabled = disE
		}
		top.Calls = append(top.Calls, wc)
		resultE = Ref("W1", "r")
		resultT = innerResT
		if d.Map == "top" {
			resultT = wrapColl(innerResT)
		}
	}
	if !resultT.Valid() {
		return nil
	}
	top.Outs = append(top.Outs, Param{T: resultT, Name: "result"})
	top.Ret = append(top.Ret, Bind{"result", resultE})
	switch d.Extra {
	case "":
	case "chain":
		// a downstream stage consuming the (possibly merged) result
		ls := lenStage(p, resultT)
		top.Calls = append(top.Calls, &Call{Callee: ls.Name, Binds: []Bind{{"c", resultE}}})
		top.Outs = append(top.Outs, Param{T: IntT, Name: "count"})
		top.Ret = append(top.Ret, Bind{"count", Ref(ls.Name, "n")})
	case "passthru":
		top.Outs = append(top.Outs, Param{T: IntT, Name: "n"})
		top.Ret = append(top.Ret, Bind{"n", Self("n")})
	case "handthru":
		// a consumer of the input the (possibly disabled, possibly mapped)
		// wrapper call hands through
		if d.Wrap == 0 {
			return nil
		}
		ppT := valT
		if d.Map == "top" {
			ppT = wrapColl(elemT)
		}
		if !ppT.Valid() {
			return nil
		}
		ids := idStage(p, ppT)
		top.Calls = append(top.Calls, &Call{Callee: ids.Name, Alias: "THRU", Binds: []Bind{{"x", Ref("W1", "pp")}}})
		top.Outs = append(top.Outs, Param{T: ppT, Name: "thru"})
		top.Ret = append(top.Ret, Bind{"thru", Ref("THRU", "y")})
	case "sink":
		// a stage WITHOUT outputs consuming the source at top level, mapped
		// the way the consumer is when that is mapped at the top
		st := valT
		arg := srcE
		if d.Map == "top" {
			st, arg = elemT, SplitE(srcE)
		}
		name := "SINK_" + st.Mangle()
		if p.Stage(name) == nil {
			p.Stages = append(p.Stages, &Stage{Name: name, Fn: "PRE", Ins: []Param{{T: st, Name: "c"}}})
		}
		top.Calls = append(top.Calls, &Call{Callee: name, Map: d.Map == "top", Binds: []Bind{{"c", arg}}})
	default:
		return nil
	}
	p.Pipelines = append(p.Pipelines, top)
	p.Top = topCall
	FixUnused(p)
	return p
}

// DataflowFamily enumerates the family.  With full=false only the vectors
// in which at most maxDev dimensions leave their base value are produced.
func DataflowFamily(maxDev int) []DataflowParams {
	kinds := []string{"arr", "int", "tmap", "struct", "sarr", "smap", "cstruct", "aa"}
	srcs := []string{"gen", "lit", "input", "mixnull", "mixref"}
	sizes := []int{2, 0, 1, 3}
	projs := []string{"", "x", "v", "a.x", "sa.x", "ma.x", "sa.v", "ma.v"}
	maps := []string{"", "top", "inner"}
	wraps := []int{0, 1, 2, 3}
	diss := []string{"", "gen-false", "gen-true", "in-true", "in-false"}
	disAts := []string{"", "cons", "wrap", "src"}
	conss := []string{"id", "sums", "add"}
	extras := []string{"", "chain", "passthru", "sink", "handthru"}
	bools := []bool{false, true}
	var out []DataflowParams
	seen := map[string]bool{}
	for ki, kind := range kinds {
		for si, src := range srcs {
			for zi, size := range sizes {
				for pi, proj := range projs {
					for mi, mp := range maps {
						for wi, wrap := range wraps {
							for di, dis := range diss {
								for ai, disAt := range disAts {
									for ci, cons := range conss {
										for ei, extra := range extras {
											for ni, narrow := range bools {
												for li, alias := range bools {
													for ri, pre := range bools {
														dev := 0
														for _, x := range []int{ki, si, zi, pi, mi, wi, di, ci, ei, ni, li, ri} {
															if x != 0 {
																dev++
															}
														}
														_ = ai
														if dev > maxDev {
															continue
														}
														d := DataflowParams{Kind: kind, Src: src, Size: size, Proj: proj, Map: mp,
															Wrap: wrap, Dis: dis, DisAt: disAt, Narrow: narrow, Cons: cons,
															Alias: alias, Pre: pre, Extra: extra}
														if seen[d.String()] {
															continue
														}
														seen[d.String()] = true
														out = append(out, d)
														if pre {
															// the same program with the preflight call written last
															d.PreLast = true
															seen[d.String()] = true
															out = append(out, d)
														}
													}
												}
											}
										}
									}
								}
							}
						}
					}
				}
			}
		}
	}
	return out
}

func expUsesSelf(e *Exp, used map[string]bool) {
	if e == nil {
		return
	}
	switch e.K {
	case ERefSelf:
		used[e.Id] = true
	case EArr:
		for _, x := range e.Arr {
			expUsesSelf(x, used)
		}
	case EMap, EStruct:
		for _, x := range e.Vals {
			expUsesSelf(x, used)
		}
	case ESplit:
		expUsesSelf(e.Sub, used)
	}
}

// FixUnused adds a pass-through output for every pipeline input that no
// call or return binding uses (the compiler rejects unused inputs).
func FixUnused(p *Program) {
	for _, pl := range p.Pipelines {
		used := map[string]bool{}
		wild := false
		for _, c := range pl.Calls {
			for _, b := range c.Binds {
				if b.Name == "*" && b.E.K == ERefSelf && b.E.Id == "" {
					wild = true
				}
				expUsesSelf(b.E, used)
			}
			expUsesSelf(c.Disabled, used)
		}
		for _, r := range pl.Ret {
			expUsesSelf(r.E, used)
		}
		if wild {
			continue
		}
		for _, in := range pl.Ins {
			if !used[in.Name] {
				name := "echo_" + in.Name
				pl.Outs = append(pl.Outs, Param{T: in.T, Name: name})
				pl.Ret = append(pl.Ret, Bind{name, Self(in.Name)})
			}
		}
	}
}

// ---------------------------------------------------------------------------
// Nested disabling family.

// DisNestParams: Levels[i] is the control of wrapper pipeline i+1 (outermost
// first), Sib the controls of the two sibling stage calls in the innermost
// pipeline.  Controls: "p","q" (two outputs of one stage), "c" (another
// stage), "r","s" (two outputs of a third stage), "f" (a pipeline input bound
// to a literal), "-" (none).
// Vals gives the truth value of p,q,c,f,r,s (bit 0..5).
type DisNestParams struct {
	Levels []string
	Sib    [2]string
	Vals   int
}

func (d DisNestParams) String() string {
	return fmt.Sprintf("disnest{levels=%s sib=%s,%s vals=%06b}", strings.Join(d.Levels, ""), d.Sib[0], d.Sib[1], d.Vals)
}

func DisNest(d DisNestParams) *Program {
	p := baseProgram()
	p.Desc = d.String()
	p.Stages = append(p.Stages, &Stage{Name: "CTRL", Fn: "CTRL",
		Ins:  []Param{{T: IntT, Name: "a"}, {T: IntT, Name: "b"}},
		Outs: []Param{{T: BoolT, Name: "p"}, {T: BoolT, Name: "q"}}})
	bit := func(i int) int64 { return int64((d.Vals >> i) & 1) }
	top := &Pipeline{Name: "TOP", Ins: []Param{{T: IntT, Name: "n"}, {T: BoolT, Name: "f"}}}
	top.Calls = append(top.Calls,
		&Call{Callee: "CTRL", Binds: []Bind{{"a", Lit(Int(bit(0)))}, {"b", Lit(Int(bit(1)))}}},
		&Call{Callee: "COND", Binds: []Bind{{"n", Lit(Int(bit(2)))}}},
		&Call{Callee: "CTRL", Alias: "CTRL2", Binds: []Bind{{"a", Lit(Int(bit(4)))}, {"b", Lit(Int(bit(5)))}}})
	ctlTop := map[string]*Exp{"p": Ref("CTRL", "p"), "q": Ref("CTRL", "q"), "c": Ref("COND", "b"), "f": Self("f"),
		"r": Ref("CTRL2", "p"), "s": Ref("CTRL2", "q")}
	ctlIn := map[string]*Exp{"p": Self("dp"), "q": Self("dq"), "c": Self("dc"), "f": Self("df"), "r": Self("dr"), "s": Self("ds")}
	ctlParams := []Param{{T: BoolT, Name: "dp"}, {T: BoolT, Name: "dq"}, {T: BoolT, Name: "dc"}, {T: BoolT, Name: "df"},
		{T: BoolT, Name: "dr"}, {T: BoolT, Name: "ds"}}
	passDown := []Bind{{"dp", Self("dp")}, {"dq", Self("dq")}, {"dc", Self("dc")}, {"df", Self("df")},
		{"dr", Self("dr")}, {"ds", Self("ds")}}
	L := len(d.Levels)
	mkSib := func(name string, k int64, ctl string, in map[string]*Exp, x *Exp) *Call {
		c := &Call{Callee: "ADD", Alias: name, Binds: []Bind{{"a", x}, {"b", Lit(Int(k))}}}
		if ctl != "-" {
			c.Disabled = in[ctl]
		}
		return c
	}
	outs := []Param{{T: IntT, Name: "r1"}, {T: IntT, Name: "r2"}}
	if L == 0 {
		top.Calls = append(top.Calls, mkSib("S1", 1, d.Sib[0], ctlTop, Self("n")), mkSib("S2", 2, d.Sib[1], ctlTop, Self("n")))
		top.Outs = outs
		top.Ret = []Bind{{"r1", Ref("S1", "sum")}, {"r2", Ref("S2", "sum")}}
	} else {
		for lvl := L; lvl >= 1; lvl-- {
			w := &Pipeline{Name: fmt.Sprintf("P%d", lvl), Ins: append([]Param{{T: IntT, Name: "x"}}, ctlParams...), Outs: outs}
			if lvl == L {
				w.Calls = append(w.Calls, mkSib("S1", 1, d.Sib[0], ctlIn, Self("x")), mkSib("S2", 2, d.Sib[1], ctlIn, Self("x")))
				w.Ret = []Bind{{"r1", Ref("S1", "sum")}, {"r2", Ref("S2", "sum")}}
			} else {
				c := &Call{Callee: fmt.Sprintf("P%d", lvl+1), Binds: append([]Bind{{"x", Self("x")}}, passDown...)}
				if ctl := d.Levels[lvl]; ctl != "-" {
					c.Disabled = ctlIn[ctl]
				}
				w.Calls = append(w.Calls, c)
				w.Ret = []Bind{{"r1", Ref(c.Callee, "r1")}, {"r2", Ref(c.Callee, "r2")}}
			}
			p.Pipelines = append(p.Pipelines, w)
		}
		c := &Call{Callee: "P1", Binds: []Bind{{"x", Self("n")},
			{"dp", ctlTop["p"]}, {"dq", ctlTop["q"]}, {"dc", ctlTop["c"]}, {"df", ctlTop["f"]},
			{"dr", ctlTop["r"]}, {"ds", ctlTop["s"]}}}
		if ctl := d.Levels[0]; ctl != "-" {
			c.Disabled = ctlTop[ctl]
		}
		top.Calls = append(top.Calls, c)
		top.Outs = outs
		top.Ret = []Bind{{"r1", Ref("P1", "r1")}, {"r2", Ref("P1", "r2")}}
	}
	// a downstream consumer of both results
	top.Calls = append(top.Calls, &Call{Callee: "ADD", Alias: "SINK",
		Binds: []Bind{{"a", top.Ret[0].E}, {"b", top.Ret[1].E}}})
	top.Outs = append(top.Outs, Param{T: IntT, Name: "sink"})
	top.Ret = append(top.Ret, Bind{"sink", Ref("SINK", "sum")})
	p.Pipelines = append(p.Pipelines, top)
	p.Top = &Call{Callee: "TOP", Binds: []Bind{{"n", Lit(Int(5))}, {"f", Lit(Bool(bit(3) == 1))}}}
	FixUnused(p)
	return p
}

// DisNestFamily enumerates the nested-disable family.  quick: wrapper
// controls are injective selections or one control repeated; full: all.
func DisNestFamily(full bool) []DisNestParams {
	ctl := []string{"p", "q", "c", "f"}
	allCtl := []string{"p", "q", "c", "f", "r", "s"}
	var levelSets [][]string
	var rec func(cur []string, depth int)
	maxL := 3
	if full {
		maxL = 4
	}
	rec = func(cur []string, depth int) {
		levelSets = append(levelSets, append([]string{}, cur...))
		if depth == maxL {
			return
		}
		opts := ctl
		if full {
			opts = append([]string{"-"}, ctl...)
		}
		for _, c := range opts {
			if !full {
				// injective, or all equal
				dupe, allEq := false, true
				for _, x := range cur {
					if x == c {
						dupe = true
					} else {
						allEq = false
					}
				}
				if dupe && !(allEq && len(cur) > 0) {
					continue
				}
			}
			rec(append(cur, c), depth+1)
		}
	}
	rec(nil, 0)
	sibs := [][2]string{{"-", "-"}, {"p", "q"}, {"q", "p"}, {"c", "-"}, {"f", "p"}, {"p", "f"}, {"c", "q"},
		{"r", "s"}, {"s", "r"}, {"r", "-"}}
	if full {
		sibs = nil
		for _, a := range append([]string{"-"}, allCtl...) {
			for _, b := range append([]string{"-"}, allCtl...) {
				sibs = append(sibs, [2]string{a, b})
			}
		}
	}
	var out []DisNestParams
	for _, ls := range levelSets {
		for _, sb := range sibs {
			// only the controls that occur matter: enumerate all valuations
			// of those, the others stay false
			used := map[string]bool{}
			for _, c := range ls {
				used[c] = true
			}
			used[sb[0]], used[sb[1]] = true, true
			var bits []int
			for i, c := range []string{"p", "q", "c", "f", "r", "s"} {
				if used[c] {
					bits = append(bits, i)
				}
			}
			for m := 0; m < 1<<len(bits); m++ {
				v := 0
				for j, b := range bits {
					if m&(1<<j) != 0 {
						v |= 1 << b
					}
				}
				out = append(out, DisNestParams{Levels: ls, Sib: sb, Vals: v})
			}
		}
	}
	return out
}

// ---------------------------------------------------------------------------
// File-flow family (C04, C14, C13)

type FileParams struct {
	Out      string // f g fs fm s ss ms sp um d
	Proj     string // "" | f
	Prod     string // filew | splitw
	ProdWrap bool
	ConsWrap bool
	ConsMap  bool
	ProdMap  bool
	Late     bool
	Vol      string // "" | call | strict | false
	Retain   string // "" | stage | pipe
	TopOut   bool
	Mode     string // rolling | post | strict
	Size     int
	// Phys: the pipestance lives below a symlinked directory and the
	// producer reports its files by physical path.
	Phys bool
	// Second: the consumer (and, with TopOut, the top-level pipeline) also
	// takes a second file output of the same producer.
	Second bool `json:",omitempty"`
	// ConsDis: the first consumer is disabled: "lit" by a pipeline input
	// bound to true, "dyn" by a stage output that is true at run time.
	ConsDis string `json:",omitempty"`
	// NoCons: no stage consumes the output (it is only returned by the
	// top-level pipeline and / or retained, or not needed at all).
	NoCons bool `json:",omitempty"`
	// ProdDyn: the mapped producer maps over an array produced at run time
	// (its forks are expanded while the pipestance runs).
	ProdDyn bool `json:",omitempty"`
	// Sparse (with ProdMap and Second): the forks of the mapped producer
	// leave complementary file outputs null (even forks write f only, odd
	// forks g only); the consumer binds both.
	Sparse bool `json:",omitempty"`
	// ExtDir (with Out = "sp"): the producer's files directory holds a
	// symbolic link to a directory outside the pipestance, and the string
	// output names a file below that link.
	ExtDir bool `json:",omitempty"`
	// Slash (with Out = "d"): the producer names its directory output with
	// a trailing slash.
	Slash bool `json:",omitempty"`
	// KeyField (with Out = "ms"): one key of the typed map of structs is
	// also the name of the struct's file field.
	KeyField bool `json:",omitempty"`
}

func (d FileParams) String() string {
	sec := ""
	if d.Second {
		sec = " second=true"
	}
	if d.ConsDis != "" {
		sec += " consdis=" + d.ConsDis
	}
	if d.NoCons {
		sec += " nocons=true"
	}
	if d.ProdDyn {
		sec += " proddyn=true"
	}
	if d.Sparse {
		sec += " sparse=true"
	}
	if d.ExtDir {
		sec += " extdir=true"
	}
	if d.Slash {
		sec += " slash=true"
	}
	if d.KeyField {
		sec += " keyfield=true"
	}
	return fmt.Sprintf("files{out=%s proj=%q prod=%s prodwrap=%v conswrap=%v consmap=%v prodmap=%v late=%v vol=%q retain=%q topout=%v mode=%s size=%d phys=%v%s}",
		d.Out, d.Proj, d.Prod, d.ProdWrap, d.ConsWrap, d.ConsMap, d.ProdMap, d.Late, d.Vol, d.Retain, d.TopOut, d.Mode, d.Size, d.Phys, sec)
}

func filewOuts() []Param {
	txt := FiletypeT("txt")
	fs := StructT("FS")
	return []Param{{T: txt, Name: "f"}, {T: FileT, Name: "g"}, {T: ArrayOf(txt), Name: "fs"}, {T: TMapOf(txt), Name: "fm"},
		{T: fs, Name: "s"}, {T: ArrayOf(fs), Name: "ss"}, {T: TMapOf(fs), Name: "ms"},
		{T: StringT, Name: "sp"}, {T: MapT, Name: "um"}, {T: PathT, Name: "d"}}
}

func filerStage(p *Program, t *T) *Stage {
	name := "FILER_" + t.Mangle()
	if s := p.Stage(name); s != nil {
		return s
	}
	s := &Stage{Name: name, Fn: "FILER", Ins: []Param{{T: t, Name: "x"}, {T: IntT, Name: "after"}},
		Outs: []Param{{T: IntT, Name: "seen"}}}
	p.Stages = append(p.Stages, s)
	return s
}

// FileFlow builds the program for d (nil if inexpressible).
func FileFlow(d FileParams) *Program {
	p := baseProgram()
	p.Desc = d.String()
	p.Structs = append(p.Structs, &StructDecl{Name: "FS", Fields: []Param{{T: IntT, Name: "x"}, {T: FiletypeT("txt"), Name: "f"}}})
	size := int64(d.Size)
	if size == 0 {
		size = 2
	}
	var prod *Stage
	var outT *T
	switch d.Prod {
	case "filew", "":
		prod = &Stage{Name: "FILEW", Fn: "FILEW", Ins: []Param{{T: IntT, Name: "n"}}, Outs: filewOuts()}
		for _, o := range prod.Outs {
			if o.Name == d.Out {
				outT = o.T
			}
		}
	case "splitw":
		if d.Out != "f" {
			return nil
		}
		txt := FiletypeT("txt")
		prod = &Stage{Name: "SPLITW", Fn: "SPLITW", Split: true, Ins: []Param{{T: IntT, Name: "n"}},
			Outs: []Param{{T: txt, Name: "f"}}, ChunkIns: []Param{{T: IntT, Name: "i"}}, ChunkOuts: []Param{{T: txt, Name: "cf"}}}
		outT = txt
	case "splitn":
		// a split stage whose chunks produce no files at all
		if d.Out != "f" {
			return nil
		}
		txt := FiletypeT("txt")
		prod = &Stage{Name: "SPLITN", Fn: "SPLITN", Split: true, Ins: []Param{{T: IntT, Name: "n"}},
			Outs: []Param{{T: txt, Name: "f"}}, ChunkIns: []Param{{T: IntT, Name: "i"}}, ChunkOuts: []Param{{T: IntT, Name: "part"}}}
		outT = txt
	default:
		return nil
	}
	if outT == nil {
		return nil
	}
	switch d.Vol {
	case "strict", "false":
		prod.Volatile = d.Vol
	case "", "call":
	default:
		return nil
	}
	if d.Retain == "stage" {
		prod.Retain = []string{d.Out}
	}
	p.Stages = append(p.Stages, prod)
	var path []string
	if d.Proj != "" {
		path = strings.Split(d.Proj, ".")
	}
	valT, ok := projType(p, outT, path)
	if !ok {
		return nil
	}
	if d.ProdMap {
		valT = ArrayOf(valT)
		if !valT.Valid() {
			return nil
		}
	}
	consT := valT
	if d.ConsMap {
		switch valT.K {
		case TArray, TTMap:
			consT = valT.Elem
		default:
			return nil
		}
	}
	cons := filerStage(p, consT)
	secondOut := ""
	if d.ExtDir && (d.Out != "sp" || d.Prod != "filew" || d.ProdMap || d.Proj != "" || d.Phys) {
		return nil
	}
	if d.KeyField && (d.Out != "ms" || d.Prod != "filew" || d.ProdMap) {
		return nil
	}
	if d.Slash && (d.Out != "d" || d.Prod != "filew" || d.ProdMap || d.Proj != "" || d.ExtDir) {
		return nil
	}
	if d.Sparse && !(d.Second && d.ProdMap && !d.ProdDyn && (d.Out == "f" || d.Out == "g") && d.Proj == "") {
		return nil
	}
	if d.Second {
		if d.Prod != "filew" || (d.ProdMap && !d.Sparse) || d.ConsMap {
			return nil
		}
		secondOut = "g"
		if d.Out == "g" {
			secondOut = "f"
		}
		var secondT *T
		for _, o := range prod.Outs {
			if o.Name == secondOut {
				secondT = o.T
			}
		}
		if d.ProdMap {
			secondT = ArrayOf(secondT)
		}
		cons = &Stage{Name: cons.Name + "_2", Fn: "FILER", Ins: append(append([]Param{}, cons.Ins...), Param{T: secondT, Name: "x2"}), Outs: cons.Outs}
		p.Stages = append(p.Stages, cons)
	}
	top := &Pipeline{Name: "TOP", Ins: []Param{{T: IntT, Name: "n"}}}
	prodCall := &Call{Callee: prod.Name, Binds: []Bind{{"n", Self("n")}}}
	if d.KeyField {
		prod.Ins = append(prod.Ins, Param{T: IntT, Name: "kstyle"})
		prodCall.Binds = append(prodCall.Binds, Bind{"kstyle", Lit(Int(6))})
	}
	if d.Vol == "call" {
		prodCall.Volatile = "true"
	}
	if d.ProdDyn && !d.ProdMap {
		return nil
	}
	if d.ProdMap {
		prodCall.Map = true
		prodCall.Binds = []Bind{{"n", SplitE(Lit(Arr(Int(size), Int(size+1))))}}
		if d.Sparse {
			prodCall.Binds = []Bind{{"n", SplitE(Lit(Arr(Int(200+size), Int(201+size), Int(202+size))))}}
		}
		if d.ProdDyn {
			// GEN.arr has n elements, known only when GEN has run
			top.Calls = append(top.Calls, &Call{Callee: "GEN", Binds: []Bind{{"n", Lit(Int(3))}}})
			prodCall.Binds = []Bind{{"n", SplitE(Ref("GEN", "arr"))}}
		}
	}
	if d.NoCons && (d.Late || d.ConsWrap || d.ConsMap || d.Second || d.ConsDis != "") {
		return nil
	}
	var srcE, secondE *Exp
	pth := strings.Trim(d.Out+"."+d.Proj, ".")
	if d.ProdWrap {
		pw := &Pipeline{Name: "PW", Ins: []Param{{T: IntT, Name: "n"}},
			Outs: []Param{{T: valT, Name: "r"}}, Calls: []*Call{prodCall},
			Ret: []Bind{{"r", Ref(prod.Name, pth)}}}
		if d.Second {
			pw.Outs = append(pw.Outs, Param{T: cons.Ins[len(cons.Ins)-1].T, Name: "r2"})
			pw.Ret = append(pw.Ret, Bind{"r2", Ref(prod.Name, secondOut)})
			secondE = Ref("PW", "r2")
		}
		if d.ProdMap {
			return nil // keep the mapped producer at top level
		}
		if d.Retain == "pipe" {
			pw.Retain = []*Exp{Ref(prod.Name, d.Out)}
		}
		p.Pipelines = append(p.Pipelines, pw)
		top.Calls = append(top.Calls, &Call{Callee: "PW", Binds: []Bind{{"n", Self("n")}}})
		srcE = Ref("PW", "r")
	} else {
		top.Calls = append(top.Calls, prodCall)
		srcE = Ref(prod.Name, pth)
		if d.Second {
			secondE = Ref(prod.Name, secondOut)
		}
		if d.Retain == "pipe" {
			top.Retain = []*Exp{Ref(prod.Name, d.Out)}
		}
	}
	// slow chain
	top.Calls = append(top.Calls,
		&Call{Callee: "ADD", Alias: "SLOW1", Binds: []Bind{{"a", Self("n")}, {"b", Lit(Int(1))}}},
		&Call{Callee: "ADD", Alias: "SLOW2", Binds: []Bind{{"a", Ref("SLOW1", "sum")}, {"b", Lit(Int(1))}}})
	mkCons := func(alias string, after *Exp) (*Call, *T) {
		arg := srcE
		if d.ConsMap {
			arg = SplitE(srcE)
		}
		c := &Call{Callee: cons.Name, Alias: alias, Map: d.ConsMap, Binds: []Bind{{"x", arg}, {"after", after}}}
		if d.Second {
			c.Binds = append(c.Binds, Bind{"x2", secondE})
		}
		rt := IntT
		if d.ConsMap {
			if valT.K == TArray {
				rt = ArrayOf(IntT)
			} else {
				rt = TMapOf(IntT)
			}
		}
		return c, rt
	}
	if d.NoCons {
		// nothing reads the files while the pipestance runs
	} else if d.ConsWrap {
		if d.ConsMap {
			return nil
		}
		cw := &Pipeline{Name: "CW", Ins: []Param{{T: valT, Name: "x"}, {T: IntT, Name: "after"}},
			Outs:  []Param{{T: IntT, Name: "seen"}},
			Calls: []*Call{{Callee: cons.Name, Alias: "C", Binds: []Bind{{"x", Self("x")}, {"after", Self("after")}}}},
			Ret:   []Bind{{"seen", Ref("C", "seen")}}}
		if d.Second {
			if d.Late {
				return nil
			}
			cw.Ins = append(cw.Ins, Param{T: cons.Ins[len(cons.Ins)-1].T, Name: "x2"})
			cw.Calls[0].Binds = append(cw.Calls[0].Binds, Bind{"x2", Self("x2")})
		}
		p.Pipelines = append(p.Pipelines, cw)
		top.Calls = append(top.Calls, &Call{Callee: "CW", Alias: "C1", Binds: []Bind{{"x", srcE}, {"after", Self("n")}}})
		if d.Second {
			c := top.Calls[len(top.Calls)-1]
			c.Binds = append(c.Binds, Bind{"x2", secondE})
		}
		top.Outs = append(top.Outs, Param{T: IntT, Name: "seen1"})
		top.Ret = append(top.Ret, Bind{"seen1", Ref("C1", "seen")})
		if d.Late {
			top.Calls = append(top.Calls, &Call{Callee: "CW", Alias: "C2", Binds: []Bind{{"x", srcE}, {"after", Ref("SLOW2", "sum")}}})
			top.Outs = append(top.Outs, Param{T: IntT, Name: "seen2"})
			top.Ret = append(top.Ret, Bind{"seen2", Ref("C2", "seen")})
		}
	} else {
		c1, rt := mkCons("C1", Self("n"))
		top.Calls = append(top.Calls, c1)
		top.Outs = append(top.Outs, Param{T: rt, Name: "seen1"})
		top.Ret = append(top.Ret, Bind{"seen1", Ref("C1", "seen")})
		if d.Late {
			c2, rt2 := mkCons("C2", Ref("SLOW2", "sum"))
			top.Calls = append(top.Calls, c2)
			top.Outs = append(top.Outs, Param{T: rt2, Name: "seen2"})
			top.Ret = append(top.Ret, Bind{"seen2", Ref("C2", "seen")})
		}
	}
	if d.ConsDis != "" {
		var c1 *Call
		for _, c := range top.Calls {
			if c.Id() == "C1" {
				c1 = c
			}
		}
		switch d.ConsDis {
		case "lit":
			top.Ins = append(top.Ins, Param{T: BoolT, Name: "off"})
			c1.Disabled = Self("off")
		case "dyn":
			top.Calls = append([]*Call{{Callee: "COND", Binds: []Bind{{"n", Self("n")}}}}, top.Calls...)
			c1.Disabled = Ref("COND", "b")
		default:
			return nil
		}
	}
	top.Outs = append(top.Outs, Param{T: IntT, Name: "slow"})
	top.Ret = append(top.Ret, Bind{"slow", Ref("SLOW2", "sum")})
	if d.TopOut {
		top.Outs = append(top.Outs, Param{T: valT, Name: "kept"})
		top.Ret = append(top.Ret, Bind{"kept", srcE})
		if d.Second {
			top.Outs = append(top.Outs, Param{T: cons.Ins[len(cons.Ins)-1].T, Name: "kept2"})
			top.Ret = append(top.Ret, Bind{"kept2", secondE})
		}
	}
	p.Pipelines = append(p.Pipelines, top)
	p.Top = &Call{Callee: "TOP", Binds: []Bind{{"n", Lit(Int(size))}}}
	if d.ExtDir {
		p.Top = &Call{Callee: "TOP", Binds: []Bind{{"n", Lit(Int(100 + size))}}}
	}
	if d.Slash {
		p.Top = &Call{Callee: "TOP", Binds: []Bind{{"n", Lit(Int(300 + size))}}}
	}
	if d.ConsDis == "lit" {
		p.Top.Binds = append(p.Top.Binds, Bind{"off", Lit(Bool(true))})
	}
	FixUnused(p)
	return p
}

// FileFamily enumerates file-flow programs with at most maxDev dimensions
// off their base value; the VDR mode and volatile annotation are always
// fully enumerated.
func FileFamily(maxDev int) []FileParams {
	outs := []string{"f", "g", "fs", "fm", "s", "ss", "ms", "sp", "um", "d"}
	projs := []string{"", "f"}
	prods := []string{"filew", "splitw", "splitn"}
	vols := []string{"call", "", "strict", "false"}
	retains := []string{"", "stage", "pipe"}
	modes := []string{"rolling", "post", "strict"}
	bools := []bool{false, true}
	var out []FileParams
	for oi, o := range outs {
		for pi, pr := range projs {
			for di, prod := range prods {
				for _, vol := range vols {
					for ri, ret := range retains {
						for _, mode := range modes {
							for a, pw := range bools {
								for b, cw := range bools {
									for c, cm := range bools {
										for e, pm := range bools {
											for f, late := range bools {
												for g, topo := range bools {
													for h, phys := range bools {
														for k, second := range bools {
															for cdi, cd := range []string{"", "lit", "dyn"} {
																for nci, nc := range bools {
																	for pdi, pd := range bools {
																		dev := 0
																		for _, x := range []int{oi, pi, di, ri, a, b, c, e, f, g, h, k, cdi, nci} {
																			if x != 0 {
																				dev++
																			}
																		}
																		// "returned by the top-level pipeline and read by nobody else" is one step away from the base
																		if nci != 0 && g != 0 {
																			dev--
																		}
																		// a run-time source is a property of the mapped producer, not a dimension of its own
																		_ = pdi
																		if pd && !pm {
																			continue
																		}
																		if dev > maxDev {
																			continue
																		}
																		out = append(out, FileParams{Out: o, Proj: pr, Prod: prod, ProdWrap: pw, ConsWrap: cw,
																			ConsMap: cm, ProdMap: pm, Late: late, Vol: vol, Retain: ret, TopOut: topo, Mode: mode, Size: 2, Phys: phys, Second: second, ConsDis: cd,
																			NoCons: nc, ProdDyn: pd})
																	}
																}
															}
														}
													}
												}
											}
										}
									}
								}
							}
						}
					}
				}
			}
		}
	}
	// a link in files/ to a directory outside the pipestance, a file below it
	// named by a string output
	for _, vol := range vols {
		for _, mode := range modes {
			for _, late := range bools {
				for _, topo := range bools {
					out = append(out, FileParams{Out: "sp", Prod: "filew", ExtDir: true, Late: late, TopOut: topo, Vol: vol, Mode: mode, Size: 2})
				}
			}
		}
	}
	// a typed map of structs one of whose keys is the name of the struct's
	// file field, projected to that field and as a whole
	for _, vol := range vols {
		for _, mode := range modes {
			for _, pr := range []string{"", "f"} {
				for _, late := range bools {
					for _, topo := range bools {
						out = append(out, FileParams{Out: "ms", Proj: pr, Prod: "filew", KeyField: true, Late: late, TopOut: topo, Vol: vol, Mode: mode, Size: 2})
					}
				}
			}
		}
	}
	// a directory output named with a trailing slash
	for _, vol := range vols {
		for _, mode := range modes {
			for _, late := range bools {
				for _, topo := range bools {
					for _, ret := range []string{"", "pipe"} {
						out = append(out, FileParams{Out: "d", Prod: "filew", Slash: true, Late: late, TopOut: topo, Retain: ret, Vol: vol, Mode: mode, Size: 2})
					}
				}
			}
		}
	}
	// a mapped producer whose forks leave complementary outputs null, its two
	// file outputs bound by one consumer
	for _, vol := range vols {
		for _, mode := range modes {
			for _, o := range []string{"f", "g"} {
				for _, late := range bools {
					for _, topo := range bools {
						out = append(out, FileParams{Out: o, Prod: "filew", ProdMap: true, Second: true, Sparse: true, Late: late, TopOut: topo, Vol: vol, Mode: mode, Size: 2})
					}
				}
			}
		}
	}
	return out
}

// ---------------------------------------------------------------------------
// Top-level output materialisation family (C13)

type OutsParams struct {
	Outs    []string // FILEW outputs returned by the top-level pipeline
	OutName bool     // explicit output names on the pipeline's file outputs
	Size    int
	Mode    int  // 0 files, 1 nulls, 2 missing, 3 symlinks, 4 outside the pipestance, 5 relative links (from a sub-directory) to the first output's file, 6 outside the pipestance and named relative to the working directory, 7 directories named with a trailing slash
	ProdMap bool // mapped producer: every output becomes an array
	TopMap  bool // the top-level call itself is mapped
	Wrap    bool // outputs pass through a sub-pipeline
	// Collide makes two outputs derive the same name under outs/:
	// 1 an explicit name equal to another output's default name, 2 two equal
	// explicit names, 3 the same inside a struct-typed output, 4 an explicit
	// file name equal to the directory name of a collection output, 5 as 1
	// with the explicitly named output declared first.
	Collide int `json:",omitempty"`
	// Keys is the MapKeyStyle of the typed maps the producer returns.
	Keys int `json:",omitempty"`
	// TopKeys (with TopMap): the top-level call is mapped over a typed map
	// instead of an array: 1 plain keys, 2 a key holding '/', 3 the key "..".
	TopKeys int `json:",omitempty"`
}

func (d OutsParams) String() string {
	c := ""
	if d.Collide != 0 {
		c = fmt.Sprintf(" collide=%d", d.Collide)
	}
	if d.Keys != 0 {
		c += fmt.Sprintf(" keys=%d", d.Keys)
	}
	if d.TopKeys != 0 {
		c += fmt.Sprintf(" topkeys=%d", d.TopKeys)
	}
	return fmt.Sprintf("outs{outs=%s outname=%v size=%d mode=%d prodmap=%v topmap=%v wrap=%v%s}",
		strings.Join(d.Outs, "+"), d.OutName, d.Size, d.Mode, d.ProdMap, d.TopMap, d.Wrap, c)
}

func OutsFlow(d OutsParams) *Program {
	p := baseProgram()
	p.Desc = d.String()
	p.Structs = append(p.Structs, &StructDecl{Name: "FS", Fields: []Param{{T: IntT, Name: "x"}, {T: FiletypeT("txt"), Name: "f"}}})
	p.Structs = append(p.Structs, &StructDecl{Name: "OUTER", Fields: []Param{{T: StructT("FS"), Name: "inner"},
		{T: ArrayOf(FiletypeT("txt")), Name: "list"}, {T: TMapOf(FileT), Name: "m"}, {T: FileT, Name: "named", OutName: "explicit.bin"}}})
	outs := append(filewOuts(), Param{T: IntT, Name: "num"}, Param{T: ArrayOf(ArrayOf(FiletypeT("txt"))), Name: "ff"},
		Param{T: TMapOf(ArrayOf(FiletypeT("txt"))), Name: "mfa"}, Param{T: StructT("OUTER"), Name: "so"},
		// din names the file inside the directory output d (mode 0)
		Param{T: FileT, Name: "din"},
		// a struct whose file member comes after a string and an untyped map
		Param{T: StructT("LS"), Name: "ls"})
	p.Structs = append(p.Structs, &StructDecl{Name: "LS", Fields: []Param{{T: StringT, Name: "label"}, {T: MapT, Name: "info"}, {T: FiletypeT("txt"), Name: "f"}}})
	prod := &Stage{Name: "FILEW", Fn: "FILEW", Ins: []Param{{T: IntT, Name: "n"}, {T: IntT, Name: "mode"}}, Outs: outs}
	p.Stages = append(p.Stages, prod)
	top := &Pipeline{Name: "TOP", Ins: []Param{{T: IntT, Name: "n"}, {T: IntT, Name: "mode"}}}
	call := &Call{Callee: "FILEW", Binds: []Bind{{"n", Self("n")}, {"mode", Self("mode")}}}
	if d.Keys != 0 {
		prod.Ins = append(prod.Ins, Param{T: IntT, Name: "kstyle"})
		call.Binds = append(call.Binds, Bind{"kstyle", Lit(Int(int64(d.Keys)))})
	}
	if d.ProdMap {
		call.Map = true
		call.Binds[0].E = SplitE(Lit(Arr(Int(int64(d.Size)), Int(int64(d.Size)+1))))
	}
	src := "FILEW"
	if d.Wrap {
		sub := &Pipeline{Name: "SUB", Ins: []Param{{T: IntT, Name: "n"}, {T: IntT, Name: "mode"}}, Calls: []*Call{call}}
		for _, o := range d.Outs {
			for _, op := range outs {
				if op.Name == o {
					t := op.T
					if d.ProdMap {
						t = ArrayOf(t)
					}
					if !t.Valid() {
						return nil
					}
					sub.Outs = append(sub.Outs, Param{T: t, Name: o})
					sub.Ret = append(sub.Ret, Bind{o, Ref("FILEW", o)})
				}
			}
		}
		p.Pipelines = append(p.Pipelines, sub)
		top.Calls = append(top.Calls, &Call{Callee: "SUB", Binds: []Bind{{"n", Self("n")}, {"mode", Self("mode")}}})
		src = "SUB"
	} else {
		top.Calls = append(top.Calls, call)
	}
	for _, o := range d.Outs {
		found := false
		for _, op := range outs {
			if op.Name == o {
				found = true
				t := op.T
				if d.ProdMap {
					t = ArrayOf(t)
				}
				if !t.Valid() {
					return nil
				}
				param := Param{T: t, Name: "r_" + o}
				if d.OutName && (t.K == TFiletype || t.K == TFile || t.K == TPath) {
					param.OutName = "named_" + o + ".out"
				}
				top.Outs = append(top.Outs, param)
				top.Ret = append(top.Ret, Bind{"r_" + o, Ref(src, o)})
			}
		}
		if !found {
			return nil
		}
	}
	if d.Collide != 0 {
		if d.ProdMap {
			return nil
		}
		// the first two outputs of the set must be f and g
		if len(d.Outs) < 2 || d.Outs[0] != "f" || d.Outs[1] != "g" {
			return nil
		}
		switch d.Collide {
		case 1:
			top.Outs[0].OutName = ""
			top.Outs[1].OutName = "r_f.txt"
		case 2:
			top.Outs[0].OutName = "same.out"
			top.Outs[1].OutName = "same.out"
		case 3:
			p.Structs = append(p.Structs, &StructDecl{Name: "T2", Fields: []Param{
				{T: FiletypeT("txt"), Name: "a"}, {T: FileT, Name: "b", OutName: "a.txt"}}})
			top.Outs = append(top.Outs, Param{T: StructT("T2"), Name: "r_t"})
			top.Ret = append(top.Ret, Bind{"r_t", StructE([]string{"a", "b"}, []*Exp{Ref(src, "f"), Ref(src, "g")})})
			top.Outs, top.Ret = top.Outs[2:], top.Ret[2:]
		case 4:
			if len(d.Outs) < 3 || d.Outs[2] != "fs" {
				return nil
			}
			top.Outs[1].OutName = "r_fs"
		case 5:
			top.Outs[0].OutName = "r_g"
			top.Outs[1].OutName = ""
		}
	}
	p.Pipelines = append(p.Pipelines, top)
	p.Top = &Call{Callee: "TOP", Binds: []Bind{{"n", Lit(Int(int64(d.Size)))}, {"mode", Lit(Int(int64(d.Mode)))}}}
	if d.TopMap {
		p.Top.Map = true
		p.Top.Binds[0].E = SplitE(Lit(Arr(Int(int64(d.Size)), Int(int64(d.Size)+1))))
		if d.TopKeys != 0 {
			keys := [][]string{nil, {"a", "b"}, {"a", "a/b"}, {"..", "c"}}[d.TopKeys]
			p.Top.Binds[0].E = SplitE(Lit(Obj(map[string]*Val{keys[0]: Int(int64(d.Size)), keys[1]: Int(int64(d.Size) + 1)})))
		}
	} else if d.TopKeys != 0 {
		return nil
	}
	FixUnused(p)
	return p
}

func OutsFamily(thorough bool) []OutsParams {
	names := []string{"f", "g", "fs", "fm", "s", "ss", "ms", "sp", "um", "d", "num", "ff", "mfa", "so", "ls"}
	var sets [][]string
	for _, n := range names {
		sets = append(sets, []string{n})
	}
	sets = append(sets, names, []string{"f", "s", "num"}, []string{"fs", "fm", "ss", "ms"})
	sizes := []int{2, 0, 1, 11}
	var out []OutsParams
	for _, set := range sets {
		for _, size := range sizes {
			for mode := 0; mode <= 6; mode++ {
				if mode == 5 && len(set) < 2 && set[0] != "fs" && set[0] != "s" && set[0] != "ss" && set[0] != "ff" {
					continue // needs at least two file leaves
				}
				for _, on := range []bool{false, true} {
					for _, pm := range []bool{false, true} {
						for _, tm := range []bool{false, true} {
							for _, wr := range []bool{false, true} {
								dev := 0
								for _, b := range []bool{size != 2, mode != 0, on, pm, tm, wr} {
									if b {
										dev++
									}
								}
								if dev > 3 && !thorough {
									continue
								}
								out = append(out, OutsParams{Outs: set, OutName: on, Size: size, Mode: mode, ProdMap: pm, TopMap: tm, Wrap: wr})
							}
						}
					}
				}
			}
		}
	}
	// mode 7: the directory output is named with a trailing slash
	for _, set := range [][]string{{"d"}, names, {"d", "din"}} {
		for _, on := range []bool{false, true} {
			for _, pm := range []bool{false, true} {
				for _, tm := range []bool{false, true} {
					for _, wr := range []bool{false, true} {
						out = append(out, OutsParams{Outs: set, OutName: on, Size: 2, Mode: 7, ProdMap: pm, TopMap: tm, Wrap: wr})
					}
				}
			}
		}
	}
	// a directory output and a file output naming a file inside that
	// directory, in both declaration orders
	for _, set := range [][]string{{"d", "din"}, {"din", "d"}, {"din"}} {
		for _, on := range []bool{false, true} {
			for _, pm := range []bool{false, true} {
				for _, tm := range []bool{false, true} {
					for _, wr := range []bool{false, true} {
						out = append(out, OutsParams{Outs: set, OutName: on, Size: 2, ProdMap: pm, TopMap: tm, Wrap: wr})
					}
				}
			}
		}
	}
	// the top-level call mapped over a typed map
	for tk := 1; tk <= 3; tk++ {
		for _, set := range [][]string{{"f"}, {"fs"}, {"s"}, {"d"}, {"f", "s", "num"}} {
			for _, wr := range []bool{false, true} {
				for _, pm := range []bool{false, true} {
					out = append(out, OutsParams{Outs: set, Size: 2, TopMap: true, Wrap: wr, ProdMap: pm, TopKeys: tk})
				}
			}
		}
	}
	for ks := 1; ks <= 5; ks++ {
		for _, set := range [][]string{{"fm"}, {"ms"}, {"mfa"}, {"so"}} {
			for _, size := range []int{2, 1, 11} {
				for _, pm := range []bool{false, true} {
					for _, tm := range []bool{false, true} {
						if size != 2 && (pm || tm) {
							continue
						}
						out = append(out, OutsParams{Outs: set, Size: size, ProdMap: pm, TopMap: tm, Keys: ks})
					}
				}
			}
		}
	}
	for c := 1; c <= 5; c++ {
		for _, tm := range []bool{false, true} {
			for _, wr := range []bool{false, true} {
				for _, mode := range []int{0, 3} {
					out = append(out, OutsParams{Outs: []string{"f", "g", "fs"}, Size: 2, Mode: mode, TopMap: tm, Wrap: wr, Collide: c})
				}
			}
		}
	}
	return out
}

// ---------------------------------------------------------------------------
// C11: fork identities.  A two-level nest of mapped calls whose sources are
// arrays or typed maps with adversarial keys, literal or produced at run time.

type KeyParams struct {
	Outer    string // "" (no outer map), arr, map
	OuterDyn bool   // the outer collection is a stage output
	OuterSel int    // key set (map) or length (arr)
	Inner    string // arr, map
	InnerDyn bool
	InnerSel int
	Chunks   int // 0: no split leaf; n: the split leaf SUMS has n chunks
	// InnerLocal (with InnerDyn): the stage producing the inner collection is
	// called INSIDE the mapped pipeline (one producer per outer fork) and the
	// leaf is mapped over a sibling's output rather than a pipeline input.
	InnerLocal bool `json:",omitempty"`
	// Ragged ("arr" or "map"): the outer call maps over an array whose
	// elements are themselves the inner collections (arrays / typed maps of
	// different sizes, shape OuterSel); Outer/Inner are ignored.
	Ragged string `json:",omitempty"`
	// Mix ("arr" or "map", with Ragged = "arr"): the outer collection is a
	// LITERAL array / typed map whose elements are references to run-time
	// arrays of different lengths (outputs of two producer calls).
	Mix string `json:",omitempty"`
	// Twin: every stage call has a sibling calling the same stage with the
	// same arguments under an id that extends its own (X and X_2): one
	// name is a prefix of the other.
	Twin bool `json:",omitempty"`
}

// withTwins adds, next to every stage call X of every pipeline, the call
// "X_2" (same callee, same bindings and modifiers; its outputs are unused).
func withTwins(p *Program) *Program {
	for _, pl := range p.Pipelines {
		var calls []*Call
		for _, c := range pl.Calls {
			calls = append(calls, c)
			if p.Stage(c.Callee) == nil || c.Preflight {
				continue
			}
			t := *c
			t.Alias = c.Id() + "_2"
			calls = append(calls, &t)
		}
		pl.Calls = calls
	}
	return p
}

func (d KeyParams) String() string {
	if d.Twin {
		e := d
		e.Twin = false
		return strings.TrimSuffix(e.String(), "}") + " twin}"
	}
	if d.Ragged != "" && d.Mix != "" {
		return fmt.Sprintf("keys{ragged=%s mix=%s/%d chunks=%d}", d.Ragged, d.Mix, d.OuterSel, d.Chunks)
	}
	if d.Ragged != "" {
		return fmt.Sprintf("keys{ragged=%s/%v/%d chunks=%d}", d.Ragged, d.OuterDyn, d.OuterSel, d.Chunks)
	}
	loc := ""
	if d.InnerLocal {
		loc = " innerlocal"
	}
	return fmt.Sprintf("keys{outer=%s/%v/%d inner=%s/%v/%d chunks=%d%s}", d.Outer, d.OuterDyn, d.OuterSel, d.Inner, d.InnerDyn, d.InnerSel, d.Chunks, loc)
}

// raggedFlow: map call INNER(c = split <array of collections>) where INNER
// maps its leaves over self.c.
func raggedFlow(d KeyParams) *Program {
	p := baseProgram()
	p.Desc = d.String()
	innerT := ArrayOf(IntT)
	outName := "aa"
	src := RaggedArrays(d.OuterSel)
	if d.Ragged == "map" {
		innerT = TMapOf(IntT)
		outName = "am"
		src = RaggedMaps(d.OuterSel)
	}
	p.Stages = append(p.Stages, &Stage{Name: "RAGGED", Fn: "RAGGED", Ins: []Param{{T: IntT, Name: "sel"}},
		Outs: []Param{{T: ArrayOf(ArrayOf(IntT)), Name: "aa"}, {T: ArrayOf(TMapOf(IntT)), Name: "am"}}})
	top := &Pipeline{Name: "TOP", Ins: []Param{{T: IntT, Name: "n"}}}
	inner := &Pipeline{Name: "INNER", Ins: []Param{{T: IntT, Name: "x"}, {T: innerT, Name: "c"}}}
	inner.Calls = append(inner.Calls, &Call{Callee: "ADD", Map: true, Binds: []Bind{{"a", Self("x")}, {"b", SplitE(Self("c"))}}})
	inner.Outs = append(inner.Outs, Param{T: innerT, Name: "zs"})
	inner.Ret = append(inner.Ret, Bind{"zs", Ref("ADD", "sum")})
	if d.Chunks > 0 {
		xs := &Val{K: VArr}
		for i := 0; i < d.Chunks; i++ {
			xs.A = append(xs.A, Int(int64(i+1)))
		}
		inner.Calls = append(inner.Calls, &Call{Callee: "SUMS", Map: true, Binds: []Bind{{"xs", Lit(xs)}, {"k", SplitE(Ref("ADD", "sum"))}}})
		inner.Outs = append(inner.Outs, Param{T: innerT, Name: "ts"})
		inner.Ret = append(inner.Ret, Bind{"ts", Ref("SUMS", "total")})
	}
	p.Pipelines = append(p.Pipelines, inner)
	var srcE *Exp
	outerColl := ArrayOf
	if d.Mix != "" {
		// a literal collection of references to run-time arrays whose
		// lengths are the numbers of the ragged shape
		if d.Ragged != "arr" || d.OuterDyn || RaggedHasNull(d.OuterSel) {
			return nil
		}
		p.Stages = append(p.Stages, &Stage{Name: "KEYS", Fn: "KEYS", Ins: []Param{{T: IntT, Name: "sel"}},
			Outs: []Param{{T: TMapOf(IntT), Name: "m"}, {T: ArrayOf(IntT), Name: "a"}}})
		var keys []string
		var refs []*Exp
		for i, e := range src.A {
			if len(e.A) == 0 {
				return nil // KEYS has no selector for the empty array
			}
			id := fmt.Sprintf("K%d", i)
			top.Calls = append(top.Calls, &Call{Callee: "KEYS", Alias: id, Binds: []Bind{{"sel", Lit(Int(int64(-len(e.A))))}}})
			keys = append(keys, "k"+string(rune('a'+i)))
			refs = append(refs, Ref(id, "a"))
		}
		if len(refs) == 0 {
			return nil
		}
		if d.Mix == "map" {
			srcE = MapE(keys, refs)
			outerColl = TMapOf
		} else {
			srcE = ArrE(refs...)
		}
	} else if d.OuterDyn {
		top.Calls = append(top.Calls, &Call{Callee: "RAGGED", Binds: []Bind{{"sel", Lit(Int(int64(d.OuterSel)))}}})
		srcE = Ref("RAGGED", outName)
	} else {
		srcE = TLit(p, src, ArrayOf(innerT))
	}
	top.Calls = append(top.Calls, &Call{Callee: "INNER", Map: true, Binds: []Bind{{"x", Self("n")}, {"c", SplitE(srcE)}}})
	for _, o := range inner.Outs {
		top.Outs = append(top.Outs, Param{T: outerColl(o.T), Name: "r_" + o.Name})
		top.Ret = append(top.Ret, Bind{"r_" + o.Name, Ref("INNER", o.Name)})
	}
	p.Pipelines = append(p.Pipelines, top)
	p.Top = &Call{Callee: "TOP", Binds: []Bind{{"n", Lit(Int(7))}}}
	FixUnused(p)
	return p
}

// RaggedFamily enumerates the ragged nests.
func RaggedFamily(thorough bool) []KeyParams {
	var out []KeyParams
	for _, mix := range []string{"arr", "map"} {
		for sel := 0; sel < RaggedCount(); sel++ {
			for _, ch := range []int{0, 2} {
				out = append(out, KeyParams{Ragged: "arr", Mix: mix, OuterSel: sel, Chunks: ch})
			}
		}
	}
	for _, kind := range []string{"arr", "map"} {
		for sel := 0; sel < RaggedCount(); sel++ {
			for _, dyn := range []bool{false, true} {
				for _, ch := range []int{0, 2} {
					out = append(out, KeyParams{Ragged: kind, OuterDyn: dyn, OuterSel: sel, Chunks: ch})
				}
			}
		}
	}
	return out
}

func keySource(kind string, dyn bool, sel int, call string) (*Exp, *T) {
	if kind == "map" {
		if dyn {
			return Ref(call, "m"), TMapOf(IntT)
		}
		o := Obj(nil)
		for i, k := range KeySet(sel) {
			o.O[k] = Int(int64(i + 1))
		}
		return Lit(o), TMapOf(IntT)
	}
	if dyn {
		return Ref(call, "a"), ArrayOf(IntT)
	}
	a := &Val{K: VArr}
	for i := 0; i < sel; i++ {
		a.A = append(a.A, Int(int64(100*(i+1))))
	}
	return Lit(a), ArrayOf(IntT)
}

// KeyFlow builds the program for d.
func KeyFlow(d KeyParams) *Program {
	if d.Twin {
		e := d
		e.Twin = false
		p := KeyFlow(e)
		if p == nil {
			return nil
		}
		p.Desc = d.String()
		return withTwins(p)
	}
	if d.Ragged != "" {
		return raggedFlow(d)
	}
	p := baseProgram()
	p.Desc = d.String()
	keys := &Stage{Name: "KEYS", Fn: "KEYS", Ins: []Param{{T: IntT, Name: "sel"}},
		Outs: []Param{{T: TMapOf(IntT), Name: "m"}, {T: ArrayOf(IntT), Name: "a"}}}
	p.Stages = append(p.Stages, keys)
	sel := func(kind string, s int) int64 {
		if kind == "arr" {
			return int64(-s)
		}
		return int64(s)
	}
	top := &Pipeline{Name: "TOP", Ins: []Param{{T: IntT, Name: "n"}}}
	if d.InnerLocal && !d.InnerDyn {
		return nil
	}
	kin := &Call{Callee: "KEYS", Alias: "KIN", Binds: []Bind{{"sel", Lit(Int(sel(d.Inner, d.InnerSel)))}}}
	if d.InnerDyn && !d.InnerLocal {
		top.Calls = append(top.Calls, kin)
	}
	if d.Outer != "" && d.OuterDyn {
		top.Calls = append(top.Calls, &Call{Callee: "KEYS", Alias: "KOUT", Binds: []Bind{{"sel", Lit(Int(sel(d.Outer, d.OuterSel)))}}})
	}
	innerSrc, innerT := keySource(d.Inner, d.InnerDyn, d.InnerSel, "KIN")
	collOf := func(kind string, t *T) *T {
		if kind == "map" {
			return TMapOf(t)
		}
		return ArrayOf(t)
	}
	// INNER maps the leaves over its collection input
	inner := &Pipeline{Name: "INNER", Ins: []Param{{T: IntT, Name: "x"}, {T: innerT, Name: "c"}}}
	leafSrc := Self("c")
	if d.InnerLocal {
		inner.Ins = inner.Ins[:1]
		// the producer takes the outer element, so that it runs once per
		// outer fork (a call that depends on nothing forked runs only once)
		keys.Ins = append(keys.Ins, Param{T: IntT, Name: "dep"})
		kin.Binds = append(kin.Binds, Bind{"dep", Self("x")})
		if d.Outer != "" && d.OuterDyn {
			for _, c := range top.Calls {
				if c.Alias == "KOUT" {
					c.Binds = append(c.Binds, Bind{"dep", Lit(Int(0))})
				}
			}
		}
		inner.Calls = append(inner.Calls, kin)
		leafSrc = innerSrc
	}
	inner.Calls = append(inner.Calls, &Call{Callee: "ADD", Map: true, Binds: []Bind{{"a", Self("x")}, {"b", SplitE(leafSrc)}}})
	inner.Outs = append(inner.Outs, Param{T: collOf(d.Inner, IntT), Name: "zs"})
	inner.Ret = append(inner.Ret, Bind{"zs", Ref("ADD", "sum")})
	if d.Chunks > 0 {
		xs := &Val{K: VArr}
		for i := 0; i < d.Chunks; i++ {
			xs.A = append(xs.A, Int(int64(i+1)))
		}
		inner.Calls = append(inner.Calls, &Call{Callee: "SUMS", Map: true, Binds: []Bind{{"xs", Lit(xs)}, {"k", SplitE(Ref("ADD", "sum"))}}})
		inner.Outs = append(inner.Outs, Param{T: collOf(d.Inner, IntT), Name: "ts"})
		inner.Ret = append(inner.Ret, Bind{"ts", Ref("SUMS", "total")})
	}
	if d.Outer == "map" && d.Inner == "map" {
		// map<map<int>> cannot be declared: return the maps inside a struct
		rs := &StructDecl{Name: "R"}
		var ks []string
		var vs []*Exp
		for i, o := range inner.Outs {
			rs.Fields = append(rs.Fields, Param{T: o.T, Name: o.Name})
			ks = append(ks, o.Name)
			vs = append(vs, inner.Ret[i].E)
		}
		p.Structs = append(p.Structs, rs)
		inner.Outs = []Param{{T: StructT("R"), Name: "r"}}
		inner.Ret = []Bind{{"r", StructE(ks, vs)}}
	}
	p.Pipelines = append(p.Pipelines, inner)
	call := &Call{Callee: "INNER", Binds: []Bind{{"x", Self("n")}, {"c", innerSrc}}}
	if d.InnerLocal {
		call.Binds = call.Binds[:1]
	}
	outT := func(t *T) *T { return t }
	if d.Outer != "" {
		outerSrc, _ := keySource(d.Outer, d.OuterDyn, d.OuterSel, "KOUT")
		call.Map = true
		call.Binds[0].E = SplitE(outerSrc)
		outT = func(t *T) *T { return collOf(d.Outer, t) }
	}
	top.Calls = append(top.Calls, call)
	for _, o := range inner.Outs {
		top.Outs = append(top.Outs, Param{T: outT(o.T), Name: "r_" + o.Name})
		top.Ret = append(top.Ret, Bind{"r_" + o.Name, Ref("INNER", o.Name)})
	}
	p.Pipelines = append(p.Pipelines, top)
	p.Top = &Call{Callee: "TOP", Binds: []Bind{{"n", Lit(Int(7))}}}
	FixUnused(p)
	return p
}

// KeyFamily enumerates the C11 programs.
func KeyFamily(thorough bool) []KeyParams {
	var out []KeyParams
	arrSizes := []int{1, 2, 10, 11}
	if thorough {
		arrSizes = []int{1, 2, 9, 10, 11, 100, 101}
	}
	type src struct {
		kind string
		sel  int
	}
	var inners []src
	for i := range KeySets {
		inners = append(inners, src{"map", i})
	}
	for _, n := range arrSizes {
		inners = append(inners, src{"arr", n})
	}
	// single level: every key set / length, static and dynamic, with and without chunks
	for _, in := range inners {
		for _, dyn := range []bool{false, true} {
			for _, ch := range []int{0, 2, 11} {
				out = append(out, KeyParams{Inner: in.kind, InnerDyn: dyn, InnerSel: in.sel, Chunks: ch})
			}
		}
	}
	// every pair of short keys, produced at run time
	for i := 0; i < PairSetCount(); i++ {
		out = append(out, KeyParams{Inner: "map", InnerDyn: true, InnerSel: 1000 + i})
	}
	// two levels
	outers := []src{{"arr", 2}, {"arr", 11}, {"map", 0}, {"map", 2}, {"map", 9}, {"map", 5}}
	if thorough {
		outers = nil
		for i := range KeySets {
			outers = append(outers, src{"map", i})
		}
		for _, n := range arrSizes {
			outers = append(outers, src{"arr", n})
		}
	}
	for _, o := range outers {
		for _, in := range inners {
			if !thorough && in.kind == "arr" && in.sel > 11 {
				continue
			}
			for _, od := range []bool{false, true} {
				for _, id := range []bool{false, true} {
					for _, ch := range []int{0, 2} {
						if !thorough && ch != 0 && (od != id) {
							continue
						}
						out = append(out, KeyParams{Outer: o.kind, OuterDyn: od, OuterSel: o.sel, Inner: in.kind, InnerDyn: id, InnerSel: in.sel, Chunks: ch})
					}
				}
			}
		}
	}
	out = append(out, RaggedFamily(thorough)...)
	// sibling calls one of whose ids is a prefix of the other's: the two-level
	// nests with plain keys again, every stage call doubled
	for _, d := range NestFamily(thorough) {
		if d.Ragged == "" {
			d.Twin = true
			out = append(out, d)
		}
	}
	return out
}

// NestFamily is the part of the key family used by the dataflow checks:
// two-level nests with plain keys.
func NestFamily(thorough bool) []KeyParams {
	type src struct {
		kind string
		sel  int
	}
	outers := []src{{"arr", 2}, {"map", 0}}
	inners := []src{{"arr", 2}, {"map", 0}, {"arr", 3}}
	if thorough {
		outers = append(outers, src{"arr", 0}, src{"arr", 1}, src{"arr", 11})
		inners = append(inners, src{"arr", 0}, src{"arr", 1}, src{"arr", 10})
	}
	var out []KeyParams
	for _, o := range outers {
		for _, in := range inners {
			for _, od := range []bool{false, true} {
				for _, id := range []bool{false, true} {
					for _, ch := range []int{0, 2} {
						out = append(out, KeyParams{Outer: o.kind, OuterDyn: od, OuterSel: o.sel, Inner: in.kind, InnerDyn: id, InnerSel: in.sel, Chunks: ch})
					}
				}
			}
		}
	}
	for _, o := range outers {
		for _, in := range inners {
			for _, od := range []bool{false, true} {
				for _, ch := range []int{0, 2} {
					out = append(out, KeyParams{Outer: o.kind, OuterDyn: od, OuterSel: o.sel, Inner: in.kind, InnerDyn: true, InnerLocal: true, InnerSel: in.sel, Chunks: ch})
				}
			}
		}
	}
	out = append(out, RaggedFamily(thorough)...)
	return out
}

// FileCrashShapes are the file-flow programs whose runs are interrupted at
// every effect (C04/C14 crash-restart phase).
func FileCrashShapes(thorough bool) []FileParams {
	var out []FileParams
	outs := []string{"f", "fs"}
	if thorough {
		outs = []string{"f", "fs", "s", "fm", "d"}
	}
	for _, o := range outs {
		for _, prod := range []string{"filew", "splitw"} {
			for _, mode := range []string{"rolling", "strict"} {
				for _, late := range []bool{false, true} {
					for _, top := range []bool{false, true} {
						out = append(out, FileParams{Out: o, Prod: prod, Vol: "call", Mode: mode, Late: late, TopOut: top, Size: 2})
					}
				}
			}
		}
	}
	return out
}

// ---------------------------------------------------------------------------
// Per-fork disabling: a call inside a mapped pipeline is disabled by (a
// member of) the element the pipeline is mapped over, so that it runs in some
// forks of the pipeline and not in others.

type PfDisParams struct {
	Member bool   // the flag is a member of a struct element (else an element of a bool array mapped next to the numbers)
	Dyn    bool   // the collection of flags is a stage output (else a literal)
	Cons   string // plain: a call consumes the output; map: a call maps over the array output; pass: the pipeline returns the output
	Flags  []bool // one per fork of the mapped pipeline: true = disabled
}

func (d PfDisParams) String() string {
	fl := ""
	for _, f := range d.Flags {
		if f {
			fl += "1"
		} else {
			fl += "0"
		}
	}
	return fmt.Sprintf("pfdis{member=%v dyn=%v cons=%s flags=%s}", d.Member, d.Dyn, d.Cons, fl)
}

func PfDis(d PfDisParams) *Program {
	if !d.Dyn && d.Cons == "plain" && len(d.Flags) > 0 {
		// All forks disabled by literals: the consumer's arguments are
		// constants and whether it still runs once per fork is not stated.
		all := true
		for _, f := range d.Flags {
			all = all && f
		}
		if all {
			return nil
		}
	}
	p := baseProgram()
	p.Desc = d.String()
	I, B := IntT, BoolT
	item := StructT("ITEM")
	p.Structs = append(p.Structs, &StructDecl{Name: "ITEM", Fields: []Param{{T: B, Name: "flag"}, {T: I, Name: "n"}}})
	p.Stages = append(p.Stages,
		&Stage{Name: "GENI", Fn: "ID", Ins: []Param{{T: ArrayOf(item), Name: "x"}}, Outs: []Param{{T: ArrayOf(item), Name: "y"}}},
		&Stage{Name: "GENB", Fn: "ID", Ins: []Param{{T: ArrayOf(B), Name: "x"}}, Outs: []Param{{T: ArrayOf(B), Name: "y"}}})
	inner := &Pipeline{Name: "INNER"}
	var dis, n *Exp
	if d.Member {
		inner.Ins = []Param{{T: item, Name: "item"}}
		dis, n = Self("item", "flag"), Self("item", "n")
	} else {
		inner.Ins = []Param{{T: B, Name: "flag"}, {T: I, Name: "n"}}
		dis, n = Self("flag"), Self("n")
	}
	inner.Calls = append(inner.Calls, &Call{Callee: "GEN", Alias: "MAKE", Binds: []Bind{{"n", n}}, Disabled: dis})
	var outT *T
	switch d.Cons {
	case "plain":
		inner.Calls = append(inner.Calls, &Call{Callee: "ADD", Binds: []Bind{{"a", Ref("MAKE", "v")}, {"b", Lit(Int(1))}}})
		outT = I
		inner.Ret = []Bind{{"ys", Ref("ADD", "sum")}}
	case "map":
		inner.Calls = append(inner.Calls, &Call{Callee: "ADD", Map: true, Binds: []Bind{{"a", SplitE(Ref("MAKE", "arr"))}, {"b", Lit(Int(1))}}})
		outT = ArrayOf(I)
		inner.Ret = []Bind{{"ys", Ref("ADD", "sum")}}
	case "pass":
		outT = I
		inner.Ret = []Bind{{"ys", Ref("MAKE", "v")}}
	default:
		return nil
	}
	inner.Outs = []Param{{T: outT, Name: "ys"}}
	elems, bs, ns := &Val{K: VArr}, &Val{K: VArr}, &Val{K: VArr}
	for i, f := range d.Flags {
		elems.A = append(elems.A, Obj(map[string]*Val{"flag": Bool(f), "n": Int(int64(i + 1))}))
		bs.A = append(bs.A, Bool(f))
		ns.A = append(ns.A, Int(int64(i+1)))
	}
	top := &Pipeline{Name: "TOP", Outs: []Param{{T: ArrayOf(outT), Name: "ys"}}}
	call := &Call{Callee: "INNER", Map: true}
	if d.Member {
		lit := TLit(p, elems, ArrayOf(item))
		if d.Dyn {
			top.Calls = append(top.Calls, &Call{Callee: "GENI", Binds: []Bind{{"x", lit}}})
			call.Binds = []Bind{{"item", SplitE(Ref("GENI", "y"))}}
		} else {
			call.Binds = []Bind{{"item", SplitE(lit)}}
		}
	} else {
		if d.Dyn {
			top.Calls = append(top.Calls, &Call{Callee: "GENB", Binds: []Bind{{"x", Lit(bs)}}})
			call.Binds = []Bind{{"flag", SplitE(Ref("GENB", "y"))}, {"n", SplitE(Lit(ns))}}
		} else {
			call.Binds = []Bind{{"flag", SplitE(Lit(bs))}, {"n", SplitE(Lit(ns))}}
		}
	}
	top.Calls = append(top.Calls, call)
	top.Ret = []Bind{{"ys", Ref("INNER", "ys")}}
	p.Pipelines = append(p.Pipelines, inner, top)
	p.Top = &Call{Callee: "TOP"}
	FixUnused(p)
	return p
}

// PfDisFamily: every combination of flag source, literal / run-time flags
// and consumer with every valuation of the flags of 1-2 (thorough 3) forks.
func PfDisFamily(thorough bool) []PfDisParams {
	maxN := 2
	if thorough {
		maxN = 3
	}
	var out []PfDisParams
	for _, member := range []bool{false, true} {
		for _, dyn := range []bool{false, true} {
			for _, cons := range []string{"plain", "map", "pass"} {
				for n := 1; n <= maxN; n++ {
					for bits := 0; bits < 1<<n; bits++ {
						fl := make([]bool, n)
						for i := range fl {
							fl[i] = bits&(1<<i) != 0
						}
						out = append(out, PfDisParams{Member: member, Dyn: dyn, Cons: cons, Flags: fl})
					}
				}
			}
		}
	}
	return out
}
