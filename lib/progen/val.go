// Package progen holds the MRO program IR used by the /verif checks, a
// printer to MRO text, a fixed library of stage functions and the reference
// (denotational) interpreter that the runtime oracles compare against.  It
// imports nothing from the repository under test.
package progen

import (
	"bytes"
	"encoding/json"
	"fmt"
	"sort"
	"strconv"
	"strings"
)

type VK int

const (
	VNull   VK = iota
	VBottom    // the value of a disabled or empty-mapped call's output
	VBool
	VNum
	VStr
	VArr
	VObj
)

// Val is a JSON value with provenance: Deps is the set of stage call paths
// from which this node (its existence, shape or scalar value) was derived.
type Val struct {
	K    VK
	B    bool
	N    string // number text (exact)
	S    string
	A    []*Val
	O    map[string]*Val
	Deps map[string]bool
}

func Null() *Val         { return &Val{K: VNull} }
func Bottom() *Val       { return &Val{K: VBottom} }
func Bool(b bool) *Val   { return &Val{K: VBool, B: b} }
func Int(i int64) *Val   { return &Val{K: VNum, N: strconv.FormatInt(i, 10)} }
func Num(s string) *Val  { return &Val{K: VNum, N: s} }
func Str(s string) *Val  { return &Val{K: VStr, S: s} }
func Arr(a ...*Val) *Val { return &Val{K: VArr, A: a} }
func Obj(m map[string]*Val) *Val {
	if m == nil {
		m = map[string]*Val{}
	}
	return &Val{K: VObj, O: m}
}

func (v *Val) IsNullish() bool { return v == nil || v.K == VNull || v.K == VBottom }

// AllBottom: bottom, or a non-empty collection all of whose elements are.
// "A disabled or empty mapped call may appear as null, an empty collection
// or a collection of nulls": such a collection carries no information.
func (v *Val) AllBottom() bool {
	if v == nil {
		return false
	}
	switch v.K {
	case VBottom:
		return true
	case VArr:
		if len(v.A) == 0 {
			return false
		}
		for _, e := range v.A {
			if !e.AllBottom() {
				return false
			}
		}
		return true
	case VObj:
		if len(v.O) == 0 {
			return false
		}
		for _, e := range v.O {
			if !e.AllBottom() {
				return false
			}
		}
		return true
	}
	return false
}

// NullLike: null, bottom, or a collection all of whose elements are.
func (v *Val) NullLike() bool {
	if v == nil {
		return true
	}
	switch v.K {
	case VNull, VBottom:
		return true
	case VArr:
		for _, e := range v.A {
			if !e.NullLike() {
				return false
			}
		}
		return true
	case VObj:
		for _, e := range v.O {
			if !e.NullLike() {
				return false
			}
		}
		return true
	}
	return false
}

func (v *Val) Int() int64 {
	if v == nil || v.K != VNum {
		return 0
	}
	if i, err := strconv.ParseInt(v.N, 10, 64); err == nil {
		return i
	}
	f, _ := strconv.ParseFloat(v.N, 64)
	return int64(f)
}

func (v *Val) Keys() []string {
	keys := make([]string, 0, len(v.O))
	for k := range v.O {
		keys = append(keys, k)
	}
	sort.Strings(keys)
	return keys
}

// Clone copies the tree (sharing nothing).
func (v *Val) Clone() *Val {
	if v == nil {
		return nil
	}
	c := &Val{K: v.K, B: v.B, N: v.N, S: v.S}
	if v.Deps != nil {
		c.Deps = make(map[string]bool, len(v.Deps))
		for k := range v.Deps {
			c.Deps[k] = true
		}
	}
	if v.A != nil {
		c.A = make([]*Val, len(v.A))
		for i, e := range v.A {
			c.A[i] = e.Clone()
		}
	}
	if v.O != nil {
		c.O = make(map[string]*Val, len(v.O))
		for k, e := range v.O {
			c.O[k] = e.Clone()
		}
	}
	return c
}

// Taint adds deps to every node of the tree (in place) and returns v.
func (v *Val) Taint(deps map[string]bool) *Val {
	if v == nil || len(deps) == 0 {
		return v
	}
	if v.Deps == nil {
		v.Deps = map[string]bool{}
	}
	for d := range deps {
		v.Deps[d] = true
	}
	for _, e := range v.A {
		e.Taint(deps)
	}
	for _, e := range v.O {
		e.Taint(deps)
	}
	return v
}

// AllDeps collects the provenance of the whole tree into out.
func (v *Val) AllDeps(out map[string]bool) {
	if v == nil {
		return
	}
	if v.AllBottom() {
		// (A non-empty collection whose every leaf is bottom is one of the
		// renderings of bottom: its shape is not observable.)
		// The value of a disabled producer is null whatever the calls it
		// would have been derived from do, when the disabling is decided
		// statically; whether it was decided statically is not visible here,
		// so a bottom never obliges its consumer to wait (the valuations in
		// which the producer is enabled carry the obligation).
		return
	}
	for d := range v.Deps {
		out[d] = true
	}
	for _, e := range v.A {
		e.AllDeps(out)
	}
	for _, e := range v.O {
		e.AllDeps(out)
	}
}

// JSON renders the value; bottom renders as null.
func (v *Val) JSON() string {
	var b bytes.Buffer
	v.write(&b)
	return b.String()
}

func (v *Val) write(b *bytes.Buffer) {
	if v == nil {
		b.WriteString("null")
		return
	}
	switch v.K {
	case VNull, VBottom:
		b.WriteString("null")
	case VBool:
		if v.B {
			b.WriteString("true")
		} else {
			b.WriteString("false")
		}
	case VNum:
		b.WriteString(v.N)
	case VStr:
		s, _ := json.Marshal(v.S)
		b.Write(s)
	case VArr:
		b.WriteByte('[')
		for i, e := range v.A {
			if i > 0 {
				b.WriteByte(',')
			}
			e.write(b)
		}
		b.WriteByte(']')
	case VObj:
		b.WriteByte('{')
		for i, k := range v.Keys() {
			if i > 0 {
				b.WriteByte(',')
			}
			s, _ := json.Marshal(k)
			b.Write(s)
			b.WriteByte(':')
			v.O[k].write(b)
		}
		b.WriteByte('}')
	}
}

// Show renders the value with bottom written as "⊥" (for messages).
func (v *Val) Show() string {
	if v == nil {
		return "null"
	}
	switch v.K {
	case VBottom:
		return "⊥"
	case VArr:
		parts := make([]string, len(v.A))
		for i, e := range v.A {
			parts[i] = e.Show()
		}
		return "[" + strings.Join(parts, ",") + "]"
	case VObj:
		var parts []string
		for _, k := range v.Keys() {
			parts = append(parts, strconv.Quote(k)+":"+v.O[k].Show())
		}
		return "{" + strings.Join(parts, ",") + "}"
	}
	return v.JSON()
}

// ParseJSON decodes JSON text into a Val (numbers kept as text).
func ParseJSON(data []byte) (*Val, error) {
	dec := json.NewDecoder(bytes.NewReader(data))
	dec.UseNumber()
	var x interface{}
	if err := dec.Decode(&x); err != nil {
		return nil, err
	}
	if dec.More() {
		return nil, fmt.Errorf("trailing data after JSON value")
	}
	return FromGo(x), nil
}

func FromGo(x interface{}) *Val {
	switch x := x.(type) {
	case nil:
		return Null()
	case bool:
		return Bool(x)
	case json.Number:
		return Num(string(x))
	case float64:
		return Num(strconv.FormatFloat(x, 'g', -1, 64))
	case int:
		return Int(int64(x))
	case int64:
		return Int(x)
	case string:
		return Str(x)
	case []interface{}:
		a := make([]*Val, len(x))
		for i, e := range x {
			a[i] = FromGo(e)
		}
		return &Val{K: VArr, A: a}
	case map[string]interface{}:
		o := make(map[string]*Val, len(x))
		for k, e := range x {
			o[k] = FromGo(e)
		}
		return &Val{K: VObj, O: o}
	}
	panic(fmt.Sprintf("FromGo: %T", x))
}

func numEq(a, b string) bool {
	if a == b {
		return true
	}
	fa, ea := strconv.ParseFloat(a, 64)
	fb, eb := strconv.ParseFloat(b, 64)
	return ea == nil && eb == nil && fa == fb
}

// allNullLeaves: obs is null, or a collection all of whose leaves are null.
func allNullLeaves(obs *Val) bool {
	if obs == nil {
		return true
	}
	switch obs.K {
	case VNull, VBottom:
		return true
	case VArr:
		for _, e := range obs.A {
			if !allNullLeaves(e) {
				return false
			}
		}
		return true
	case VObj:
		for _, e := range obs.O {
			if !allNullLeaves(e) {
				return false
			}
		}
		return true
	}
	return false
}

// EqSlack compares a reference value with an observed one.  A reference
// bottom matches null, an empty collection or a collection of nulls (the
// slack the statement of C01 grants); everything else must match exactly as
// JSON values (numbers numerically, object keys as sets).  It returns a
// description of the first difference, or "".
func EqSlack(ref, obs *Val, where string) string {
	if ref == nil {
		ref = Null()
	}
	if obs == nil {
		obs = Null()
	}
	switch ref.K {
	case VBottom:
		if allNullLeaves(obs) {
			return ""
		}
		return fmt.Sprintf("%s: expected the value of a disabled/empty call (null, empty or all-null collection), got %s", where, obs.JSON())
	case VNull:
		if obs.K == VNull || obs.K == VBottom {
			return ""
		}
	case VBool:
		if obs.K == VBool && obs.B == ref.B {
			return ""
		}
	case VNum:
		if obs.K == VNum && numEq(ref.N, obs.N) {
			return ""
		}
	case VStr:
		if obs.K == VStr && obs.S == ref.S {
			return ""
		}
	case VArr:
		if obs.K == VArr {
			if len(obs.A) != len(ref.A) {
				return fmt.Sprintf("%s: array length %d, expected %d (got %s, expected %s)", where, len(obs.A), len(ref.A), obs.JSON(), ref.Show())
			}
			for i := range ref.A {
				if d := EqSlack(ref.A[i], obs.A[i], fmt.Sprintf("%s[%d]", where, i)); d != "" {
					return d
				}
			}
			return ""
		}
		// a collection consisting only of bottoms may be rendered as null
		if allBottom(ref) && allNullLeaves(obs) {
			return ""
		}
	case VObj:
		if obs.K == VObj {
			for _, k := range ref.Keys() {
				o, ok := obs.O[k]
				if !ok {
					return fmt.Sprintf("%s: missing key %q (got %s, expected %s)", where, k, obs.JSON(), ref.Show())
				}
				if d := EqSlack(ref.O[k], o, where+"."+k); d != "" {
					return d
				}
			}
			for _, k := range obs.Keys() {
				if _, ok := ref.O[k]; !ok {
					return fmt.Sprintf("%s: unexpected key %q (got %s, expected %s)", where, k, obs.JSON(), ref.Show())
				}
			}
			return ""
		}
		if allBottom(ref) && allNullLeaves(obs) {
			return ""
		}
	}
	return fmt.Sprintf("%s: got %s, expected %s", where, obs.JSON(), ref.Show())
}

func allBottom(v *Val) bool {
	switch v.K {
	case VBottom:
		return true
	case VArr:
		for _, e := range v.A {
			if !allBottom(e) {
				return false
			}
		}
		return len(v.A) > 0
	case VObj:
		for _, e := range v.O {
			if !allBottom(e) {
				return false
			}
		}
		return len(v.O) > 0
	}
	return false
}
