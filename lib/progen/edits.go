package progen

import (
	"fmt"
	"strings"
)

// Edits on the IR used by the equivalence (C15) check.  Each edit kind is
// applied at its site-th applicable site; ApplyEdit returns false when there
// is no such site (the enumeration of sites is then complete).

var SemanticEdits = []string{"rename-call", "change-literal", "add-stage-in", "add-stage-out", "retype-param",
	"toggle-split", "retarget-return", "change-disabled", "remove-disabled", "add-disabled", "change-top-arg",
	// declared type of an output nothing refers to (the program keeps compiling)
	"retype-out-array", "retype-out-map", "retype-out-base", "retype-out-mapelem-array", "retype-out-dim2",
	// declared type of a pipeline input whose every use is a pass-through to a same-typed retyped chain is not attempted
	"rename-param-out",
	// shape of a collection literal (at any depth of a literal binding)
	"literal-array-drop-last", "literal-array-append", "literal-map-drop-key", "literal-map-add-key",
	// same call name, another callee with a different signature, both stages declared on both sides
	"switch-callee-extra-out", "switch-callee-toggle-split",
	// definition of a struct type that parameters of called stages have
	"struct-add-member", "struct-retype-member", "struct-drop-member", "struct-member-array",
	// what a wildcard binding (* = CALL) takes its values from
	"retarget-wildcard"}

// PreEdit names the edit that is applied to BOTH sides before kind is applied
// to the edited side ("" for none).
func PreEdit(kind string) string {
	if strings.HasPrefix(kind, "switch-callee-") {
		return "declare-alt-" + strings.TrimPrefix(kind, "switch-callee-")
	}
	return ""
}

// UnspecifiedEdits: whether they change the meaning is not decided by the
// statement of C15 (calling a different stage with an identical signature
// under the same call name).
var UnspecifiedEdits = []string{"switch-callee"}

var CosmeticEdits = []string{"reorder-decls", "rename-filetype", "add-unused-decl"}

func walkExps(e *Exp, f func(*Exp)) {
	if e == nil {
		return
	}
	f(e)
	for _, x := range e.Arr {
		walkExps(x, f)
	}
	for _, x := range e.Vals {
		walkExps(x, f)
	}
	walkExps(e.Sub, f)
}

// mutateCollection changes the shape of the hit-th applicable collection node
// inside v (pre-order): drop / duplicate the last array element, drop the
// last key / add a key (copy of the last value) of an object.
func mutateCollection(v *Val, kind string, hit func() bool) bool {
	if v == nil {
		return false
	}
	switch v.K {
	case VArr:
		if len(v.A) > 0 {
			switch kind {
			case "literal-array-drop-last":
				if hit() {
					v.A = v.A[:len(v.A)-1]
					return true
				}
			case "literal-array-append":
				if hit() {
					v.A = append(v.A, v.A[len(v.A)-1].Clone())
					return true
				}
			}
		}
		for _, e := range v.A {
			if mutateCollection(e, kind, hit) {
				return true
			}
		}
	case VObj:
		keys := v.Keys()
		if len(keys) > 0 {
			switch kind {
			case "literal-map-drop-key":
				// only for typed maps: a struct literal must keep its fields;
				// the caller cannot tell, so compile failures of the edited
				// program are skipped by the check
				if hit() {
					delete(v.O, keys[len(keys)-1])
					return true
				}
			case "literal-map-add-key":
				if hit() {
					v.O["verif_added_key"] = v.O[keys[len(keys)-1]].Clone()
					return true
				}
			}
		}
		for _, k := range keys {
			if mutateCollection(v.O[k], kind, hit) {
				return true
			}
		}
	}
	return false
}

func bumpLiteral(v *Val) bool {
	switch v.K {
	case VNum:
		v.N = fmt.Sprint(v.Int() + 1)
		return true
	case VBool:
		v.B = !v.B
		return true
	case VStr:
		v.S += "x"
		return true
	case VArr:
		if len(v.A) > 0 {
			return bumpLiteral(v.A[0])
		}
		v.A = append(v.A, Null())
		return true
	case VObj:
		for _, k := range v.Keys() {
			if bumpLiteral(v.O[k]) {
				return true
			}
		}
	}
	return false
}

func typeMentions(t *T, name string) bool {
	for x := t; x != nil; x = x.Elem {
		if x.K == TStruct && x.Name == name {
			return true
		}
	}
	return false
}

// structUsed: some parameter of a called stage, or of a pipeline, has the
// struct type (directly, in a collection, or through another used struct).
func structUsed(p *Program, name string) bool {
	for _, s := range p.Stages {
		if !stageCalled(p, s.Name) {
			continue
		}
		for _, ps := range [][]Param{s.Ins, s.Outs, s.ChunkIns, s.ChunkOuts} {
			for _, q := range ps {
				if typeMentions(q.T, name) {
					return true
				}
			}
		}
	}
	for _, pl := range p.Pipelines {
		for _, ps := range [][]Param{pl.Ins, pl.Outs} {
			for _, q := range ps {
				if typeMentions(q.T, name) {
					return true
				}
			}
		}
	}
	for _, sd := range p.Structs {
		if sd.Name == name {
			continue
		}
		for _, f := range sd.Fields {
			if typeMentions(f.T, name) && structUsed(p, sd.Name) {
				return true
			}
		}
	}
	return false
}

// ApplyEdit mutates p.
func ApplyEdit(p *Program, kind string, site int) bool {
	n := -1
	hit := func() bool { n++; return n == site }
	switch kind {
	case "rename-call":
		for _, pl := range p.Pipelines {
			for _, c := range pl.Calls {
				if hit() {
					old := c.Id()
					c.Alias = old + "_RENAMED"
					for _, c2 := range pl.Calls {
						for _, b := range c2.Binds {
							walkExps(b.E, func(e *Exp) {
								if e.K == ERefCall && e.Id == old {
									e.Id = c.Alias
								}
							})
						}
						walkExps(c2.Disabled, func(e *Exp) {
							if e.K == ERefCall && e.Id == old {
								e.Id = c.Alias
							}
						})
					}
					for _, r := range pl.Ret {
						walkExps(r.E, func(e *Exp) {
							if e.K == ERefCall && e.Id == old {
								e.Id = c.Alias
							}
						})
					}
					for _, r := range pl.Retain {
						if r.Id == old {
							r.Id = c.Alias
						}
					}
					return true
				}
			}
		}
	case "change-literal":
		for _, pl := range p.Pipelines {
			for _, c := range pl.Calls {
				for _, b := range c.Binds {
					done := false
					walkExps(b.E, func(e *Exp) {
						if !done && e.K == ELit && e.Lit != nil && e.Lit.K != VNull && hit() {
							done = bumpLiteral(e.Lit)
						}
					})
					if done {
						return true
					}
				}
			}
			for _, r := range pl.Ret {
				done := false
				walkExps(r.E, func(e *Exp) {
					if !done && e.K == ELit && e.Lit != nil && e.Lit.K != VNull && hit() {
						done = bumpLiteral(e.Lit)
					}
				})
				if done {
					return true
				}
			}
		}
	case "literal-array-drop-last", "literal-array-append", "literal-map-drop-key", "literal-map-add-key":
		apply := func(e *Exp) bool {
			done := false
			walkExps(e, func(x *Exp) {
				if !done && x.K == ELit && x.Lit != nil {
					done = mutateCollection(x.Lit, kind, hit)
				}
			})
			return done
		}
		for _, pl := range p.Pipelines {
			for _, c := range pl.Calls {
				for _, b := range c.Binds {
					if apply(b.E) {
						return true
					}
				}
			}
			for _, r := range pl.Ret {
				if apply(r.E) {
					return true
				}
			}
		}
		for _, b := range p.Top.Binds {
			if apply(b.E) {
				return true
			}
		}
	case "change-top-arg":
		for _, b := range p.Top.Binds {
			done := false
			walkExps(b.E, func(e *Exp) {
				if !done && e.K == ELit && e.Lit != nil && e.Lit.K != VNull && hit() {
					done = bumpLiteral(e.Lit)
				}
			})
			if done {
				return true
			}
		}
	case "add-stage-in":
		for _, s := range p.Stages {
			if !stageCalled(p, s.Name) {
				continue
			}
			if hit() {
				s.Ins = append(s.Ins, Param{T: IntT, Name: "verif_extra_in"})
				for _, pl := range p.Pipelines {
					for _, c := range pl.Calls {
						if c.Callee == s.Name {
							c.Binds = append(c.Binds, Bind{"verif_extra_in", Lit(Int(1))})
						}
					}
				}
				return true
			}
		}
	case "add-stage-out":
		for _, s := range p.Stages {
			if !stageCalled(p, s.Name) {
				continue
			}
			if hit() {
				s.Outs = append(s.Outs, Param{T: IntT, Name: "verif_extra_out"})
				return true
			}
		}
	case "struct-add-member", "struct-retype-member", "struct-drop-member", "struct-member-array":
		for _, sd := range p.Structs {
			if !structUsed(p, sd.Name) {
				continue
			}
			switch kind {
			case "struct-add-member":
				if hit() {
					sd.Fields = append(sd.Fields, Param{T: IntT, Name: "verif_extra_member"})
					return true
				}
			case "struct-drop-member":
				if len(sd.Fields) > 1 && hit() {
					sd.Fields = sd.Fields[:len(sd.Fields)-1]
					return true
				}
			case "struct-retype-member":
				for i := range sd.Fields {
					if sd.Fields[i].T.K == TInt && hit() {
						sd.Fields[i].T = FloatT
						return true
					}
				}
			case "struct-member-array":
				for i := range sd.Fields {
					if sd.Fields[i].T.K == TInt && hit() {
						sd.Fields[i].T = ArrayOf(IntT)
						return true
					}
				}
			}
		}
	case "retype-param":
		for _, s := range p.Stages {
			if !stageCalled(p, s.Name) {
				continue
			}
			for i := range s.Outs {
				if s.Outs[i].T.K == TBool && hit() {
					// bool -> int output is never assignable to what consumed it
					// unless unused; use an always-compiling retype instead:
					return false
				}
			}
			for i := range s.Ins {
				if s.Ins[i].T.K == TInt && hit() {
					s.Ins[i].T = FloatT
					return true
				}
			}
		}
	case "retype-out-array", "retype-out-map", "retype-out-base", "retype-out-mapelem-array", "retype-out-dim2", "rename-param-out":
		for _, s := range p.Stages {
			if !stageCalled(p, s.Name) {
				continue
			}
			for i := range s.Outs {
				if outReferenced(p, s.Name, s.Outs[i].Name) {
					continue
				}
				t := s.Outs[i].T
				var nt *T
				switch kind {
				case "retype-out-array":
					nt = ArrayOf(t)
				case "retype-out-map":
					if t.K != TTMap && t.K != TMap && !(t.K == TArray && elemBase(t).K == TTMap) {
						nt = TMapOf(t)
					}
				case "retype-out-base":
					switch t.K {
					case TInt:
						nt = StringT
					case TString, TBool, TFloat:
						nt = IntT
					}
				case "retype-out-mapelem-array":
					if t.K == TTMap && t.Elem.K != TTMap {
						nt = TMapOf(ArrayOf(t.Elem))
					}
				case "retype-out-dim2":
					if t.K == TArray {
						nt = ArrayOf(t)
					}
				case "rename-param-out":
					if hit() {
						s.Outs[i].Name += "_renamed"
						return true
					}
					continue
				}
				if nt == nil || !nt.Valid() {
					continue
				}
				if hit() {
					s.Outs[i].T = nt
					return true
				}
			}
		}
	case "toggle-split":
		for _, s := range p.Stages {
			if !stageCalled(p, s.Name) {
				continue
			}
			if hit() {
				if s.Split {
					s.Split = false
					s.ChunkIns, s.ChunkOuts = nil, nil
				} else {
					s.Split = true
					s.ChunkIns = []Param{{T: IntT, Name: "verif_chunk_in"}}
					s.ChunkOuts = []Param{{T: IntT, Name: "verif_chunk_out"}}
				}
				return true
			}
		}
	case "retarget-wildcard":
		// * = X becomes * = Y, Y another call of the same callee in the
		// same pipeline (same outputs, different values)
		for _, pl := range p.Pipelines {
			other := func(id string) string {
				var callee string
				for _, c := range pl.Calls {
					if c.Id() == id {
						callee = c.Callee
					}
				}
				for _, c := range pl.Calls {
					if c.Callee == callee && c.Id() != id {
						return c.Id()
					}
				}
				return ""
			}
			try := func(b *Bind) bool {
				if b.Name != "*" || b.E == nil || b.E.K != ERefCall || b.E.Path != "" {
					return false
				}
				o := other(b.E.Id)
				if o == "" || !hit() {
					return false
				}
				b.E = Ref(o)
				return true
			}
			for _, c := range pl.Calls {
				for i := range c.Binds {
					if try(&c.Binds[i]) {
						return true
					}
				}
			}
			for i := range pl.Ret {
				if try(&pl.Ret[i]) {
					return true
				}
			}
		}
	case "retarget-return":
		for _, pl := range p.Pipelines {
			for i := range pl.Ret {
				if hit() {
					// bind the output to null instead (type-correct for any type)
					if pl.Ret[i].E.K == ELit && pl.Ret[i].E.Lit.K == VNull {
						return false
					}
					// keep inputs used: only retarget call references
					if pl.Ret[i].E.K != ERefCall {
						return ApplyEdit(p, kind, site+1000) // skip: falls out of range
					}
					pl.Ret[i].E = Lit(Null())
					FixUnused(p)
					return true
				}
			}
		}
	case "change-disabled":
		for _, pl := range p.Pipelines {
			// another bool source in scope: a bool-typed input or COND.b / CTRL.q
			for _, c := range pl.Calls {
				if c.Disabled != nil && hit() {
					alt := altBool(p, pl, c)
					if alt == nil {
						return ApplyEdit(p, kind, site+1000)
					}
					c.Disabled = alt
					FixUnused(p)
					return true
				}
			}
		}
	case "remove-disabled":
		for _, pl := range p.Pipelines {
			for _, c := range pl.Calls {
				if c.Disabled != nil && hit() {
					c.Disabled = nil
					FixUnused(p)
					return true
				}
			}
		}
	case "add-disabled":
		for _, pl := range p.Pipelines {
			for _, c := range pl.Calls {
				if c.Disabled == nil && !c.Preflight && hit() {
					alt := altBool(p, pl, c)
					if alt == nil {
						return ApplyEdit(p, kind, site+1000)
					}
					c.Disabled = alt
					return true
				}
			}
		}
	case "switch-callee-extra-out", "switch-callee-toggle-split", "declare-alt-extra-out", "declare-alt-toggle-split":
		// The call keeps its name (alias) but calls another stage whose
		// signature differs (an extra output / split behaviour).  The
		// "declare-alt-*" forms only add the declaration of that other stage
		// (unused), so that both sides of a comparison declare both stages.
		variant := kind[strings.Index(kind, "-alt-")+5:]
		declareOnly := strings.HasPrefix(kind, "declare-alt-")
		if !declareOnly {
			variant = strings.TrimPrefix(kind, "switch-callee-")
		}
		for _, pl := range p.Pipelines {
			for _, c := range pl.Calls {
				if st := p.Stage(c.Callee); st != nil && hit() {
					clone := *st
					clone.Name = st.Name + "_ALT2"
					if clone.Fn == "" {
						clone.Fn = st.Name
					}
					clone.Outs = append([]Param{}, st.Outs...)
					if variant == "extra-out" {
						clone.Outs = append(clone.Outs, Param{T: IntT, Name: "verif_extra_out"})
					} else if clone.Split {
						clone.Split = false
						clone.ChunkIns, clone.ChunkOuts = nil, nil
					} else {
						clone.Split = true
						clone.ChunkIns = []Param{{T: IntT, Name: "verif_chunk_in"}}
						clone.ChunkOuts = []Param{{T: IntT, Name: "verif_chunk_out"}}
					}
					if p.Stage(clone.Name) == nil {
						p.Stages = append(p.Stages, &clone)
					}
					if !declareOnly {
						if c.Alias == "" {
							c.Alias = c.Callee
						}
						c.Callee = clone.Name
					}
					return true
				}
			}
		}
	case "switch-callee":
		for _, pl := range p.Pipelines {
			for _, c := range pl.Calls {
				if st := p.Stage(c.Callee); st != nil && hit() {
					clone := *st
					clone.Name = st.Name + "_ALT"
					if clone.Fn == "" {
						clone.Fn = st.Name
					}
					if p.Stage(clone.Name) == nil {
						p.Stages = append(p.Stages, &clone)
					}
					if c.Alias == "" {
						c.Alias = c.Callee
					}
					c.Callee = clone.Name
					return true
				}
			}
		}
	case "reorder-decls":
		if site > 0 || len(p.Stages) < 2 {
			return false
		}
		for i, j := 0, len(p.Stages)-1; i < j; i, j = i+1, j-1 {
			p.Stages[i], p.Stages[j] = p.Stages[j], p.Stages[i]
		}
		for i, j := 0, len(p.Structs)-1; i < j; i, j = i+1, j-1 {
			// keep dependency order valid: structs referencing others later is fine in MRO
			p.Structs[i], p.Structs[j] = p.Structs[j], p.Structs[i]
		}
		return true
	case "rename-filetype":
		if site > 0 || len(p.Filetypes) == 0 {
			return false
		}
		old := p.Filetypes[0]
		nw := old + "renamed"
		p.Filetypes[0] = nw
		ren := func(ps []Param) {
			for i := range ps {
				ps[i].T = renameFt(ps[i].T, old, nw)
			}
		}
		for _, s := range p.Structs {
			ren(s.Fields)
		}
		for _, s := range p.Stages {
			ren(s.Ins)
			ren(s.Outs)
			ren(s.ChunkIns)
			ren(s.ChunkOuts)
		}
		for _, pl := range p.Pipelines {
			ren(pl.Ins)
			ren(pl.Outs)
		}
		return true
	case "add-unused-decl":
		if site > 0 {
			return false
		}
		p.Stages = append(p.Stages, &Stage{Name: "VERIF_UNUSED", Fn: "ID", Ins: []Param{{T: IntT, Name: "x"}}, Outs: []Param{{T: IntT, Name: "y"}}})
		p.Filetypes = append(p.Filetypes, "verifunused")
		return true
	}
	return false
}

func renameFt(t *T, old, nw string) *T {
	if t == nil {
		return t
	}
	switch t.K {
	case TFiletype:
		if t.Name == old {
			return FiletypeT(nw)
		}
	case TArray:
		return ArrayOf(renameFt(t.Elem, old, nw))
	case TTMap:
		return TMapOf(renameFt(t.Elem, old, nw))
	}
	return t
}

func elemBase(t *T) *T {
	for t.K == TArray {
		t = t.Elem
	}
	return t
}

// outReferenced: does any expression of the program refer to output out of a
// call of stage name (or to the call as a whole)?
func outReferenced(p *Program, name, out string) bool {
	found := false
	for _, pl := range p.Pipelines {
		ids := map[string]bool{}
		for _, c := range pl.Calls {
			if c.Callee == name {
				ids[c.Id()] = true
			}
		}
		if len(ids) == 0 {
			continue
		}
		check := func(e *Exp) {
			walkExps(e, func(x *Exp) {
				if x.K == ERefCall && ids[x.Id] {
					first := x.Path
					if i := strings.Index(first, "."); i >= 0 {
						first = first[:i]
					}
					if first == "" || first == out {
						found = true
					}
				}
			})
		}
		for _, c := range pl.Calls {
			for _, b := range c.Binds {
				if b.Name == "*" {
					found = true
				}
				check(b.E)
			}
			check(c.Disabled)
		}
		for _, b := range pl.Ret {
			if b.Name == "*" {
				found = true
			}
			check(b.E)
		}
		for _, r := range pl.Retain {
			check(r)
		}
	}
	// stage-level retain of the output
	if st := p.Stage(name); st != nil {
		for _, r := range st.Retain {
			if r == out {
				found = true
			}
		}
	}
	return found
}

func stageCalled(p *Program, name string) bool {
	for _, pl := range p.Pipelines {
		for _, c := range pl.Calls {
			if c.Callee == name {
				return true
			}
		}
	}
	return false
}

// altBool finds a boolean expression in scope of pl different from the
// call's current disabled binding.
func altBool(p *Program, pl *Pipeline, c *Call) *Exp {
	cur := ""
	if c.Disabled != nil {
		cur = c.Disabled.String()
	}
	for _, in := range pl.Ins {
		if in.T.K == TBool {
			if e := Self(in.Name); e.String() != cur {
				return e
			}
		}
	}
	for _, c2 := range pl.Calls {
		if c2 == c {
			break // only earlier calls
		}
		if c2.Map {
			continue
		}
		st := p.Stage(c2.Callee)
		if st == nil {
			continue
		}
		for _, o := range st.Outs {
			if o.T.K == TBool {
				if e := Ref(c2.Id(), o.Name); e.String() != cur {
					return e
				}
			}
		}
	}
	return nil
}

// CloneViaDesc is implemented by the families: programs are rebuilt from
// their parameters rather than deep-copied.
func init() { _ = strings.TrimSpace }
