//go:build verif

package psx

import (
	"fmt"
	"os"
	"path/filepath"
	"regexp"
	"sort"
	"strings"
	"sync"
	"time"

	"github.com/martian-lang/martian/martian/core"

	"verif/lib/ev"
	"verif/lib/progen"
)

// Shapes used by the crash (C05) and fault (C06) enumerations.
func Shapes(thorough bool) []DfCase {
	df := func(d progen.DataflowParams) DfCase {
		if d.Cons == "" {
			d.Cons = "id"
		}
		if d.Kind == "" {
			d.Kind = "arr"
		}
		if d.Src == "" {
			d.Src = "gen"
		}
		if d.Size == 0 {
			d.Size = 2
		}
		return DfCase{Family: "dataflow", Params: d}
	}
	out := []DfCase{
		df(progen.DataflowParams{Extra: "chain"}),                                 // GEN -> ID -> LEN
		df(progen.DataflowParams{Kind: "int", Cons: "add"}),                       // consumer sorts before producer
		df(progen.DataflowParams{Cons: "sums"}),                                   // split stage, 2 chunks
		df(progen.DataflowParams{Cons: "sums", Size: 10}),                         // split stage, 10 chunks (the directory names get a second digit at exactly 10)
		df(progen.DataflowParams{Map: "top", Extra: "chain"}),                     // run-time forks
		df(progen.DataflowParams{Dis: "gen-true", DisAt: "cons", Extra: "chain"}), // run-time disabled branch
		df(progen.DataflowParams{Wrap: 1, Map: "inner"}),                          // mapped call in a sub-pipeline
		df(progen.DataflowParams{Pre: true, Wrap: 1, Src: "lit"}),                 // two preflight checks; the nested stage has no other prerequisite
	}
	if thorough {
		// a nest: outer call mapped over a run-time array, inner split stage
		// mapped over a literal one (forks are stored in an order that differs
		// from their ids)
		nest := progen.KeyParams{Outer: "arr", OuterDyn: true, OuterSel: 2, Inner: "arr", InnerSel: 3, Chunks: 2}
		out = append(out, DfCase{Family: "nest", Kp: &nest})
		out = append(out,
			df(progen.DataflowParams{Kind: "smap", Map: "top", Proj: "x"}),
			df(progen.DataflowParams{Wrap: 2, Map: "top", Cons: "sums"}),
			df(progen.DataflowParams{Dis: "gen-false", DisAt: "wrap", Wrap: 1}),
			df(progen.DataflowParams{Pre: true}),
			df(progen.DataflowParams{Kind: "sarr", Narrow: true, Map: "top"}),
		)
		dn := progen.DisNestParams{Levels: []string{"p", "c"}, Sib: [2]string{"r", "s"}, Vals: 0b010000}
		out = append(out, DfCase{Family: "disnest", Dn: &dn})
	}
	return out
}

// CrashFileShapes: pipelines whose top-level outputs are files:
// post-processing moves them to outs/ and rewrites the top-level _outs (C05).
func CrashFileShapes(thorough bool) []DfCase {
	var out []DfCase
	ff := func(d progen.FileParams) DfCase {
		d.Vol, d.TopOut, d.Size = "call", true, 2
		if d.Mode == "" {
			d.Mode = "rolling"
		}
		return DfCase{Family: "fileflow", Ff: &d}
	}
	out = append(out, ff(progen.FileParams{Out: "f", Prod: "filew"}), ff(progen.FileParams{Out: "fs", Prod: "splitw"}))
	if thorough {
		out = append(out, ff(progen.FileParams{Out: "s", Prod: "filew"}), ff(progen.FileParams{Out: "fm", Prod: "filew", Mode: "strict"}),
			ff(progen.FileParams{Out: "d", Prod: "filew"}), ff(progen.FileParams{Out: "ss", Prod: "splitw", Late: true}))
	}
	return out
}

// CrashCase is the replayable unit of C05.
type CrashCase struct {
	Shape    DfCase `json:"shape"`
	CrashAt  int    `json:"crash_at"`
	Torn     int    `json:"torn"`
	Crash2At int    `json:"crash2_at,omitempty"` // second crash during the restart
	// Handled: the interruption is a handled termination signal arriving
	// before effect CrashAt instead of a kill at it.
	Handled bool `json:"handled,omitempty"`
	// JobsCatch: the monitors of the running jobs record the signal
	// ("_errors: Caught signal terminated") instead of vanishing.
	JobsCatch bool `json:"jobs_catch,omitempty"`
	// Straggle: the monitors of the jobs running at the interruption stay
	// alive and record the signal only after the restarted mrp has started
	// the next attempt of their job.
	Straggle bool   `json:"straggle,omitempty"`
	Effect   string `json:"effect,omitempty"`
}

// jobIdent identifies a job by call path, fork, phase and chunk NUMBER: the
// spelling of a chunk's directory (chnk7 / chnk07) is not part of its identity.
func jobIdent(j *ObsJob) string {
	return fmt.Sprintf("%s|%s|%s|%d", j.Path, j.Fork, j.Phase, j.Chunk)
}

var chunkSpellRe = regexp.MustCompile(`\.chnk0*([0-9])`)

// keyIdent does the same for a job key (ID.ps.CALL.forkN.chnkNN.phase).
func keyIdent(key string) string { return chunkSpellRe.ReplaceAllString(key, ".chnk$1") }

type crashOutcome struct {
	viol   []string
	effect string
	inc1   *Result
	inc2   *Result
	note   string
}

func evalCrash(c CrashCase, ref *progen.RefResult, p *progen.Program) crashOutcome {
	var out crashOutcome
	dir, err := os.MkdirTemp("/dev/shm", "psxc-")
	if err != nil {
		out.note = err.Error()
		return out
	}
	defer os.RemoveAll(dir)
	vm := ""
	if c.Shape.Ff != nil {
		vm = c.Shape.Ff.Mode
	}
	o1 := Options{PsDir: dir, CrashAt: c.CrashAt, Torn: c.Torn, MrpPid: 4242, PermSite: nil, JobsCatchSignal: c.JobsCatch, VdrMode: vm}
	if c.Handled {
		o1 = Options{PsDir: dir, SignalAt: c.CrashAt, MrpPid: 4242, JobsCatchSignal: c.JobsCatch, VdrMode: vm}
	}
	inc1 := Run(p, c.Shape.Schedule, o1)
	out.inc1 = inc1
	if !inc1.Crashed {
		out.note = "no-crash" // the run has fewer effects than crash_at
		return out
	}
	if n := len(inc1.EffectLog); n > 0 {
		out.effect = inc1.EffectLog[n-1]
	}
	recorded := map[string]bool{}
	for _, j := range inc1.Jobs {
		if j.Finished && j.How == "complete" && j.Recorded {
			recorded[jobIdent(j)] = true
		}
	}
	if c.Handled {
		// a handled signal must leave the pipestance unlocked by itself
		if _, err := os.Lstat(filepath.Join(dir, "ps", "_lock")); err == nil {
			out.viol = append(out.viol, "a handled termination signal left the pipestance locked (_lock still present)")
			os.Remove(filepath.Join(dir, "ps", "_lock"))
		}
	} else {
		// the operator removes the stale lock, as documented
		os.Remove(filepath.Join(dir, "ps", "_lock"))
	}
	pid := 4343
	var midRerun []string
	var inc2 *Result
	if c.Crash2At > 0 {
		mid := Run(p, Schedule{}, Options{PsDir: dir, Resume: true, CrashAt: c.Crash2At, MrpPid: pid, VdrMode: vm})
		if mid.Crashed {
			// jobs the middle incarnation ran although the first one had
			// recorded their completion count against it
			for _, j := range mid.Jobs {
				if recorded[jobIdent(j)] {
					midRerun = append(midRerun, j.Key)
				}
			}
			for _, j := range mid.Jobs {
				if j.Finished && j.How == "complete" && j.Recorded {
					recorded[jobIdent(j)] = true
				}
			}
			os.Remove(filepath.Join(dir, "ps", "_lock"))
			pid = 4444
			inc2 = Run(p, Schedule{}, Options{PsDir: dir, Resume: true, MrpPid: pid, VdrMode: vm})
		} else {
			inc2 = mid
		}
	} else {
		var late []core.VerifStraggler
		if c.Straggle {
			late = inc1.Running
		}
		inc2 = Run(p, Schedule{}, Options{PsDir: dir, Resume: true, MrpPid: pid, VdrMode: vm, Stragglers: late})
	}
	out.inc2 = inc2
	if inc2.Err != "" {
		msg := strings.ReplaceAll(inc2.Err, dir, "<scratch>")
		// was the first incarnation still creating the pipestance
		// (InvokePipeline had not written _timestamp yet)?
		creating := true
		for _, e := range inc1.EffectLog[:max(0, len(inc1.EffectLog)-1)] {
			if strings.HasPrefix(e, "write /ps/_timestamp ") {
				creating = false
			}
		}
		if creating {
			out.viol = append(out.viol, "restart refused after a crash during pipestance creation: "+msg)
		} else {
			out.viol = append(out.viol, "restart failed: "+msg)
		}
		return out
	}
	if inc2.Stalled {
		out.viol = append(out.viol, "restarted pipestance stalled in state "+inc2.State+" (no job pending, no progress)")
		return out
	}
	if inc2.State != "complete" && inc2.State != "disabled" {
		out.viol = append(out.viol, fmt.Sprintf("restarted pipestance ended %s: %s: %s", inc2.State, inc2.FatalFq, firstLine(inc2.FatalLog)))
		return out
	}
	if c.Shape.Ff != nil {
		// file programs: the reference is the uninterrupted run itself
		base := fileBaseline(c.Shape, p)
		if base == nil {
			out.note = "no-baseline"
			return out
		}
		if got := normOuts(inc2); got != base.outs {
			out.viol = append(out.viol, "final outputs after restart differ from the uninterrupted run: "+firstDiff(base.outs, got))
		}
		if got := outsTree(inc2); got != base.tree {
			out.viol = append(out.viol, "the outs/ directory after restart differs from the uninterrupted run: "+firstDiff(base.tree, got))
		}
	} else if inc2.TopOuts == nil {
		out.viol = append(out.viol, "restarted pipestance has no readable top-level outputs: "+inc2.TopOutsText)
	} else if d := progen.EqSlack(ref.TopOuts, inc2.TopOuts, "outs"); d != "" {
		out.viol = append(out.viol, "final outputs after restart differ from the uninterrupted run: "+d)
	}
	rerun := append([]string{}, midRerun...)
	for _, j := range inc2.Jobs {
		if recorded[jobIdent(j)] {
			rerun = append(rerun, j.Key)
		}
	}
	sort.Strings(rerun)
	for _, k := range rerun {
		out.viol = append(out.viol, "job "+k+" had recorded its completion before the interruption but was executed again")
	}
	return out
}

type fileBase struct{ outs, tree string }

var (
	fileBaseMu sync.Mutex
	fileBases  = map[string]*fileBase{}
)

var uniqDirRe = regexp.MustCompile(`-u[0-9a-f]{10}`)

// normOuts: the final top-level _outs with the scratch location and the
// attempt uniquifiers (pid and time dependent) abstracted.
func normOuts(r *Result) string {
	return uniqDirRe.ReplaceAllString(strings.ReplaceAll(r.TopOutsText, r.PsPath, "<ps>"), "-u<uniq>")
}

// outsTree lists the regular files below <ps>/outs.
func outsTree(r *Result) string {
	var lines []string
	for p, n := range r.Tree {
		if rel := strings.TrimPrefix(p, r.PsPath); strings.HasPrefix(rel, "/outs/") {
			_ = n // the content names the job directory that wrote it, whose name depends on pid and time
			lines = append(lines, rel)
		}
	}
	sort.Strings(lines)
	return strings.Join(lines, "\n")
}

func firstDiff(want, got string) string {
	w, g := strings.Split(want, "\n"), strings.Split(got, "\n")
	for i := 0; i < len(w) || i < len(g); i++ {
		var a, b string
		if i < len(w) {
			a = w[i]
		}
		if i < len(g) {
			b = g[i]
		}
		if a != b {
			return fmt.Sprintf("line %d: got %q, the uninterrupted run has %q", i+1, strings.TrimSpace(b), strings.TrimSpace(a))
		}
	}
	return "(no difference)"
}

func fileBaseline(sh DfCase, p *progen.Program) *fileBase {
	fileBaseMu.Lock()
	defer fileBaseMu.Unlock()
	if b, ok := fileBases[sh.Name()]; ok {
		return b
	}
	var b *fileBase
	r := Run(p, sh.Schedule, Options{MrpPid: 4242, VdrMode: sh.Ff.Mode})
	if r.Err == "" && r.State == "complete" {
		b = &fileBase{outs: normOuts(r), tree: outsTree(r)}
	}
	fileBases[sh.Name()] = b
	return b
}

func crashSig(v string, effect string) string {
	if strings.HasPrefix(v, "restart refused after a crash during pipestance creation") {
		return "C05:restart-refused:during-creation"
	}
	words := strings.Fields(v)
	for i, w := range words {
		if strings.HasPrefix(w, "ID.") || strings.ContainsAny(w, "{[\"/") {
			words[i] = "_"
		}
	}
	if len(words) > 7 {
		words = words[:7]
	}
	site := effect
	if i := strings.LastIndex(site, "@"); i >= 0 {
		site = site[i+1:]
	}
	// drop line numbers from the site
	parts := strings.Split(site, ":")
	if len(parts) == 3 {
		site = parts[0] + ":" + parts[2]
	}
	return "C05:" + strings.Join(words, "_") + "@" + site
}

// CrashCheck is the main of C05.
func CrashCheck() {
	r := ev.New("C05", "fault_enumeration")
	r.SetBudget(200*time.Second, 25*time.Minute)
	core.VerifQuiet()
	if r.ReplayPath != "" {
		var c CrashCase
		if err := ev.LoadReplay(r.ReplayPath, &c); err != nil {
			fmt.Println("cannot load replay:", err)
			os.Exit(2)
		}
		p := c.Shape.Build()
		var ref *progen.RefResult
		if c.Shape.Ff == nil {
			ref, _ = progen.Interpret(p)
		}
		o := evalCrash(c, ref, p)
		r.Eval("replay")
		r.Sample(c)
		fmt.Println("crashed at effect:", o.effect, "note:", o.note)
		if o.inc1 != nil && os.Getenv("VERIF_DEBUG") != "" {
			for _, e := range o.inc1.EffectLog {
				fmt.Println("  ", e)
			}
		}
		for _, v := range o.viol {
			r.Report(ev.Finding{Sig: crashSig(v, o.effect), What: v, Case: c})
		}
		r.Finish()
	}
	shapes := append(Shapes(true), CrashFileShapes(r.Thorough())...)
	if !ev.IsWorker() {
		r.Rule = "for each pipeline shape (linear chain, consumer sorting before its producer, split stage, run-time forks, run-time disabled branch, mapped call in a sub-pipeline, 6 more; and pipelines whose top-level outputs are files that post-processing moves to outs/: 2, thorough 6 - for these the final _outs text and the outs/ tree are compared with the uninterrupted run's) " +
			"the uninterrupted run on the real runtime yields a numbered history of N file-system effects of mrp and of the jobs; for EVERY n in 1..N the run is repeated and the process dies at effect n " +
			"(the effect and everything after it suppressed; for plain file writes also the torn variants 'empty file' and 'first half'), the stale _lock is removed, and a new incarnation re-attaches " +
			"through ReattachToPipestance+Reset+RestartLocalJobs+LoadMetadata and runs to the end; for EVERY n also the handled-signal variant: a termination signal arrives before effect n, the process keeps running while a critical section is open (util.EnterCriticalSection), then the registered handlers run (Pipestance.HandleSignal) and the process is dead; the lock must be gone WITHOUT operator help and the restart must succeed the same way; both kinds of interruption are run twice: with the running jobs vanishing without a trace, and with their monitors recording '_errors: Caught signal terminated' as mrjob does on SIGTERM (the restart then finds failed jobs next to queued ones); thorough adds a second crash at every effect of the restart for two shapes. " +
			"distinct = distinct (shape, crash point, torn variant); non-trivial = the first incarnation actually died at that effect"
		r.Set("shapes", len(shapes))
		if os.Getenv("VERIF_NO_TIERB") == "" {
			if _, err := TierBRoot(); err != nil {
				fmt.Println(err)
				os.Exit(2)
			}
		}
		r.RunWorkers(0)
		r.Assume("crash granularity is the file-system call; no fsync/disk-block modelling; in-flight local jobs die with mrp (pdeathsig) and their recorded pid is dead")
		r.Assume("the operator removes the stale _lock after a kill, as documented (not after a handled signal)")
		r.Assume("handled signals are delivered between file-system effects; the handler goroutine of util.SetupSignalHandlers is executed synchronously by the harness (same critical-section lock, same registered handlers), os.Exit is the simulated death")
		r.Assume("jobs follow the mrjob/adapter protocol (model job)")
		r.Finish()
	}
	type item struct {
		shape int
		c     CrashCase
	}
	// enumerate work: first the effect counts (cheap, every worker does it)
	var items []item
	type shapeInfo struct {
		p   *progen.Program
		ref *progen.RefResult
		n   int
		n2  int
		log []string
	}
	infos := make([]*shapeInfo, len(shapes))
	for si, sh := range shapes {
		p := sh.Build()
		if p == nil {
			continue
		}
		var ref *progen.RefResult
		vm := ""
		if sh.Ff != nil {
			vm = sh.Ff.Mode
		} else {
			var err error
			if ref, err = progen.Interpret(p); err != nil {
				continue
			}
		}
		base := Run(p, sh.Schedule, Options{MrpPid: 4242, VdrMode: vm})
		if base.Err != "" || base.State != "complete" {
			if si%16 == 0 || true {
				if k, _, _ := ev.WorkerIndex(); k == 0 {
					r.Inconclusive(fmt.Sprintf("shape %s does not complete uninterrupted: %s %s", sh.Name(), base.State, base.Err))
				}
			}
			continue
		}
		infos[si] = &shapeInfo{p: p, ref: ref, n: base.Effects, log: base.EffectLog}
		for n := 1; n <= base.Effects; n++ {
			items = append(items, item{si, CrashCase{Shape: sh, CrashAt: n}})
			items = append(items, item{si, CrashCase{Shape: sh, CrashAt: n, Handled: true}})
			items = append(items, item{si, CrashCase{Shape: sh, CrashAt: n, JobsCatch: true}})
			items = append(items, item{si, CrashCase{Shape: sh, CrashAt: n, Handled: true, JobsCatch: true}})
			if n-1 < len(base.EffectLog) && strings.Contains(base.EffectLog[n-1], "@job:") {
				// a job is running at this instant
				items = append(items, item{si, CrashCase{Shape: sh, CrashAt: n, Straggle: true}})
			}
			if n-1 < len(base.EffectLog) && strings.HasPrefix(base.EffectLog[n-1], "write ") &&
				!strings.Contains(base.EffectLog[n-1], "journal") {
				items = append(items, item{si, CrashCase{Shape: sh, CrashAt: n, Torn: 1}})
				items = append(items, item{si, CrashCase{Shape: sh, CrashAt: n, Torn: 2}})
			}
		}
		if k, _, _ := ev.WorkerIndex(); k == 0 {
			r.Add("effects_in_histories", int64(base.Effects))
			if si < 3 {
				r.Sample(map[string]interface{}{"shape": sh.Name(), "effects": base.Effects,
					"history_excerpt": base.EffectLog[:min(len(base.EffectLog), 12)]})
			}
		}
	}
	order := r.Rotate(len(items))
	for wi, idx := range order {
		if !r.Mine(wi) {
			continue
		}
		if r.Expired("crash point enumeration") {
			break
		}
		it := items[idx]
		info := infos[it.shape]
		o := evalCrash(it.c, info.ref, info.p)
		key := fmt.Sprintf("%s|%d|%d|%v|%v|%v", it.c.Shape.Name(), it.c.CrashAt, it.c.Torn, it.c.Handled, it.c.JobsCatch, it.c.Straggle)
		if o.note == "no-crash" {
			r.Eval("")
			r.Outcome("no-crash")
			continue
		}
		r.Eval(key)
		if len(o.viol) == 0 {
			rer := 0
			if o.inc2 != nil {
				rer = len(o.inc2.Jobs)
			}
			if it.c.Handled {
				r.Outcome(fmt.Sprintf("signal-resumed-ok:delayed-by-critical-section=%v", o.inc1.SignalDelay > 0))
				r.Add("handled_signal_points", 1)
			}
			r.Outcome(fmt.Sprintf("resumed-ok:rerun-jobs=%d", rer))
			if wi%211 == 0 {
				r.Sample(map[string]interface{}{"shape": it.c.Shape.Name(), "crash_at": it.c.CrashAt, "torn": it.c.Torn,
					"died_at": o.effect, "jobs_after_restart": rer})
			}
		} else {
			// confirm by an identical second run
			o2 := evalCrash(it.c, info.ref, info.p)
			if strings.Join(o2.viol, "\n") != strings.Join(o.viol, "\n") {
				r.Inconclusive(key + ": non-reproducible: " + o.viol[0])
				continue
			}
			r.Outcome("violation")
			c := it.c
			c.Effect = o.effect
			c.Shape.Program = info.p.MRO()
			for _, v := range o.viol {
				r.Report(ev.Finding{Sig: crashSig(v, o.effect),
					What: fmt.Sprintf("%s, %s effect %d (%s, torn=%d): %s", it.c.Shape.Name(), map[bool]string{false: "died at", true: "handled signal before"}[it.c.Handled], it.c.CrashAt, o.effect, it.c.Torn, v), Case: c})
			}
		}
		// second-order crashes (thorough, first two shapes, untorn)
		if r.Thorough() && it.shape < 2 && it.c.Torn == 0 && !it.c.Handled && !it.c.JobsCatch && len(o.viol) == 0 && o.inc2 != nil {
			n2 := o.inc2.Effects
			for m := 1; m <= n2 && m <= 60; m++ {
				if r.Expired("second-order crash enumeration") {
					break
				}
				c2 := it.c
				c2.Crash2At = m
				o3 := evalCrash(c2, info.ref, info.p)
				r.Eval(fmt.Sprintf("%s|%d", key, m))
				if len(o3.viol) == 0 {
					r.Outcome("resumed-ok-2nd-order")
					continue
				}
				o4 := evalCrash(c2, info.ref, info.p)
				if strings.Join(o4.viol, "\n") != strings.Join(o3.viol, "\n") {
					r.Inconclusive(key + ": non-reproducible (2nd order): " + o3.viol[0])
					continue
				}
				r.Outcome("violation")
				c2.Shape.Program = info.p.MRO()
				for _, v := range o3.viol {
					r.Report(ev.Finding{Sig: crashSig(v, o3.effect) + ":2nd",
						What: fmt.Sprintf("%s, died at effect %d then again at restart effect %d: %s", it.c.Shape.Name(), it.c.CrashAt, m, v), Case: c2})
				}
			}
		}
	}
	TierBCrash(r)
	r.Done()
}
