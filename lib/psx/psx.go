//go:build verif

// Package psx runs a progen program on the real martian runtime through the
// in-package harness (overlay/core/psx.go) under an explorer-chosen schedule
// and collects what the jobs observed.
package psx

import (
	"encoding/json"
	"fmt"
	"os"
	"path/filepath"
	"regexp"
	"runtime/debug"
	"sort"
	"strconv"
	"strings"
	"time"

	"github.com/martian-lang/martian/martian/core"
	"github.com/martian-lang/martian/martian/syntax"
	"github.com/martian-lang/martian/martian/util"
	"github.com/martian-lang/martian/martian/vshim"

	"verif/lib/progen"
)

// Schedule is the explorer's answer to every choice point of a run.
type Schedule struct {
	// Delay lists job keys that are held (not even started) until nothing
	// else can make progress; they are released one at a time, in order.
	Delay []string `json:"delay,omitempty"`
	// Lag holds a job back for N loop iterations after its submission.
	Lag map[string]int `json:"lag,omitempty"`
	// StartOnly makes a job start (monitor up, state "running") in one
	// iteration and finish only in the next.
	StartOnly map[string]bool `json:"start_only,omitempty"`
	// Linger makes a job's process stay alive for one more loop iteration
	// after its stage code returned: everything the stage code wrote
	// (_stage_defs / _outs and their journal entries) is visible to mrp one
	// iteration before the job's completion is.
	Linger map[string]bool `json:"linger,omitempty"`
	// Perm gives, for the i-th (0-based) iteration of a map with >=2 keys at
	// a tracked site, a permutation to apply instead of the sorted order.
	Perm map[int][]int `json:"perm,omitempty"`
	// GoDefer: indices (0-based, in spawn order) of rewritten go statements
	// whose body is deferred to the end of the current loop iteration
	// instead of running inline at the spawn point.
	GoDefer map[int]int `json:"go_defer,omitempty"`
}

func (s Schedule) String() string {
	b, _ := json.Marshal(s)
	return string(b)
}

// Fault makes one job misbehave.
type Fault struct {
	Job  string `json:"job"`  // job key
	Kind string `json:"kind"` // see applyFault
	// Times the fault fires (attempts); 0 = every attempt.
	Times int `json:"times,omitempty"`
}

type Options struct {
	VdrMode string
	Enforce string
	// SiblingPaths: the declarations live below a second MROPATH entry
	// whose name extends the first one's (mro, mro_stages).
	SiblingPaths bool
	Scratch      string
	MaxIter      int
	Fault        *Fault
	KeepDir      bool
	PermSite     func(site string) bool // which map-iteration sites are choice points
	// CrashAt > 0: the process "dies" at the CrashAt-th file-system effect:
	// that effect and all later ones are suppressed and the run stops.
	CrashAt int
	// Resume: re-attach to the existing pipestance directory instead of
	// invoking a new one.
	Resume bool
	PsDir  string
	Pid    int
	// JobsCatchSignal: when mrp dies (CrashAt / SignalAt) the monitors of the
	// running jobs record "_errors: Caught signal terminated", as mrjob does
	// on SIGTERM, instead of vanishing without a trace.
	JobsCatchSignal bool
	// NoRetryWait: mrp runs with --retry-wait=0 and the wall clock (of the
	// files rewritten with "time=") stands still during the run: the
	// automatic restart happens within the second of the failure.
	NoRetryWait bool
	// Stragglers: monitors of a previous incarnation's jobs that are still
	// alive; each records "Caught signal terminated" (in ITS directory, under
	// ITS journal name) right after this incarnation has started the next
	// attempt of the same job.
	Stragglers []core.VerifStraggler
	// Retries is mrp's --autoretry: how many times a failure that
	// Pipestance.IsErrorTransient accepts is answered by a restart.
	Retries int
	// Zombie: the process of a job attempt that mrp declared dead ("vanish"
	// fault) is in fact still alive; once the next attempt of the same job
	// has started, it completes with stale outputs (the pre-populated _outs,
	// every value null) in ITS metadata directory and journals that under
	// ITS journal name.  Result.ZombieProblems reports attempts that share
	// an identity.
	Zombie bool
	// SignalAt > 0: a handled termination signal arrives just before the
	// SignalAt-th file-system effect.  As in util.SetupSignalHandlers the
	// process keeps running while a critical section is open; once none is,
	// the registered handlers run and the process is dead.
	SignalAt int
	// Torn: what the crashing write leaves behind: 0 nothing (default),
	// 1 an empty file, 2 the first half of the data.
	Torn int
	// MrpPid is what os.Getpid returns inside package core (uniquifiers).
	MrpPid int
	// SymlinkParent puts the pipestance below a symlinked directory and
	// makes FILEW report physical paths.
	SymlinkParent bool
	// Inspect runs after the run ended and before the scratch directory is
	// removed (for oracles that look at the file system).
	Inspect func(res *Result)
}

// ObsJob is what one executed job observed.
type ObsJob struct {
	Key       string        `json:"key"`
	Path      string        `json:"path"` // call path without fork
	Fork      string        `json:"fork"`
	Phase     string        `json:"phase"`
	Chunk     int           `json:"chunk"`
	Args      *progen.Val   `json:"-"`
	ChunkDefs []*progen.Val `json:"-"`
	ChunkOuts []*progen.Val `json:"-"`
	ArgsText  string        `json:"args"`
	SubmitSeq int           `json:"submit_seq"`
	Attempt   int           `json:"attempt"`
	Finished  bool          `json:"finished"`
	Recorded  bool          `json:"recorded"` // the completion marker was written in full
	How       string        `json:"how"`
	MdPath    string        `json:"-"`
}

type Result struct {
	Err         string
	State       string
	Iter        int
	Stalled     bool
	Jobs        []*ObsJob
	Events      []core.VerifEvent
	TopOuts     *progen.Val
	TopOutsText string
	MroPaths    []string
	PermPoints  []PermPoint // tracked map-iteration occurrences (n>=2)
	GoPoints    []string    // rewritten go statements executed, in order
	Effects     int
	EffectLog   []string
	Crashed     bool
	PanicStack  string
	Dir         string
	FatalFq     string
	FatalLog    string
	NodeStates  map[string]string
	Unordered   map[string]int
	H           *core.VerifHarness
	// file checks
	FileProblems   []string         // a job found a file named in its arguments missing or damaged
	Removed        []Removal        // removals performed by storage.go (VDR), measured just before
	Written        map[string]int64 // files written by stage code: path -> size
	Tree           map[string]int64 // regular files under the pipestance dir at the end: path -> size
	PsPath         string
	VdrReport      *core.VDRKillReport
	OutsideEffects []string
	DebugNotes     []string
	// TopOutsPre is the top-level _outs before post-processing.
	TopOutsPre string
	// SignalEffects are the effects of the signal handlers; SignalDelay is
	// the number of effects the process still performed inside critical
	// sections after the signal arrived.
	SignalEffects []string
	SignalDelay   int
	// CaughtSignal: jobs whose monitor recorded the signal (JobsCatchSignal).
	CaughtSignal []string
	// Running: the monitors alive when the process died (Options.Stragglers
	// of a later incarnation).
	Running []core.VerifStraggler
	// Retried counts the automatic restarts after transient failures.
	Retried int
	// Zombies counts stale attempts that completed late (Options.Zombie).
	Zombies        int
	ZombieProblems []string
	// CompiledOK: the invocation was refused although the compiler accepts
	// the program.
	CompiledOK bool
}

// Removal is one VDR deletion as measured by the harness.
type Removal struct {
	Path  string
	Site  string
	Count int   // regular files and links removed
	Size  int64 // their bytes
	Dirs  int   // directories removed (including the root)
	DirSz int64
	Iter  int
}

type PermPoint struct {
	Site string
	N    int
}

type deferredGo struct {
	fn    func()
	after int
}

// CheckFileIntact verifies a file (or directory) written by the FILEW
// library function: it must exist and still carry its self-describing
// content.  Returns "" if intact.
func CheckFileIntact(pth string) string {
	info, err := os.Stat(pth)
	if err != nil {
		return "file " + pth + " named in the arguments is missing: " + err.Error()
	}
	if info.IsDir() {
		ents, err := os.ReadDir(pth)
		if err != nil || len(ents) == 0 {
			return "directory " + pth + " named in the arguments is empty or unreadable"
		}
		return ""
	}
	b, err := os.ReadFile(pth)
	if err != nil {
		return "file " + pth + " is unreadable: " + err.Error()
	}
	if !strings.HasPrefix(string(b), "FILEW\n") {
		return "file " + pth + " does not have the content its producer wrote"
	}
	return ""
}

var forkRe = regexp.MustCompile(`^(.*)\.fork([^.]+)(?:\.chnk(\d+))?$`)

func splitFq(psid, fq string) (path, fork string, chunk int) {
	chunk = -1
	m := forkRe.FindStringSubmatch(fq)
	if m == nil {
		return fq, "", -1
	}
	path = strings.TrimPrefix(m[1], "ID."+psid+".")
	fork = m[2]
	if m[3] != "" {
		chunk, _ = strconv.Atoi(m[3])
	}
	return
}

// WriteProgram writes the MRO text and empty stage executables into dir.
func WriteProgram(p *progen.Program, dir string) (string, error) {
	return writeProgramAt(p, dir, dir, "defs.mro")
}

// WriteProgramSiblingPaths lays the program out over two MROPATH entries one
// of which is a string prefix of the other: <base>/mro holds the invocation,
// <base>/mro_stages/stages/defs.mro the declarations (included as
// "stages/defs.mro").  It returns the invocation text and the MROPATH.
func WriteProgramSiblingPaths(p *progen.Program, base string) (string, []string, error) {
	mro, stages := filepath.Join(base, "mro"), filepath.Join(base, "mro_stages")
	if err := os.MkdirAll(filepath.Join(stages, "stages"), 0o755); err != nil {
		return "", nil, err
	}
	src, err := writeProgramAt(p, mro, filepath.Join(stages, "stages"), "stages/defs.mro")
	return src, []string{mro, stages}, err
}

func writeProgramAt(p *progen.Program, dir, defsDir, include string) (string, error) {
	if err := os.MkdirAll(dir, 0o755); err != nil {
		return "", err
	}
	for _, s := range p.Stages {
		if err := os.WriteFile(filepath.Join(dir, s.Name), []byte("#!/bin/sh\n"), 0o755); err != nil {
			return "", err
		}
	}
	// declarations in defs.mro, the invocation (include + top-level call) in
	// prog.mro, as mrp is normally used
	top := p.Top
	p.Top = nil
	defs := p.MRO()
	p.Top = top
	if err := os.WriteFile(filepath.Join(defsDir, "defs.mro"), []byte(defs), 0o644); err != nil {
		return "", err
	}
	q := &progen.Program{Top: top}
	src := "@include \"" + include + "\"\n\n" + strings.TrimSpace(q.MRO()) + "\n"
	return src, os.WriteFile(filepath.Join(dir, "prog.mro"), []byte(src), 0o644)
}

const Psid = "ps"

var scratchSeq int

// Run executes the program once under the schedule.
func Run(p *progen.Program, sched Schedule, opts Options) (res *Result) {
	res = &Result{}
	if opts.MaxIter == 0 {
		opts.MaxIter = 400
	}
	base := opts.Scratch
	if base == "" {
		base = "/dev/shm"
	}
	var dir string
	var err error
	if opts.PsDir != "" {
		dir = opts.PsDir
		os.MkdirAll(dir, 0o755)
	} else {
		// fixed-width name: file contents embed their own path, and sizes
		// must not vary from run to run
		for i := 0; ; i++ {
			scratchSeq++
			dir = filepath.Join(base, fmt.Sprintf("psx-%07d-%07d", os.Getpid()%10000000, scratchSeq%10000000))
			if err = os.Mkdir(dir, 0o755); err == nil {
				break
			}
			if i > 100 {
				res.Err = err.Error()
				return
			}
		}
	}
	res.Dir = dir
	if !opts.KeepDir && opts.PsDir == "" {
		defer os.RemoveAll(dir)
	}
	mroDir := filepath.Join(dir, "mro")
	mroPaths := []string{mroDir}
	var src string
	if opts.SiblingPaths {
		src, mroPaths, err = WriteProgramSiblingPaths(p, dir)
	} else {
		src, err = WriteProgram(p, mroDir)
	}
	res.MroPaths = mroPaths
	if err != nil {
		res.Err = err.Error()
		return
	}
	psdir := filepath.Join(dir, "ps")
	if opts.SymlinkParent {
		os.MkdirAll(filepath.Join(dir, "real"), 0o755)
		os.Symlink("real", filepath.Join(dir, "link"))
		psdir = filepath.Join(dir, "link", "ps")
	}

	// install hooks
	occ := 0
	vshim.KeysHook = func(site string, n int) []int {
		if n < 2 || opts.PermSite == nil || !opts.PermSite(site) {
			return nil
		}
		i := occ
		occ++
		res.PermPoints = append(res.PermPoints, PermPoint{site, n})
		if perm, ok := sched.Perm[i]; ok && len(perm) == n {
			return perm
		}
		return nil
	}
	var h *core.VerifHarness
	goIdx := 0
	var deferred []deferredGo
	vshim.GoHook = func(site string, fn func()) bool {
		i := goIdx
		goIdx++
		res.GoPoints = append(res.GoPoints, site)
		if n, ok := sched.GoDefer[i]; ok && strings.Contains(site, "stage.go") && !strings.Contains(site, "doChunks") {
			deferred = append(deferred, deferredGo{fn, n})
			return true
		}
		fn()
		return true
	}
	crashed := false
	tornArmed := false
	inSignal := false
	util.VerifResetSignalHandlers()
	vshim.FsHook = func(site, op, path string) bool {
		if inSignal {
			// an effect of a signal handler itself
			res.SignalEffects = append(res.SignalEffects, op+" "+strings.TrimPrefix(path, dir)+" @"+site)
			return true
		}
		if crashed {
			return false
		}
		if opts.SignalAt > 0 && res.Effects+1 >= opts.SignalAt {
			inSignal = true
			dead := util.VerifDeliverSignal()
			inSignal = false
			if dead {
				res.Effects++
				res.EffectLog = append(res.EffectLog, op+" "+strings.TrimPrefix(path, dir)+" @"+site)
				res.SignalDelay = res.Effects - opts.SignalAt
				crashed = true
				return false
			}
		}
		res.Effects++
		if opts.CrashAt > 0 || len(res.EffectLog) < 4000 {
			res.EffectLog = append(res.EffectLog, op+" "+strings.TrimPrefix(path, dir)+" @"+site)
		}
		if opts.CrashAt > 0 && res.Effects >= opts.CrashAt {
			crashed = true
			tornArmed = op == "write"
			return false
		}
		if !strings.HasPrefix(path, dir+"/") && path != dir && len(res.OutsideEffects) < 20 {
			res.OutsideEffects = append(res.OutsideEffects, op+" "+path+" @"+site)
		}
		if (op == "removeall" || op == "remove") && strings.Contains(site, "storage.go") {
			rm := Removal{Path: path, Site: site}
			if h != nil {
				rm.Iter = h.Iter
			}
			filepath.Walk(path, func(_ string, info os.FileInfo, err error) error {
				if err == nil {
					if info.IsDir() {
						rm.Dirs++
						rm.DirSz += info.Size()
					} else {
						rm.Count++
						rm.Size += info.Size()
					}
				}
				return nil
			})
			res.Removed = append(res.Removed, rm)
		}
		return true
	}
	vshim.TornHook = func() int {
		if !tornArmed {
			return -1
		}
		tornArmed = false // only the write the process died in is torn
		switch opts.Torn {
		case 1:
			return 0
		case 2:
			return -2
		}
		return -1
	}
	if opts.MrpPid != 0 {
		vshim.PidHook = func() int { return opts.MrpPid }
	}
	defer func() {
		vshim.KeysHook, vshim.GoHook, vshim.FsHook, vshim.TornHook, vshim.PidHook = nil, nil, nil, nil, nil
		res.Crashed = crashed
		res.Unordered = map[string]int{}
		for k, v := range vshim.UnorderedSites {
			res.Unordered[k] = v
		}
		if r := recover(); r != nil {
			if crashed {
				// after the simulated death nothing the process does counts
				return
			}
			res.Err = fmt.Sprintf("panic: %v", r)
			res.PanicStack = string(debug.Stack())
		}
	}()

	h, err = core.NewVerifHarness(core.VerifOptions{VdrMode: opts.VdrMode, Enforce: opts.Enforce})
	if err != nil {
		res.Err = err.Error()
		return
	}
	res.H = h
	if opts.NoRetryWait {
		h.RetryWait = 0
		vshim.Frozen = time.Now().Truncate(time.Second)
		defer func() { vshim.Frozen = time.Time{} }()
	}
	if opts.Resume {
		err = h.Reattach(src, filepath.Join(mroDir, "prog.mro"), Psid, psdir, mroPaths, true)
	} else {
		err = h.Invoke(src, filepath.Join(mroDir, "prog.mro"), Psid, psdir, mroPaths)
	}
	if err != nil {
		res.Err = "invoke: " + err.Error()
		if !opts.Resume {
			// does the compiler (mro check) accept the program on its own?
			if _, _, _, cerr := syntax.ParseSourceBytes([]byte(src), filepath.Join(mroDir, "prog.mro"), mroPaths, false); cerr == nil {
				res.CompiledOK = true
			}
		}
		return
	}
	pid := opts.Pid
	if pid == 0 {
		pid = 2147483000 // a pid that is never alive
	}

	obs := map[*core.VerifJob]*ObsJob{}
	attempts := map[string]int{}
	faultFired := 0
	lagLeft := map[*core.VerifJob]int{}
	held := map[string]bool{}
	for _, k := range sched.Delay {
		held[k] = true
	}
	delayQ := append([]string{}, sched.Delay...)
	seenJobs := 0

	register := func() {
		for ; seenJobs < len(h.Jobs); seenJobs++ {
			j := h.Jobs[seenJobs]
			pth, fork, chunk := splitFq(Psid, j.Fqname)
			attempts[j.Key()]++
			if st := p.Stage(h.StageOf(j)); st != nil && !st.Split {
				chunk = -1
			}
			o := &ObsJob{Key: j.Key(), Path: pth, Fork: fork, Phase: j.Phase, Chunk: chunk,
				SubmitSeq: j.Seq, Attempt: attempts[j.Key()], MdPath: j.MdPath}
			obs[j] = o
			res.Jobs = append(res.Jobs, o)
			if n, ok := sched.Lag[j.Key()]; ok && attempts[j.Key()] == 1 {
				lagLeft[j] = n
			}
		}
	}

	type zombie struct {
		j     *core.VerifJob
		stale []byte
	}
	zombies := map[string][]zombie{}
	lingering := map[*core.VerifJob]func(){}
	runBody := func(j *core.VerifJob) {
		o := obs[j]
		in := h.JobRead(j)
		o.ArgsText = string(in.Args)
		st := p.Stage(h.StageOf(j))
		if st == nil {
			h.JobBodyDone(j, "unknown stage")
			h.JobFinish(j, "errors", "verif: unknown stage for "+j.Fqname)
			o.Finished, o.How = true, "errors"
			return
		}
		args, perr := progen.ParseJSON(in.Args)
		if perr != nil {
			args = progen.Obj(nil)
			o.ArgsText = "UNPARSEABLE: " + in.ArgsErr + " " + string(in.Args)
		}
		o.Args = args
		io := &progen.StageIO{Stage: st, Phase: j.Phase, Args: args, FilesPath: j.FilesPath}
		if t, e := progen.ParseJSON(in.Outs); e == nil {
			io.OutsTemplate = t
		}
		if j.Phase == "join" {
			if v, e := progen.ParseJSON(in.ChunkDefs); e == nil && v.K == progen.VArr {
				io.ChunkDefs = v.A
			}
			if v, e := progen.ParseJSON(in.ChunkOuts); e == nil && v.K == progen.VArr {
				io.ChunkOuts = v.A
			}
			o.ChunkDefs, o.ChunkOuts = io.ChunkDefs, io.ChunkOuts
		}
		io.WriteFile = func(pth, content string) {
			if !filepath.IsAbs(pth) {
				pth = filepath.Join(j.FilesPath, pth)
			}
			h.JobWriteFile(j, pth, []byte(content))
			if res.Written == nil {
				res.Written = map[string]int64{}
			}
			res.Written[pth] = int64(len(content))
		}
		io.TempPath = filepath.Join(j.MdPath, "tmp")
		io.Symlink = func(target, link string) {
			os.MkdirAll(filepath.Dir(link), 0o755)
			os.Symlink(target, link)
		}
		io.OutsideDir = filepath.Join(dir, "outside")
		if opts.SymlinkParent {
			io.RealPath = func(pth string) string {
				if rp, err := filepath.EvalSymlinks(pth); err == nil {
					return rp
				}
				return pth
			}
		}
		io.CheckFile = func(pth string) {
			if msg := CheckFileIntact(pth); msg != "" {
				res.FileProblems = append(res.FileProblems, fmt.Sprintf("job %s (loop iteration %d): %s", j.Key(), h.Iter, msg))
			}
		}
		fault := ""
		if f := opts.Fault; f != nil && f.Job == j.Key() && (f.Times == 0 || faultFired < f.Times) {
			fault = f.Kind
			faultFired++
		}
		if fault == "vanish" && opts.Zombie {
			stale := []byte("{}")
			if io.OutsTemplate != nil {
				stale = []byte(io.OutsTemplate.JSON())
			}
			zombies[j.Key()] = append(zombies[j.Key()], zombie{j, stale})
		}
		how, msg := applyBody(p, h, j, io, fault)
		h.JobBodyDone(j, fault)
		if sched.Linger[j.Key()] && o.Attempt == 1 && how == "complete" {
			lingering[j] = func() {
				o.Recorded = h.JobFinish(j, how, msg)
				o.Finished, o.How = true, how
			}
			return
		}
		o.Recorded = h.JobFinish(j, how, msg)
		o.Finished, o.How = true, how
	}

	idle := 0
	retriesLeft := opts.Retries
	_ = zombies
	for iter := 0; iter < opts.MaxIter; iter++ {
		register()
		// advance pending jobs in submission order
		for _, j := range h.Pending() {
			if crashed {
				break
			}
			if held[j.Key()] {
				continue
			}
			if n := lagLeft[j]; n > 0 {
				lagLeft[j] = n - 1
				continue
			}
			if fin := lingering[j]; fin != nil {
				delete(lingering, j)
				fin()
				continue
			}
			if j.Step == 0 {
				h.JobStart(j, pid)
				for si, sg := range opts.Stragglers {
					if sg.Key == j.Key() && sg.ErrorsPath != "" {
						sg.Write()
						opts.Stragglers[si].ErrorsPath = ""
					}
				}
				if zs := zombies[j.Key()]; len(zs) > 0 {
					// an earlier attempt is still alive and finishes now,
					// one run-loop iteration before this attempt does
					delete(zombies, j.Key())
					for _, z := range zs {
						if z.j.MdPath == j.MdPath {
							res.ZombieProblems = append(res.ZombieProblems, fmt.Sprintf(
								"job %s: the attempt started after the automatic restart uses the metadata directory of the attempt it replaces (%s)",
								j.Key(), strings.TrimPrefix(j.MdPath, psdir)))
						}
						h.JobWriteRaw(z.j, "outs", z.stale, false)
						h.JobFinish(z.j, "complete", "")
						res.Zombies++
					}
					continue
				}
				if sched.StartOnly[j.Key()] && obs[j].Attempt == 1 {
					continue
				}
			}
			if crashed {
				break
			}
			runBody(j)
		}
		if crashed {
			break
		}
		state, progress := h.LoopBody()
		res.Iter = h.Iter
		if crashed {
			break
		}
		{
			var keep []deferredGo
			for _, d := range deferred {
				if d.after <= 0 {
					d.fn()
				} else {
					d.after--
					keep = append(keep, d)
				}
			}
			deferred = keep
		}
		register()
		res.State = string(state)
		if state == core.Complete || state == core.DisabledState {
			// goroutines that are still pending run (in spawn order) before
			// the final clean-up; mrp gives them no such guarantee, but the
			// final VDRKill takes the same locks
			for _, d := range deferred {
				d.fn()
			}
			deferred = nil
			if b, err := h.TopOuts(); err == nil {
				res.TopOutsPre = string(b)
			}
			if os.Getenv("VERIF_DEBUG") != "" {
				res.DebugNotes = append(res.DebugNotes, h.VdrDebug()...)
			}
			res.VdrReport = h.CleanupCompleted()
			break
		}
		if state == core.Failed && retriesLeft > 0 {
			retriesLeft--
			if retried, err := h.RetryRestart(); retried {
				res.Retried++
				if err != nil {
					res.Err = "retry: " + err.Error()
					break
				}
				idle = 0
				continue
			}
		}
		if state == core.Failed {
			res.FatalFq, res.FatalLog, _, _ = h.FatalError()
			h.Unlock()
			break
		}
		// anything runnable?
		runnable := false
		for _, j := range h.Pending() {
			if !held[j.Key()] {
				runnable = true
			}
		}
		if progress || runnable {
			idle = 0
			continue
		}
		// quiescent: release the next delayed job that is pending
		released := false
		for len(delayQ) > 0 && !released {
			k := delayQ[0]
			for _, j := range h.Pending() {
				if j.Key() == k {
					released = true
				}
			}
			if released {
				delete(held, k)
				delayQ = delayQ[1:]
			} else {
				// not submitted (yet): if nothing else is pending either it
				// never will be; drop it
				anyHeldPending := false
				for _, j := range h.Pending() {
					if held[j.Key()] {
						anyHeldPending = true
					}
				}
				if !anyHeldPending {
					delete(held, k)
					delayQ = delayQ[1:]
				} else {
					// release another held pending job instead
					for i, k2 := range delayQ {
						for _, j := range h.Pending() {
							if j.Key() == k2 && !released {
								released = true
								delete(held, k2)
								delayQ = append(delayQ[:i:i], delayQ[i+1:]...)
							}
						}
						if released {
							break
						}
					}
				}
			}
		}
		if released {
			idle = 0
			continue
		}
		idle++
		if idle > 3 {
			res.Stalled = true
			break
		}
	}
	if crashed {
		res.Running = h.RunningJobs()
	}
	if crashed && opts.JobsCatchSignal {
		res.CaughtSignal = h.JobsCatchSignal()
	}
	res.Events = h.Events
	res.PsPath = psdir
	if !crashed {
		res.Tree = map[string]int64{}
		filepath.Walk(psdir, func(pth string, info os.FileInfo, err error) error {
			if err == nil && info.Mode().IsRegular() {
				res.Tree[pth] = info.Size()
			}
			return nil
		})
	}
	if !crashed {
		if b, err := h.TopOuts(); err == nil {
			res.TopOutsText = string(b)
			if v, err := progen.ParseJSON(b); err == nil {
				res.TopOuts = v
			}
		}
		res.NodeStates = h.NodeStates()
	}
	if opts.Inspect != nil {
		opts.Inspect(res)
	}
	return res
}

func jobWriteNoJournal(h *core.VerifHarness, j *core.VerifJob, name, msg string) {
	h.JobWriteRaw(j, name, []byte(msg), false)
}

// applyBody runs the stage function and writes its results; fault selects a
// failure manifestation.  Returns how the job terminates.
func applyBody(p *progen.Program, h *core.VerifHarness, j *core.VerifJob,
	io *progen.StageIO, fault string) (how, msg string) {
	switch fault {
	case "errors-early":
		return "errors", "verif: stage raised an error before producing output"
	case "assert-early":
		return "assert", "verif: stage assertion"
	case "vanish":
		// process died without a trace; the local job manager writes _errors
		return "jm-errors", "signal: killed"
	case "exit1":
		return "jm-errors", "exit status 1"
	case "errors-nojournal":
		// the monitor recorded the failure in _errors and died (non-zero exit)
		// before it could write the journal entry; the local job manager sees
		// the failed process and leaves the existing _errors alone
		jobWriteNoJournal(h, j, "errors", "verif: stage failed; the monitor died before the journal entry")
		return "jm-errors", "exit status 1"
	}
	r, err := progen.Exec(p, io)
	if err != nil {
		return "errors", err.Error()
	}
	if j.Phase == "split" {
		defs := map[string]interface{}{}
		chunks := []json.RawMessage{}
		for _, c := range r.Chunks {
			chunks = append(chunks, json.RawMessage(c.JSON()))
		}
		defs["chunks"] = chunks
		b, _ := json.Marshal(defs)
		switch fault {
		case "no-outs":
			return "complete", ""
		case "trunc-outs":
			b = b[:len(b)/2]
		case "null-outs":
			b = []byte("null")
		case "bad-stage-defs":
			b = []byte(`{"chunks": 5}`)
		case "no-chunks-key":
			b = []byte(`{"join": {}}`)
		case "errors-late":
			h.JobWriteRaw(j, "stage_defs", b, true)
			return "errors", "verif: error after writing stage defs"
		}
		h.JobWriteRaw(j, "stage_defs", b, true)
		return "complete", ""
	}
	outs := r.Outs
	// merge with the pre-populated template: keys the function did not set
	// keep their template value (file paths).
	full := progen.Obj(map[string]*progen.Val{})
	if io.OutsTemplate != nil && io.OutsTemplate.K == progen.VObj {
		for k, v := range io.OutsTemplate.O {
			full.O[k] = v
		}
	}
	for k, v := range outs.O {
		if _, declared := full.O[k]; declared || io.OutsTemplate == nil {
			full.O[k] = v
		}
	}
	b := []byte(full.JSON())
	keys := full.Keys()
	sort.Strings(keys)
	// the key a missing-key / wrong-type fault hits: an output this job is
	// responsible for (a chunk out for chunks of a split stage)
	if st := io.Stage; st.Split && j.Phase == "main" && len(st.ChunkOuts) > 0 {
		keys = []string{st.ChunkOuts[0].Name}
	} else if len(st.Outs) > 0 {
		keys = []string{st.Outs[0].Name}
	}
	switch fault {
	case "no-outs":
		// stage exits 0 without touching _outs: the template stays
		return "complete", ""
	case "rm-outs":
		os.Remove(filepath.Join(j.MdPath, "_outs"))
		return "complete", ""
	case "trunc-outs":
		b = b[:len(b)/2]
	case "null-outs":
		// the JSON value null instead of an object
		b = []byte("null")
	case "missing-key":
		if len(keys) > 0 {
			delete(full.O, keys[0])
			b = []byte(full.JSON())
		}
	case "wrong-type":
		if len(keys) > 0 {
			full.O[keys[0]] = progen.Obj(map[string]*progen.Val{"verif": progen.Str("wrong")})
			if v := outs.O[keys[0]]; v != nil && v.K == progen.VObj {
				full.O[keys[0]] = progen.Str("wrong")
			}
			b = []byte(full.JSON())
		}
	case "extra-key":
		full.O["verif_extra"] = progen.Int(1)
		b = []byte(full.JSON())
	case "errors-late":
		h.JobWriteRaw(j, "outs", b, true)
		return "errors", "verif: error after writing outs"
	}
	h.JobWriteRaw(j, "outs", b, true)
	return "complete", ""
}
