//go:build verif

package psx

import (
	"fmt"
	"os"
	"sort"
	"strings"
	"time"

	"github.com/martian-lang/martian/martian/core"

	"verif/lib/ev"
	"verif/lib/progen"
)

// DfCase is the replayable unit of the dataflow checks.
type DfCase struct {
	Family   string                `json:"family"`
	Params   progen.DataflowParams `json:"params"`
	Dn       *progen.DisNestParams `json:"disnest,omitempty"`
	Kp       *progen.KeyParams     `json:"keys,omitempty"`
	Ff       *progen.FileParams    `json:"files,omitempty"`
	Pf       *progen.PfDisParams   `json:"pfdis,omitempty"`
	Schedule Schedule              `json:"schedule"`
	Program  string                `json:"program_mro,omitempty"`
}

// Build constructs the program of the case (nil if inexpressible).
func (c DfCase) Build() *progen.Program {
	if c.Pf != nil {
		return progen.PfDis(*c.Pf)
	}
	if c.Ff != nil {
		return progen.FileFlow(*c.Ff)
	}
	if c.Dn != nil {
		return progen.DisNest(*c.Dn)
	}
	if c.Kp != nil {
		return progen.KeyFlow(*c.Kp)
	}
	return progen.Dataflow(c.Params)
}

func (c DfCase) Name() string {
	if c.Pf != nil {
		return c.Pf.String()
	}
	if c.Ff != nil {
		return c.Ff.String()
	}
	if c.Dn != nil {
		return c.Dn.String()
	}
	if c.Kp != nil {
		return c.Kp.String()
	}
	return c.Params.String()
}

type workItem struct {
	c     DfCase
	level int // 0 default schedule only, 1 +held jobs, 2 +lag/start-only/frontier order, 3 +all map orders and pairs of held jobs
}

func workList(prop string, thorough bool) []workItem {
	var out []workItem
	maxDev := 3
	if thorough {
		maxDev = 4
	}
	seen := map[string]bool{}
	for dev := 2; dev <= maxDev; dev++ {
		for _, d := range progen.DataflowFamily(dev) {
			if seen[d.String()] {
				continue
			}
			seen[d.String()] = true
			lvl := 1
			if dev <= 2 {
				lvl = 2
			}
			if thorough {
				lvl++
			}
			if dev >= 4 {
				lvl = 1
			}
			out = append(out, workItem{DfCase{Family: "dataflow", Params: d}, lvl})
		}
	}
	for _, d := range progen.DisNestFamily(thorough) {
		d := d
		lvl := 0
		if prop == "C02" || thorough {
			lvl = 1
		}
		out = append(out, workItem{DfCase{Family: "disnest", Dn: &d}, lvl})
	}
	// nested mapped calls (two levels, arrays and typed maps, literal and
	// run-time sources, split and non-split leaves)
	for _, d := range progen.NestFamily(thorough) {
		d := d
		lvl := 1
		if thorough {
			lvl = 2
		}
		out = append(out, workItem{DfCase{Family: "nest", Kp: &d}, lvl})
	}
	// a call inside a mapped pipeline disabled per fork
	for _, d := range progen.PfDisFamily(thorough) {
		d := d
		lvl := 1
		if thorough {
			lvl = 2
		}
		out = append(out, workItem{DfCase{Family: "pfdis", Pf: &d}, lvl})
	}
	return out
}

func frontierSite(site string) bool {
	return strings.Contains(site, "threadSafeNodeMap.GetNodes")
}

func coreSite(site string) bool { return strings.HasPrefix(site, "martian/core/") }

// oracleFor selects the oracle of a property.
func oracleFor(prop string, ref *progen.RefResult, res *Result) []string {
	switch prop {
	case "C01":
		return CheckDataflow(ref, res)
	case "C02":
		v := CheckOrder(ref, res)
		if res.Stalled {
			v = append(v, "pipestance stalled in state "+res.State)
		}
		return v
	case "C03":
		return CheckExactlyOnce(ref, res)
	}
	return nil
}

// sigForCase refines sigFor with what is known about the program.
func sigForCase(prop string, c DfCase, msg string) string {
	if c.Pf != nil {
		// programs of the per-fork-disable family that fail as a whole on
		// the unchanged tree (see KNOWN_FINDINGS.txt); every other member
		// of the family is judged by the generic signatures
		switch {
		case c.Pf.Cons == "map" && c.Pf.Dyn:
			return prop + ":perfork-disable:map-over-output:run-time-flags"
		case c.Pf.Cons == "map":
			return prop + ":perfork-disable:map-over-output:literal-flags"
		case c.Pf.Cons == "pass" && !c.Pf.Member && c.Pf.Dyn:
			return prop + ":perfork-disable:returned-output:run-time-flags-next-to-a-literal-split"
		}
	}
	if c.Kp != nil && c.Kp.Mix != "" {
		return prop + ":nest:literal-collection-of-run-time-arrays-of-different-lengths"
	}
	if c.Kp != nil && literalNullJob(*c.Kp, msg) {
		return prop + ":nest:literal-null-element-runs-a-job"
	}
	return sigFor(prop, msg)
}

// literalNullJob: a literal null element of an array of collections that an
// outer call maps over still runs one inner job (with a null argument).
func literalNullJob(d progen.KeyParams, msg string) bool {
	return d.Ragged != "" && !d.OuterDyn && progen.RaggedHasNull(d.OuterSel) &&
		strings.Contains(msg, "job(s) executed, the program denotes")
}

func sigFor(prop string, msg string) string {
	// recognisable defect classes first
	if strings.Contains(msg, "circular fork sources") {
		return prop + ":nest:split-over-mapped-output:circular-fork-sources"
	}
	if strings.Contains(msg, "panic: invalid type for merge") {
		return prop + ":nest:split-over-mapped-output:panic-invalid-type-for-merge"
	}
	if strings.Contains(msg, "cannot be instantiated") && strings.Contains(msg, "unexpected merge expression") {
		return prop + ":accepted-program-not-instantiable:unexpected-merge-expression"
	}
	if strings.Contains(msg, `"merge_value"`) || strings.Contains(msg, `"merge_over"`) {
		return prop + ":unexpanded-merge-expression"
	}
	words := strings.Fields(msg)
	for i, w := range words {
		// drop program-specific identifiers from the signature
		if strings.HasPrefix(w, "ID.") || strings.HasPrefix(w, "TOP") || strings.ContainsAny(w, "{[\"") {
			words[i] = "_"
		}
	}
	if len(words) > 8 {
		words = words[:8]
	}
	return prop + ":" + strings.Join(words, "_")
}

// evalDf runs one case and returns violations (after confirming them by an
// identical second run).
func evalDf(prop string, c DfCase, permSite func(string) bool) (viol []string, res *Result, ref *progen.RefResult, note string) {
	p := c.Build()
	if p == nil {
		return nil, nil, nil, "inexpressible"
	}
	ref, err := progen.Interpret(p)
	if err != nil {
		return nil, nil, nil, "reference: " + err.Error()
	}
	if len(ref.Unspecified) > 0 {
		return nil, nil, ref, "unspecified: " + ref.Unspecified[0]
	}
	res = Run(p, c.Schedule, Options{PermSite: permSite})
	if strings.HasPrefix(res.Err, "invoke:") {
		if res.CompiledOK && prop == "C01" {
			lines := strings.SplitN(res.Err, "\n", 3)
			msg := strings.TrimSpace(lines[0])
			if len(lines) > 1 {
				msg += " " + strings.TrimSpace(lines[1])
			}
			return []string{"the compiler accepts the program but it cannot be instantiated: " + strings.TrimPrefix(msg, "invoke: ")}, res, ref, ""
		}
		return nil, res, ref, "rejected: " + res.Err
	}
	viol = oracleFor(prop, ref, res)
	if len(viol) > 0 {
		res2 := Run(p, c.Schedule, Options{PermSite: permSite})
		v2 := oracleFor(prop, ref, res2)
		if strings.Join(v2, "\n") != strings.Join(viol, "\n") {
			return nil, res, ref, "nonreproducible: " + viol[0]
		}
	}
	return viol, res, ref, ""
}

// DataflowCheck is the main of the C01/C02/C03 checks.
func DataflowCheck(prop string) {
	r := ev.New(prop, "exploration")
	if prop == "C02" {
		// the ordering check explores more schedules per program
		r.SetBudget(260*time.Second, 30*time.Minute)
	} else {
		r.SetBudget(200*time.Second, 25*time.Minute)
	}
	core.VerifQuiet()
	if r.ReplayPath != "" {
		var c DfCase
		if err := ev.LoadReplay(r.ReplayPath, &c); err != nil {
			fmt.Println("cannot load replay:", err)
			os.Exit(2)
		}
		viol, res, _, note := evalDf(prop, c, coreSite)
		r.Eval("replay")
		r.Sample(c)
		if note != "" {
			fmt.Println("note:", note)
		}
		if res != nil && res.PanicStack != "" {
			fmt.Println(res.PanicStack)
		}
		for _, v := range viol {
			r.Report(ev.Finding{Sig: sigForCase(prop, c, v), What: v, Case: c})
		}
		r.Finish()
	}
	fam := workList(prop, r.Thorough())
	if !ev.IsWorker() {
		maxDev := 3
		if r.Thorough() {
			maxDev = 4
		}
		r.Rule = fmt.Sprintf("(a) every parameter vector of the dataflow template family in which at most %d of 12 dimensions leave their base value "+
			"(value kind, source literal/input/run-time, size 0-3, projection through struct/array/typed map, map call at outer/inner level, 0-3 sub-pipeline levels, "+
			"disabling by literal or run-time condition at the consumer or the enclosing pipeline, struct narrowing, split consumer, alias, preflight, downstream chain); "+
			"each program is run on the real runtime (in-package job manager + model job) under the default schedule and every 1-deviation schedule "+
			"(each job held until quiescence / lagged one iteration / started in one iteration and finished in the next; each StepNodes frontier-order "+
			"occurrence rotated and reversed; programs with the most deviations get the held-job schedules only)%s and compared with the reference interpreter; "+
			"(b) the nested-disabling family: 0-%d nested sub-pipelines each disabled by one of four controls (two outputs of one stage, another stage, a literal input) "+
			"with two sibling stage calls carrying their own controls, all 16 valuations of the controls, default schedule plus each job held; "+
			"(c) two-level nests of mapped calls: outer and inner collection each an array or a typed map, literal or produced at run time, non-split and split leaf, default schedule plus each job held. "+
			"distinct = distinct (program, schedule); non-trivial = the program executes at least one job",
			maxDev, map[bool]string{true: " plus every ordered pair of held jobs and every map-iteration site of package core", false: ""}[r.Thorough()],
			map[bool]int{true: 4, false: 3}[r.Thorough()])
		r.Set("programs_in_family", len(fam))
		if os.Getenv("VERIF_NO_TIERB") == "" {
			if _, err := TierBRoot(); err != nil {
				fmt.Println(err)
				os.Exit(2)
			}
		}
		r.RunWorkers(0)
		r.Assume("jobs behave as the model job does (the protocol of mrjob + adapter); tier-B real-binary runs validate the model separately")
		r.Assume("stage functions are the fixed /verif library (deterministic, null-tolerant)")
		r.Finish()
	}
	order := r.Rotate(len(fam))
	for wi, idx := range order {
		if !r.Mine(wi) {
			continue
		}
		if r.Expired("program enumeration") {
			break
		}
		d := fam[idx].c
		level := fam[idx].level
		base := d
		viol, res, ref, note := evalDf(prop, base, coreSite)
		if note != "" {
			r.Outcome(strings.SplitN(note, ":", 2)[0])
			if strings.HasPrefix(note, "rejected") || strings.HasPrefix(note, "reference") {
				r.Add("programs_"+strings.SplitN(note, ":", 2)[0], 1)
				if os.Getenv("VERIF_DEBUG") != "" {
					fmt.Fprintln(os.Stderr, d.Name(), note)
				}
			}
			if strings.HasPrefix(note, "nonreproducible") {
				r.Inconclusive(d.Name() + ": " + note)
			}
			continue
		}
		r.Add("programs_run", 1)
		r.Add("programs_run_"+d.Family, 1)
		key := d.Name()
		nontrivial := len(ref.Jobs) > 0
		count := func(s Schedule) {
			if nontrivial {
				r.Eval(key + "|" + s.String())
			} else {
				r.Eval("")
			}
		}
		count(base.Schedule)
		report := func(c DfCase, viol []string) {
			c.Program = c.Build().MRO()
			for _, v := range viol {
				r.Report(ev.Finding{Sig: sigForCase(prop, c, v), What: d.Name() + " schedule " + c.Schedule.String() + ": " + v, Case: c})
			}
		}
		if len(viol) > 0 {
			r.Outcome("violation")
			report(base, viol)
			continue
		}
		r.Outcome(fmt.Sprintf("ok:%s:jobs=%d", res.State, len(res.Jobs)))
		if wi%97 == 0 {
			r.Sample(map[string]interface{}{"program": d.Name(), "jobs": len(res.Jobs),
				"top_outs": res.TopOutsText, "iterations": res.Iter})
		}
		// 1-deviation schedules
		var keys []string
		seenKey := map[string]bool{}
		for _, j := range res.Jobs {
			if !seenKey[j.Key] {
				seenKey[j.Key] = true
				keys = append(keys, j.Key)
			}
		}
		sort.Strings(keys)
		var scheds []Schedule
		for _, k := range keys {
			if level >= 1 {
				scheds = append(scheds, Schedule{Delay: []string{k}})
			}
			if level >= 2 {
				scheds = append(scheds, Schedule{Lag: map[string]int{k: 1}})
				scheds = append(scheds, Schedule{StartOnly: map[string]bool{k: true}})
			}
			if level >= 1 && strings.HasSuffix(k, ".split") {
				// the split job is still running when mrp reads its _stage_defs
				scheds = append(scheds, Schedule{Linger: map[string]bool{k: true}})
			}
		}
		for i, pp := range res.PermPoints {
			if level < 2 || (!frontierSite(pp.Site) && level < 3) {
				continue
			}
			rot := make([]int, pp.N)
			rev := make([]int, pp.N)
			for x := 0; x < pp.N; x++ {
				rot[x] = (x + 1) % pp.N
				rev[x] = pp.N - 1 - x
			}
			scheds = append(scheds, Schedule{Perm: map[int][]int{i: rot}})
			if pp.N > 2 {
				scheds = append(scheds, Schedule{Perm: map[int][]int{i: rev}})
			}
		}
		if level >= 3 {
			for _, a := range keys {
				for _, b := range keys {
					if a != b {
						scheds = append(scheds, Schedule{Delay: []string{a, b}})
					}
				}
			}
		}
		r.Add("perm_points", int64(len(res.PermPoints)))
		for _, s := range scheds {
			if r.Expired("schedule enumeration") {
				break
			}
			c := d
			c.Schedule = s
			viol, res2, _, note := evalDf(prop, c, coreSite)
			count(s)
			if note != "" {
				r.Outcome("dev-" + strings.SplitN(note, ":", 2)[0])
				if strings.HasPrefix(note, "nonreproducible") {
					r.Inconclusive(d.Name() + " " + s.String() + ": " + note)
				}
				continue
			}
			if len(viol) > 0 {
				r.Outcome("violation")
				report(c, viol)
				continue
			}
			if res2.TopOutsText != res.TopOutsText && prop == "C01" {
				// schedule independence of the recorded outputs (byte level
				// differences are fine only if equal as values - checked by
				// the oracle already); record as an outcome class
				r.Outcome("ok-dev-different-bytes")
			} else {
				r.Outcome("ok-dev")
			}
		}
	}
	TierBDataflow(r, prop)
	r.Done()
}
