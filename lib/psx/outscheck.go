//go:build verif

package psx

import (
	"encoding/json"
	"fmt"
	"os"
	"path/filepath"
	"strconv"
	"strings"
	"time"

	"github.com/martian-lang/martian/martian/core"

	"verif/lib/ev"
	"verif/lib/progen"
)

// OutsCase is the replayable unit of C13.
type OutsCase struct {
	Params progen.OutsParams `json:"params"`
}

// embeddedPath returns the original path recorded in a FILEW file.
func embeddedPath(p string) (string, bool) {
	b, err := os.ReadFile(p)
	if err != nil {
		return "", false
	}
	lines := strings.SplitN(string(b), "\n", 3)
	if len(lines) < 2 || lines[0] != "FILEW" {
		return "", false
	}
	return lines[1], true
}

// compareOuts walks the pre- and post-processing outputs in parallel.
// pathComp is one component of the location a file leaf is expected at under
// outs/: a name (parameter / member / key, plus extension for user file
// types) or an array index (any zero padding is accepted).
type pathComp struct {
	name  string
	index int
	isIdx bool
	ext   string
}

func (c pathComp) matches(s string) bool {
	if !c.isIdx {
		return s == c.name+c.ext
	}
	if !strings.HasSuffix(s, c.ext) {
		return false
	}
	n, err := strconv.Atoi(strings.TrimSuffix(s, c.ext))
	return err == nil && n == c.index
}

// findDerived looks the location derived from comps up below <ps>/outs
// (array indices match with any zero padding).
func findDerived(ps string, comps []pathComp) (string, bool) {
	cur := filepath.Join(ps, "outs")
	for _, c := range comps {
		ents, err := os.ReadDir(cur)
		if err != nil {
			return cur, false
		}
		found := ""
		for _, e := range ents {
			if c.matches(e.Name()) {
				found = e.Name()
				break
			}
		}
		if found == "" {
			return filepath.Join(cur, c.String()), false
		}
		cur = filepath.Join(cur, found)
	}
	return cur, true
}

func (c pathComp) String() string {
	if c.isIdx {
		return fmt.Sprintf("<%d>%s", c.index, c.ext)
	}
	return c.name + c.ext
}

// leafExt is the extension the derived name of a value of type t carries.
func leafExt(t *progen.T) string {
	if t != nil && t.K == progen.TFiletype {
		return "." + t.Name
	}
	return ""
}

func withComp(comps []pathComp, c pathComp) []pathComp {
	return append(append([]pathComp{}, comps...), c)
}

func compareOuts(pre, post *progen.Val, t *progen.T, p *progen.Program, where string, ps string, d progen.OutsParams, used map[string]string, out *[]string, comps []pathComp) {
	add := func(format string, a ...interface{}) {
		*out = append(*out, where+": "+fmt.Sprintf(format, a...))
	}
	if pre == nil {
		pre = progen.Null()
	}
	if post == nil {
		post = progen.Null()
	}
	fileLeaf := t != nil && (t.K == progen.TFiletype || t.K == progen.TFile || t.K == progen.TPath)
	switch {
	case t != nil && t.K == progen.TArray && pre.K == progen.VArr:
		if post.K != progen.VArr || len(post.A) != len(pre.A) {
			add("array of %d elements became %s", len(pre.A), ev.Short(post.JSON(), 120))
			return
		}
		for i := range pre.A {
			compareOuts(pre.A[i], post.A[i], t.Elem, p, fmt.Sprintf("%s[%d]", where, i), ps, d, used, out,
				withComp(comps, pathComp{isIdx: true, index: i, ext: leafExt(t.Elem)}))
		}
		return
	case t != nil && t.K == progen.TTMap && pre.K == progen.VObj:
		if post.K != progen.VObj || len(post.O) != len(pre.O) {
			add("map with %d keys became %s", len(pre.O), ev.Short(post.JSON(), 120))
			return
		}
		for _, k := range pre.Keys() {
			pv, ok := post.O[k]
			if !ok {
				add("key %q lost", k)
				continue
			}
			compareOuts(pre.O[k], pv, t.Elem, p, where+"."+k, ps, d, used, out,
				withComp(comps, pathComp{name: k, ext: leafExt(t.Elem)}))
		}
		return
	case t != nil && t.K == progen.TStruct && pre.K == progen.VObj:
		if post.K != progen.VObj {
			add("struct became %s", ev.Short(post.JSON(), 120))
			return
		}
		for _, f := range p.Struct(t.Name).Fields {
			fc := pathComp{name: f.Name, ext: leafExt(f.T)}
			if f.OutName != "" {
				fc = pathComp{name: f.OutName}
			}
			compareOuts(pre.O[f.Name], post.O[f.Name], f.T, p, where+"."+f.Name, ps, d, used, out, withComp(comps, fc))
		}
		if len(post.O) != len(pre.O) {
			add("struct with %d fields became one with %d", len(pre.O), len(post.O))
		}
		return
	}
	if !fileLeaf {
		if d := progen.EqSlack(pre, post, where); d != "" || progen.EqSlack(post, pre, where) != "" {
			add("a non-file value changed: %s -> %s", ev.Short(pre.JSON(), 120), ev.Short(post.JSON(), 120))
		}
		return
	}
	// file leaf
	if pre.IsNullish() {
		if !post.IsNullish() {
			add("a null file output became %s", post.JSON())
		}
		return
	}
	if pre.K != progen.VStr {
		return
	}
	orig := pre.S
	_, statErr := os.Stat(strings.TrimSuffix(orig, "/"))
	origExisted := statErr == nil || d.Mode != 2
	if d.Mode == 2 {
		// the stage named a file it never wrote: the materialised value
		// must not point at a non-existent outs/ file
		if post.K == progen.VStr && strings.HasPrefix(post.S, ps+"/outs/") {
			if _, err := os.Lstat(post.S); err != nil {
				add("output names %s under outs/ which does not exist (the stage never wrote the file)", strings.TrimPrefix(post.S, ps))
			}
		}
		return
	}
	_ = origExisted
	if post.K != progen.VStr {
		add("file output %s became %s", orig, post.JSON())
		return
	}
	np := post.S
	info, err := os.Stat(np)
	if err != nil {
		add("the recorded location %s does not exist", strings.TrimPrefix(np, ps))
		return
	}
	if t.K == progen.TPath || info.IsDir() {
		inner := filepath.Join(np, "inner.dat")
		if ep, ok := embeddedPath(inner); !ok || !(strings.HasSuffix(ep, "/inner.dat") || strings.HasSuffix(ep, "/inner.dat.real")) {
			add("directory output %s does not hold the file its producer wrote", strings.TrimPrefix(np, ps))
		}
	} else {
		ep, ok := embeddedPath(np)
		want := orig
		if d.Mode == 3 {
			want = orig + ".real"
		}
		if d.Mode == 6 {
			// the producer named the file relative to the working directory
			if abs, err := filepath.Abs(orig); err == nil {
				want = abs
			}
		}
		if !ok {
			add("%s does not hold the content its producer wrote", strings.TrimPrefix(np, ps))
		} else if d.Mode == 5 {
			// a link to the first output's file: any file the producer wrote
			if _, wrote := writtenFiles[ep]; !wrote {
				add("%s holds the content of %s, which the producing stage did not write", strings.TrimPrefix(np, ps), ep)
			}
		} else if ep != want {
			add("%s holds the content of %s, expected that of %s", strings.TrimPrefix(np, ps), ep, want)
		}
	}
	if d.Mode >= 3 {
		// links and files outside the pipestance: whatever the record says,
		// the file must be available at the derived location under outs/
		if loc, ok := findDerived(ps, comps); !ok {
			add("nothing at the derived location %s under outs/", strings.TrimPrefix(loc, ps))
		} else if t.K != progen.TPath {
			if _, err := os.Stat(loc); err != nil {
				add("the derived location %s under outs/ cannot be read: %v", strings.TrimPrefix(loc, ps), err)
			} else if ep, ok := embeddedPath(loc); !ok {
				add("%s does not hold the content its producer wrote", strings.TrimPrefix(loc, ps))
			} else if _, wrote := writtenFiles[ep]; !wrote {
				add("%s holds the content of %s, which the producing stage did not write", strings.TrimPrefix(loc, ps), ep)
			}
		} else if ents, err := os.ReadDir(loc); err != nil || len(ents) == 0 {
			add("the directory at the derived location %s under outs/ is empty or cannot be read", strings.TrimPrefix(loc, ps))
		}
	}
	if d.Mode == 0 || d.Mode == 7 {
		if !strings.HasPrefix(np, ps+"/outs/") {
			add("file output is not under outs/: %s", strings.TrimPrefix(np, ps))
		}
		// Two leaves naming the same source file (one stage output reaching
		// the top level twice) may share one materialised location: the
		// property does not say which of the two derived paths is used.
		if prev, dup := used[np]; dup && used["src:"+np] != orig {
			add("two outputs (%s and this one) naming different files share the location %s", prev, strings.TrimPrefix(np, ps))
		}
		used[np] = where
		used["src:"+np] = orig
		// extension of user file types
		if t.K == progen.TFiletype && !d.OutName && !strings.HasSuffix(np, "."+t.Name) {
			add("materialised name %s lacks the .%s extension of its file type", filepath.Base(np), t.Name)
		}
		// the location is the one derived from parameter names, types,
		// explicit output names, indices and keys
		_, aliased := used["orig:"+orig]
		used["orig:"+orig] = where
		if strings.HasPrefix(np, ps+"/outs/") && !aliased && d.TopKeys != 3 {
			// (which directory stands for a fork key that is no directory
			// name - "..", TopKeys 3 - is not stated; a second leaf naming the same source file may share the
			// first one's location: which derived path is used is unspecified)
			got := strings.Split(strings.TrimPrefix(np, ps+"/outs/"), "/")
			ok := len(got) == len(comps)
			var want []string
			for i, c := range comps {
				want = append(want, c.String())
				if ok && !c.matches(got[i]) {
					ok = false
				}
			}
			if !ok {
				add("materialised at outs/%s, the derived location is outs/%s", strings.Join(got, "/"), strings.Join(want, "/"))
			}
		}
	}
}

// writtenFiles: the files the stage code of the current run wrote.
var writtenFiles map[string]int64

func outsOracle(d progen.OutsParams, p *progen.Program, res *Result) []string {
	var out []string
	writtenFiles = res.Written
	if res.Err != "" {
		return []string{"run error: " + res.Err}
	}
	if res.State != "complete" && d.Keys >= 2 && d.Keys <= 4 && strings.Contains(res.FatalLog, "Expected map<") {
		// keys that cannot be file names are refused by output validation of
		// the producing stage: the model stage broke the documented contract
		return []string{"unspecified: illegal key refused"}
	}
	if res.State != "complete" {
		return []string{"pipestance ended " + res.State + ": " + res.FatalFq + ": " + firstLine(res.FatalLog)}
	}
	// strict JSON
	var strict interface{}
	dec := json.NewDecoder(strings.NewReader(res.TopOutsText))
	dec.UseNumber()
	if err := dec.Decode(&strict); err != nil || dec.More() {
		return []string{"the top-level outputs record is not valid JSON after post-processing: " + ev.Short(res.TopOutsText, 300)}
	}
	pre, err := progen.ParseJSON([]byte(res.TopOutsPre))
	if err != nil || res.TopOuts == nil {
		return []string{"cannot read the outputs record"}
	}
	top := p.Pipeline("TOP")
	used := map[string]string{}
	walkTop := func(preV, postV *progen.Val, where string, prefix []pathComp) {
		if preV.K != progen.VObj || postV.K != progen.VObj {
			if !(preV.IsNullish() && postV.IsNullish()) {
				out = append(out, where+": outputs record changed shape: "+ev.Short(postV.JSON(), 200))
			}
			return
		}
		for _, o := range top.Outs {
			oc := pathComp{name: o.Name, ext: leafExt(o.T)}
			if o.OutName != "" {
				oc = pathComp{name: o.OutName}
			}
			compareOuts(preV.O[o.Name], postV.O[o.Name], o.T, p, where+o.Name, res.PsPath, d, used, &out, withComp(prefix, oc))
		}
		for k := range postV.O {
			if _, ok := preV.O[k]; !ok {
				out = append(out, where+": key "+k+" appeared in the outputs record")
			}
		}
	}
	if d.TopMap && d.TopKeys != 0 {
		if pre.K != progen.VObj || res.TopOuts.K != progen.VObj || len(pre.O) != len(res.TopOuts.O) {
			return append(out, "mapped top-level outputs changed shape: "+ev.Short(res.TopOutsText, 300))
		}
		for _, k := range pre.Keys() {
			post, ok := res.TopOuts.O[k]
			if !ok {
				out = append(out, fmt.Sprintf("the outputs of the top-level fork with key %q are missing from the record", k))
				continue
			}
			// a key holding '/' names nested directories
			var comps []pathComp
			for _, part := range strings.Split(k, "/") {
				comps = append(comps, pathComp{name: part})
			}
			walkTop(pre.O[k], post, fmt.Sprintf("[%q].", k), comps)
		}
	} else if d.TopMap {
		if pre.K != progen.VArr || res.TopOuts.K != progen.VArr || len(pre.A) != len(res.TopOuts.A) {
			return append(out, "mapped top-level outputs changed shape: "+ev.Short(res.TopOutsText, 300))
		}
		for i := range pre.A {
			walkTop(pre.A[i], res.TopOuts.A[i], fmt.Sprintf("[%d].", i), []pathComp{{isIdx: true, index: i}})
		}
	} else {
		walkTop(pre, res.TopOuts, "", nil)
	}
	return out
}

func outsSig(v string) string {
	// drop the position, keep the message class
	if i := strings.Index(v, ": "); i >= 0 {
		v = v[i+2:]
	}
	words := strings.Fields(v)
	for i, w := range words {
		if strings.ContainsAny(w, "/{[\"0123456789") {
			words[i] = "_"
		}
	}
	if len(words) > 8 {
		words = words[:8]
	}
	return "C13:" + strings.Join(words, "_")
}

func evalOuts(d progen.OutsParams) (viol []string, res *Result, note string) {
	p := progen.OutsFlow(d)
	if p == nil {
		return nil, nil, "inexpressible"
	}
	run := func() (*Result, []string) {
		var v []string
		r := Run(p, Schedule{}, Options{VdrMode: "rolling", MrpPid: 7171, Inspect: func(r *Result) {
			if !strings.HasPrefix(r.Err, "invoke:") {
				v = outsOracle(d, p, r)
				for i := range v {
					v[i] = strings.ReplaceAll(v[i], r.Dir, "<scratch>")
				}
			}
		}})
		return r, v
	}
	res, viol = run()
	if strings.HasPrefix(res.Err, "invoke:") {
		return nil, res, "rejected: " + firstLine(res.Err)
	}
	if len(viol) == 1 && strings.HasPrefix(viol[0], "unspecified: ") {
		return nil, res, "key-refused: the producing stage's output validation refuses a map key that is not a legal file name"
	}
	if len(viol) > 0 {
		_, v2 := run()
		if strings.Join(v2, "\n") != strings.Join(viol, "\n") {
			return nil, res, "nonreproducible: " + viol[0]
		}
	}
	return viol, res, ""
}

// OutsCheck is the main of C13.
func OutsCheck() {
	r := ev.New("C13", "exploration")
	r.SetBudget(100*time.Second, 20*time.Minute)
	core.VerifQuiet()
	if r.ReplayPath != "" {
		var c OutsCase
		if err := ev.LoadReplay(r.ReplayPath, &c); err != nil {
			fmt.Println(err)
			os.Exit(2)
		}
		viol, res, note := evalOuts(c.Params)
		r.Eval("replay")
		r.Sample(c)
		fmt.Println("note:", note)
		if res != nil && os.Getenv("VERIF_DEBUG") != "" {
			fmt.Println("pre:", res.TopOutsPre)
			fmt.Println("post:", res.TopOutsText)
		}
		for _, v := range viol {
			r.Report(ev.Finding{Sig: outsSig(v), What: v, Case: c})
		}
		r.Finish()
	}
	fam := progen.OutsFamily(r.Thorough())
	if !ev.IsWorker() {
		r.Rule = "top-level pipelines returning each of 14 producer outputs alone (file type with extension, file, arrays and typed maps of files, struct / struct array / typed map of structs holding a file, 2-dimensional file array, typed map of file arrays, nested struct with an explicitly named member, string and untyped map holding a path, directory, plain int) and three combinations, plus a directory output together with a file output naming the file inside it (both declaration orders) x collection sizes {2,0,1,11} x leaf modes {file written, null, named but never written, relative symlink, file outside the pipestance, link chain, relative outside path, directory named with a trailing slash} x explicit output names x mapped producer x mapped top-level call x pass-through sub-pipeline " +
			"(quick: at most 3 of these 6 dimensions off base) + 5 kinds of colliding output names + 5 map-key styles; each program runs to completion on the real runtime with real files, then VDRKill + PostProcess as mrp does; the outputs record before and after post-processing are walked in parallel by type: valid JSON, same shape, non-file values unchanged, every non-null file leaf recorded at an existing location under outs/ holding exactly the producer's bytes (self-describing content), distinct leaves at distinct locations, file-type extension kept. distinct = distinct parameter vectors; non-trivial = at least one file leaf was materialised"
		r.Set("programs_in_family", len(fam))
		r.RunWorkers(0)
		r.Assume("for symlinked outputs and outputs outside the pipestance any recorded location that resolves to the producer's bytes is accepted")
		r.Finish()
	}
	order := r.Rotate(len(fam))
	for wi, idx := range order {
		if !r.Mine(wi) {
			continue
		}
		if r.Expired("program enumeration") {
			break
		}
		d := fam[idx]
		viol, res, note := evalOuts(d)
		if note != "" {
			r.Eval("")
			r.Outcome(strings.SplitN(note, ":", 2)[0])
			if strings.HasPrefix(note, "nonreproducible") {
				r.Inconclusive(d.String() + ": " + note)
			}
			if os.Getenv("VERIF_DEBUG") != "" && strings.HasPrefix(note, "rejected") {
				fmt.Fprintln(os.Stderr, d.String(), note)
			}
			continue
		}
		key := ""
		if strings.Contains(res.TopOutsText, "/outs/") {
			key = d.String()
		}
		r.Eval(key)
		if len(viol) == 0 {
			r.Outcome("ok")
			if wi%211 == 0 {
				r.Sample(map[string]interface{}{"program": d.String(), "outs_after": ev.Short(strings.ReplaceAll(res.TopOutsText, res.Dir, "<scratch>"), 600)})
			}
			continue
		}
		r.Outcome("violation")
		for _, v := range viol {
			r.Report(ev.Finding{Sig: outsSig(v), What: d.String() + ": " + v, Case: OutsCase{Params: d}})
		}
	}
	r.Done()
}
