//go:build verif

package psx

// The pipestance lock as a protocol: every sequence of operations (up to a
// depth) by independent mrp instances on one pipestance directory is run on
// the real Runtime (InvokePipeline / ReattachToPipestance / Unlock) in lock
// step with a two-state reference model (who holds the lock); after every
// operation the answer and the presence of <ps>/_lock must agree with the
// model.  Part of C15: "a second mrp can never attach for writing to a
// pipestance that a live mrp holds locked".

import (
	"errors"
	"fmt"
	"os"
	"path/filepath"
	"strings"

	"github.com/martian-lang/martian/martian/core"

	"verif/lib/ev"
)

// LockOps is the alphabet.
var LockOps = []string{
	"attach-rw-same",     // a second instance attaches for writing with an equivalent invocation
	"attach-rw-changed",  // ... with included declarations whose meaning changed
	"attach-ro-same",     // read-only attach (mrp --inspect)
	"attach-ro-changed",  // read-only attach with changed declarations
	"attach-rw-cosmetic", // for writing, declarations reformatted / commented only
	"invoke",             // a second instance tries to create the pipestance again
	"unlock",             // the current holder gives the lock up (its mrp ends)
}

// LockSeq is the replayable unit.
type LockSeq struct {
	Kind string   `json:"edit"` // "lock-protocol"
	Ops  []string `json:"ops"`
}

type lockWorld struct {
	dir, mro, callPath, psdir string
	call                      string
	defs, changed, cosmetic   string
	holder                    *core.VerifHarness
}

func classify(err error) string {
	if err == nil {
		return "ok"
	}
	var ie *core.PipestanceInvocationError
	if errors.As(err, &ie) {
		return "refused-invocation"
	}
	var le *core.PipestanceLockedError
	if errors.As(err, &le) {
		return "refused-locked"
	}
	var ee *core.PipestanceExistsError
	if errors.As(err, &ee) {
		return "refused-exists"
	}
	return "error: " + firstLine(err.Error())
}

// RunLockSeq executes ops and returns the first disagreement with the model
// ("" if none) and the trace of (op, answer, lock present).
func RunLockSeq(stageNames []string, defs, call, changedDefs, cosmeticDefs string, ops []string) (string, []string) {
	dir, err := os.MkdirTemp("/dev/shm", "psxl-")
	if err != nil {
		return "", nil
	}
	defer os.RemoveAll(dir)
	w := &lockWorld{dir: dir, mro: filepath.Join(dir, "mro"), psdir: filepath.Join(dir, "ps"),
		call: call, defs: defs, changed: changedDefs, cosmetic: cosmeticDefs}
	os.MkdirAll(w.mro, 0o755)
	for _, s := range stageNames {
		os.WriteFile(filepath.Join(w.mro, s), []byte("#!/bin/sh\n"), 0o755)
	}
	w.callPath = filepath.Join(w.mro, "call.mro")
	os.WriteFile(w.callPath, []byte(call), 0o644)
	setDefs := func(d string) { os.WriteFile(filepath.Join(w.mro, "defs.mro"), []byte(d), 0o644) }
	setDefs(defs)
	h, err := core.NewVerifHarness(core.VerifOptions{})
	if err != nil {
		return "", nil
	}
	if err := h.Invoke(call, w.callPath, Psid, w.psdir, []string{w.mro}); err != nil {
		return "", []string{"invoke failed: " + err.Error()}
	}
	w.holder = h // model: the creating instance holds the lock
	var trace []string
	locked := func() bool { _, err := os.Lstat(filepath.Join(w.psdir, "_lock")); return err == nil }
	if !locked() {
		return "after InvokePipeline the pipestance is not locked", trace
	}
	for i, op := range ops {
		want, got := "", ""
		held := w.holder != nil
		switch op {
		case "unlock":
			if w.holder == nil {
				trace = append(trace, op+" (nobody holds the lock: skipped)")
				continue
			}
			w.holder.Unlock()
			w.holder = nil
			want, got = "ok", "ok"
		case "invoke":
			setDefs(defs)
			h2, _ := core.NewVerifHarness(core.VerifOptions{})
			got = classify(h2.Invoke(call, w.callPath, Psid, w.psdir, []string{w.mro}))
			want = "refused-exists"
		default:
			ro := strings.HasPrefix(op, "attach-ro")
			d := defs
			switch {
			case strings.HasSuffix(op, "changed"):
				d = changedDefs
			case strings.HasSuffix(op, "cosmetic"):
				d = cosmeticDefs
			}
			setDefs(d)
			h2, _ := core.NewVerifHarness(core.VerifOptions{})
			got = classify(h2.AttachOnly(call, w.callPath, Psid, w.psdir, []string{w.mro}, ro))
			changed := strings.HasSuffix(op, "changed")
			switch {
			case !ro && held:
				want = "refused-locked"
			case changed:
				want = "refused-invocation"
			default:
				want = "ok"
			}
			if got == "ok" && !ro {
				if want == "ok" {
					w.holder = h2
				} else {
					// keep the handle so that the sequence can go on
					defer h2.Unlock()
				}
			}
		}
		trace = append(trace, fmt.Sprintf("%s -> %s, _lock %v", op, got, locked()))
		if got != want {
			return fmt.Sprintf("step %d %s: answered %q, expected %q (a live instance %s the lock)", i+1, op, got, want,
				map[bool]string{true: "holds", false: "does not hold"}[held]), trace
		}
		if locked() != (w.holder != nil) {
			if w.holder != nil {
				return fmt.Sprintf("step %d %s (answered %q): the lock of the live instance is gone", i+1, op, got), trace
			}
			return fmt.Sprintf("step %d %s (answered %q): nobody holds the pipestance but _lock is present", i+1, op, got), trace
		}
	}
	if w.holder != nil {
		w.holder.Unlock()
	}
	return "", trace
}

// LockProtocol enumerates every sequence of operations up to the depth.
func LockProtocol(r *ev.Run, stageNames []string, defs, call, changedDefs, cosmeticDefs string, depth int) {
	var rec func(prefix []string)
	states := map[string]bool{}
	transitions := 0
	rec = func(prefix []string) {
		if len(prefix) > 0 {
			if r.Expired("lock protocol") {
				return
			}
			msg, trace := RunLockSeq(stageNames, defs, call, changedDefs, cosmeticDefs, prefix)
			r.Eval("lock|" + strings.Join(prefix, ","))
			transitions++
			if len(trace) > 0 {
				states[trace[len(trace)-1][strings.Index(trace[len(trace)-1], "->")+1:]] = true
			}
			if msg != "" {
				sig := "C15:lock:" + prefix[len(prefix)-1]
				r.Outcome("violation")
				r.Report(ev.Finding{Sig: sig, What: "lock protocol, operations " + strings.Join(prefix, ", ") + ": " + msg + "; trace: " + strings.Join(trace, "; "),
					Case: LockSeq{Kind: "lock-protocol", Ops: prefix}})
				return // longer sequences with this prefix add nothing
			}
			r.Outcome("lock-seq-ok")
		}
		if len(prefix) == depth {
			return
		}
		for _, op := range LockOps {
			rec(append(append([]string{}, prefix...), op))
		}
	}
	rec(nil)
	r.Add("lock_sequences", int64(transitions))
	r.Add("lock_distinct_step_outcomes", int64(len(states)))
}
