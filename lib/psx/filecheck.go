//go:build verif

package psx

import (
	"encoding/json"
	"fmt"
	"os"
	"path/filepath"
	"sort"
	"strings"
	"time"

	"github.com/martian-lang/martian/martian/core"

	"verif/lib/ev"
	"verif/lib/progen"
)

// FileCase is the replayable unit of C04 / C14.
type FileCase struct {
	Params   progen.FileParams `json:"params"`
	Schedule Schedule          `json:"schedule"`
	Program  string            `json:"program_mro,omitempty"`
	// CrashAt > 0: mrp is killed at that file-system effect and restarted.
	CrashAt int `json:"crash_at,omitempty"`
	// KeptExpect: file leaves named by the top-level output of the
	// uninterrupted run (crash cases only; -1 unknown).
	KeptExpect int `json:"kept_expect,omitempty"`
	keptExpect int
	// FailJob: that job raises an error once; mrp ends failed and is
	// restarted on the directory (nothing is killed, so every removal of both
	// incarnations is on record and the accounting is decided).
	FailJob string `json:"fail_job,omitempty"`
}

func pathsIn(v *progen.Val, out []string) []string {
	if v == nil {
		return out
	}
	switch v.K {
	case progen.VStr:
		if strings.HasPrefix(v.S, "/") {
			out = append(out, v.S)
		}
	case progen.VArr:
		for _, e := range v.A {
			out = pathsIn(e, out)
		}
	case progen.VObj:
		for _, k := range v.Keys() {
			out = pathsIn(v.O[k], out)
		}
	}
	return out
}

// producerForkDirs returns the fork directories of the producer stage.
func producerForkDirs(res *Result, d progen.FileParams) []string {
	prod := "FILEW"
	if d.Prod == "splitw" {
		prod = "SPLITW"
	}
	if d.Prod == "splitn" {
		prod = "SPLITN"
	}
	base := filepath.Join(res.PsPath, "TOP")
	if d.ProdWrap {
		base = filepath.Join(base, "PW")
	}
	base = filepath.Join(base, prod)
	ents, _ := os.ReadDir(base)
	var out []string
	for _, e := range ents {
		if strings.HasPrefix(e.Name(), "fork") {
			out = append(out, filepath.Join(base, e.Name()))
		}
	}
	sort.Strings(out)
	return out
}

func underAny(p string, roots []string) bool {
	for _, r := range roots {
		if p == r || strings.HasPrefix(p, r+"/") || strings.HasPrefix(r, p+"/") {
			return true
		}
	}
	return false
}

// producerVolatile: "yes" the producer's files must be reclaimed, "no" they
// need not, "unspecified" the statement does not decide.
func producerVolatile(d progen.FileParams) string {
	switch d.Mode {
	case "strict":
		if d.Vol == "false" {
			return "unspecified"
		}
		return "yes"
	default:
		switch d.Vol {
		case "call", "strict":
			return "yes"
		}
		return "no"
	}
}

// keptExpect, when >= 0, is the number of file leaves the top-level output
// names in the uninterrupted run of the same program (crash-restart phase).
var keptExpect = -1

var refKeptCache = map[string]int{}

// refKeptLeaves: how many files the top-level outputs 'kept' / 'kept2'
// name according to the reference interpreter (-1 if unknown).
func refKeptLeaves(d progen.FileParams) int {
	key := d.String()
	if n, ok := refKeptCache[key]; ok {
		return n
	}
	n := -1
	if p := progen.FileFlow(d); p != nil {
		if ref, err := progen.Interpret(p); err == nil && ref.TopOuts != nil && ref.TopOuts.K == progen.VObj {
			n = countFileLeaves(ref.TopOuts.O["kept"]) + countFileLeaves(ref.TopOuts.O["kept2"])
		}
	}
	refKeptCache[key] = n
	return n
}

// countFileLeaves counts the logical file names ("@...") of a reference value.
func countFileLeaves(v *progen.Val) int {
	if v == nil {
		return 0
	}
	switch v.K {
	case progen.VStr:
		if strings.HasPrefix(v.S, "@") {
			return 1
		}
	case progen.VArr:
		n := 0
		for _, e := range v.A {
			n += countFileLeaves(e)
		}
		return n
	case progen.VObj:
		n := 0
		for _, e := range v.O {
			n += countFileLeaves(e)
		}
		return n
	}
	return 0
}

func fileOracle(prop string, d progen.FileParams, res *Result) []string {
	var out []string
	if res.Err != "" {
		return []string{"run error: " + res.Err}
	}
	if res.Stalled {
		return []string{"pipestance stalled in state " + res.State}
	}
	if res.State != "complete" {
		// a stage failing because its input file is gone is the typical
		// consequence of a C04 violation
		return []string{"pipestance ended " + res.State + ": " + res.FatalFq + ": " + firstLine(res.FatalLog)}
	}
	// paths named by the top-level outputs
	var keptPaths []string
	if res.TopOuts != nil && res.TopOuts.K == progen.VObj {
		keptPaths = pathsIn(res.TopOuts.O["kept"], nil)
		keptPaths = pathsIn(res.TopOuts.O["kept2"], keptPaths)
	}
	var retained []string
	forkDirs := producerForkDirs(res, d)
	if d.Retain != "" {
		for _, fd := range forkDirs {
			if b, err := os.ReadFile(filepath.Join(fd, "_outs")); err == nil {
				if v, err := progen.ParseJSON(b); err == nil && v.K == progen.VObj {
					retained = pathsIn(v.O[d.Out], retained)
				}
			}
		}
	}
	if prop == "C04" {
		out = append(out, res.FileProblems...)
		if d.TopOut {
			if len(keptPaths) == 0 {
				out = append(out, "the top-level output 'kept' names no file: "+res.TopOutsText)
			} else if want := refKeptLeaves(d); want >= 0 && len(keptPaths) != want {
				out = append(out, fmt.Sprintf("the top-level output 'kept' names %d file(s), the program denotes %d: %s", len(keptPaths), want, res.TopOutsText))
			} else if keptExpect >= 0 && len(keptPaths) != keptExpect {
				out = append(out, fmt.Sprintf("the top-level output 'kept' names %d file(s), the uninterrupted run names %d: %s", len(keptPaths), keptExpect, res.TopOutsText))
			}
			for _, p := range keptPaths {
				if msg := CheckFileIntact(p); msg != "" {
					out = append(out, "final output: "+msg)
				}
			}
		} else if d.Retain != "" {
			if len(retained) == 0 {
				out = append(out, "the retained output names no file")
			}
			for _, p := range retained {
				if msg := CheckFileIntact(p); msg != "" {
					out = append(out, "retained output: "+msg)
				}
			}
		}
		return out
	}
	// C14
	// "nothing outside the pipestance directory is touched": files the stages
	// wrote outside are still there
	{
		var outside []string
		for wp := range res.Written {
			if !strings.HasPrefix(wp, res.PsPath+"/") && !strings.HasPrefix(wp, filepath.Dir(res.PsPath)+"/link/") {
				outside = append(outside, wp)
			}
		}
		sort.Strings(outside)
		for _, wp := range outside {
			if _, err := os.Lstat(wp); err != nil {
				out = append(out, "a file outside the pipestance directory was removed: "+strings.TrimPrefix(wp, filepath.Dir(res.PsPath)))
			}
		}
	}
	// "VDR reclaims what it MAY": a file named by a top-level output or by a
	// retain declaration is not reclaimable (the same observation C04 makes).
	for _, kp := range keptPaths {
		if msg := CheckFileIntact(kp); msg != "" {
			out = append(out, "reclaimed a file named by a top-level output: "+msg)
		}
	}
	if d.TopOut {
		// a reclaimed output file is recorded as null by post-processing
		if want := refKeptLeaves(d); want >= 0 && len(keptPaths) < want {
			out = append(out, fmt.Sprintf("the top-level output 'kept' names %d file(s) at the end, the program denotes %d: files named by a top-level output were reclaimed", len(keptPaths), want))
		}
	}
	if d.Retain != "" && !d.TopOut {
		for _, rp := range retained {
			if msg := CheckFileIntact(rp); msg != "" {
				out = append(out, "reclaimed a file named by a retain declaration: "+msg)
			}
		}
	}
	var treePaths []string
	for p := range res.Tree {
		treePaths = append(treePaths, p)
	}
	sort.Strings(treePaths)
	for _, p := range treePaths {
		rel := strings.TrimPrefix(p, res.PsPath)
		if strings.Contains(rel, "/tmp/") {
			out = append(out, "temporary file survives the completed run: "+rel)
		}
		if (d.Prod == "splitw" || d.Prod == "splitn") && strings.Contains(rel, "/chnk") && strings.Contains(rel, "/files/") {
			out = append(out, "chunk-level file of a splitting stage survives: "+rel)
		}
	}
	if producerVolatile(d) == "yes" {
		keep := append(append([]string{}, keptPaths...), retained...)
		// files moved to outs/ keep their content; the originals are gone.
		for _, p := range treePaths {
			if !underAny(p, forkDirs) {
				continue
			}
			rel := strings.TrimPrefix(p, res.PsPath)
			if !strings.Contains(rel, "/files/") && !strings.HasSuffix(filepath.Dir(rel), "/files") {
				continue // metadata
			}
			if underAny(p, keep) {
				continue
			}
			// resolve symlinked locations (fork files -> chunk files)
			if rp, err := filepath.EvalSymlinks(p); err == nil {
				kept := false
				for _, k := range keep {
					if rk, err := filepath.EvalSymlinks(k); err == nil && (rp == rk || strings.HasPrefix(rp, rk+"/")) {
						kept = true
					}
				}
				if kept {
					continue
				}
			}
			out = append(out, "file written by a volatile stage survives although no top-level output or retain names it: "+rel)
		}
	}
	// every path listed in a kill report is gone
	var reports []string
	filepath.Walk(res.PsPath, func(p string, info os.FileInfo, err error) error {
		if err == nil && info.Name() == "_vdrkill" {
			reports = append(reports, p)
		}
		return nil
	})
	for _, rp := range reports {
		var rep core.VDRKillReport
		b, err := os.ReadFile(rp)
		if os.Getenv("VERIF_DEBUG") != "" {
			res.DebugNotes = append(res.DebugNotes, strings.TrimPrefix(rp, res.PsPath)+": "+strings.Join(strings.Fields(string(b)), " "))
		}
		if err != nil || json.Unmarshal(b, &rep) != nil {
			out = append(out, "unreadable kill report "+strings.TrimPrefix(rp, res.PsPath))
			continue
		}
		for _, p := range rep.Paths {
			if _, err := os.Lstat(p); err == nil {
				out = append(out, "path listed in kill report "+strings.TrimPrefix(rp, res.PsPath)+" still exists: "+strings.TrimPrefix(p, res.PsPath))
			}
		}
	}
	// accounting: the pipestance-level report against what was removed.
	// The report counts the entries of the trees it walked, directories
	// included, but not the per-job tmp directory nodes themselves; which
	// directory nodes count is an implementation choice, so the decided
	// bounds are: at least every regular file (and its bytes), at most
	// every entry (files + directories) that VDR removed.
	if res.VdrReport != nil {
		var cnt, dirs int
		var size, dirsz int64
		for _, rm := range res.Removed {
			cnt += rm.Count
			size += rm.Size
			dirs += rm.Dirs
			dirsz += rm.DirSz
		}
		rc, rs := int(res.VdrReport.Count), int64(res.VdrReport.Size)
		if rc < cnt || rs < size {
			out = append(out, fmt.Sprintf("kill report under-reports: it says %d entries / %d bytes, VDR removed %d files / %d bytes (plus %d directories)",
				rc, rs, cnt, size, dirs))
		} else if rc > cnt+dirs || rs > size+dirsz {
			out = append(out, fmt.Sprintf("kill report over-reports: it says %d entries / %d bytes, VDR removed only %d files + %d directories / %d + %d bytes",
				rc, rs, cnt, dirs, size, dirsz))
		}
		// every file VDR removed from a files directory is covered by a
		// path listed in the report
		for _, rm := range res.Removed {
			if !strings.Contains(rm.Path, "/files/") {
				continue
			}
			covered := false
			for _, p := range res.VdrReport.Paths {
				if p == rm.Path || strings.HasPrefix(rm.Path, p+"/") {
					covered = true
				}
			}
			if !covered && rm.Count > 0 {
				out = append(out, "VDR removed "+strings.TrimPrefix(rm.Path, res.PsPath)+" but no kill report lists it")
			}
		}
	}
	for _, e := range res.OutsideEffects {
		out = append(out, "file-system effect outside the pipestance directory: "+e)
	}
	return out
}

func fileSig(prop, v string) string {
	words := strings.Fields(v)
	for i, w := range words {
		if strings.HasPrefix(w, "ID.") || strings.ContainsAny(w, "{[\"/") || (len(w) > 0 && w[0] >= '0' && w[0] <= '9') {
			words[i] = "_"
		}
	}
	if len(words) > 9 {
		words = words[:9]
	}
	return prop + ":" + strings.Join(words, "_")
}

func evalFile(prop string, c FileCase) (viol []string, res *Result, note string) {
	p := progen.FileFlow(c.Params)
	if p == nil {
		return nil, nil, "inexpressible"
	}
	run := func() (*Result, []string) {
		var v []string
		if c.FailJob != "" {
			dir, err := os.MkdirTemp("/dev/shm", "psxf-")
			if err != nil {
				return &Result{Err: err.Error()}, nil
			}
			defer os.RemoveAll(dir)
			inc1 := Run(p, Schedule{}, Options{VdrMode: c.Params.Mode, MrpPid: 6161, PsDir: dir, Fault: &Fault{Job: c.FailJob, Kind: "errors-early", Times: 1}})
			if strings.HasPrefix(inc1.Err, "invoke:") || inc1.State != "failed" {
				inc1.Err = "invoke: the fault site was not reached"
				return inc1, nil
			}
			r := Run(p, Schedule{}, Options{VdrMode: c.Params.Mode, MrpPid: 6262, PsDir: dir, Resume: true, Inspect: func(r *Result) {
				if strings.HasPrefix(r.Err, "invoke:") {
					return
				}
				// the removals of both incarnations count
				r.Removed = append(append([]Removal{}, inc1.Removed...), r.Removed...)
				r.FileProblems = append(append([]string{}, inc1.FileProblems...), r.FileProblems...)
				r.OutsideEffects = append(append([]string{}, inc1.OutsideEffects...), r.OutsideEffects...)
				for k, n := range inc1.Written {
					if _, ok := r.Written[k]; !ok {
						if r.Written == nil {
							r.Written = map[string]int64{}
						}
						r.Written[k] = n
					}
				}
				v = fileOracle(prop, c.Params, r)
			}})
			if strings.HasPrefix(r.Err, "invoke:") {
				return r, nil
			}
			for i := range v {
				v[i] = strings.ReplaceAll(v[i], dir, "<scratch>")
			}
			r.Dir = dir
			return r, v
		}
		if c.CrashAt > 0 {
			c.keptExpect = -1
			if c.KeptExpect > 0 {
				c.keptExpect = c.KeptExpect
			}
			// interruption at effect CrashAt, stale lock removed, restart;
			// the oracle looks at the restarted run (accounting across a
			// kill is not decided: the report of the dead process is lost)
			dir, err := os.MkdirTemp("/dev/shm", "psxf-")
			if err != nil {
				return &Result{Err: err.Error()}, nil
			}
			defer os.RemoveAll(dir)
			inc1 := Run(p, Schedule{}, Options{VdrMode: c.Params.Mode, MrpPid: 6161, PsDir: dir, CrashAt: c.CrashAt})
			if strings.HasPrefix(inc1.Err, "invoke:") || !inc1.Crashed {
				inc1.Err = "invoke: no crash"
				return inc1, nil
			}
			os.Remove(filepath.Join(dir, "ps", "_lock"))
			r := Run(p, Schedule{}, Options{VdrMode: c.Params.Mode, MrpPid: 6262, PsDir: dir, Resume: true, Inspect: func(r *Result) {
				if r.Err != "" && strings.Contains(r.Err, "_timestamp") || strings.HasPrefix(r.Err, "invoke:") {
					// killed while the pipestance was being created (C05's known finding)
					r.Err = "invoke: restart refused during creation"
					return
				}
				r.VdrReport = nil
				keptExpect = c.keptExpect
				defer func() { keptExpect = -1 }()
				r.FileProblems = append(append([]string{}, inc1.FileProblems...), r.FileProblems...)
				r.OutsideEffects = append(append([]string{}, inc1.OutsideEffects...), r.OutsideEffects...)
				v = fileOracle(prop, c.Params, r)
				if os.Getenv("VERIF_DEBUG") != "" {
					for _, e := range inc1.EffectLog[max(0, len(inc1.EffectLog)-400):] {
						r.DebugNotes = append(r.DebugNotes, "inc1: "+e)
					}
					for _, e := range r.EffectLog {
						r.DebugNotes = append(r.DebugNotes, "inc2: "+e)
					}
					r.DebugNotes = append(r.DebugNotes, "outs after restart: "+r.TopOutsText)
					r.DebugNotes = append(r.DebugNotes, "outs before post-processing: "+r.TopOutsPre)
					filepath.Walk(filepath.Join(dir, "ps", "TOP", "FILEW"), func(p string, info os.FileInfo, err error) error {
						if err == nil {
							r.DebugNotes = append(r.DebugNotes, "tree: "+strings.TrimPrefix(p, dir)+" "+info.Mode().String())
						}
						return nil
					})
				}
				if n := len(inc1.EffectLog); n > 0 {
					r.DebugNotes = append(r.DebugNotes, "died at "+inc1.EffectLog[n-1])
				}
			}})
			if strings.HasPrefix(r.Err, "invoke:") {
				return r, nil
			}
			for i := range v {
				v[i] = strings.ReplaceAll(v[i], dir, "<scratch>")
			}
			r.Dir = dir
			return r, v
		}
		r := Run(p, c.Schedule, Options{VdrMode: c.Params.Mode, MrpPid: 6161, SymlinkParent: c.Params.Phys, Inspect: func(r *Result) {
			if !strings.HasPrefix(r.Err, "invoke:") {
				v = fileOracle(prop, c.Params, r)
			}
		}})
		if strings.HasPrefix(r.Err, "invoke:") {
			return r, nil
		}
		return r, v
	}
	res, viol = run()
	if strings.HasPrefix(res.Err, "invoke:") {
		return nil, res, "rejected: " + res.Err
	}
	if len(viol) > 0 {
		norm := func(v []string, r *Result) string {
			return strings.ReplaceAll(strings.Join(v, "\n"), r.Dir, "<scratch>")
		}
		res2, v2 := run()
		if norm(v2, res2) != norm(viol, res) {
			return nil, res, "nonreproducible: " + viol[0]
		}
		for i := range viol {
			viol[i] = strings.ReplaceAll(viol[i], res.Dir, "<scratch>")
		}
	}
	return viol, res, ""
}

// FileCheck is the main of C04 and C14.
func FileCheck(prop string) {
	r := ev.New(prop, "exploration")
	r.SetBudget(200*time.Second, 25*time.Minute)
	core.VerifQuiet()
	if r.ReplayPath != "" {
		var c FileCase
		if err := ev.LoadReplay(r.ReplayPath, &c); err != nil {
			fmt.Println("cannot load replay:", err)
			os.Exit(2)
		}
		viol, res, note := evalFile(prop, c)
		r.Eval("replay")
		r.Sample(c)
		fmt.Println("note:", note)
		if res != nil && os.Getenv("VERIF_DEBUG") != "" {
			for _, e := range res.EffectLog {
				if strings.Contains(e, "storage.go") || strings.Contains(e, "stagefile") {
					fmt.Println("  ", e)
				}
			}
			fmt.Println("go points:", res.GoPoints)
			for _, rm := range res.Removed {
				fmt.Printf("   removed iter=%d files=%d bytes=%d dirs=%d %s @%s\n", rm.Iter, rm.Count, rm.Size, rm.Dirs, strings.TrimPrefix(rm.Path, res.PsPath), rm.Site)
			}
			if res.VdrReport != nil {
				fmt.Printf("   final report: count=%d size=%d paths=%d\n", res.VdrReport.Count, res.VdrReport.Size, len(res.VdrReport.Paths))
			}
			for _, l := range res.DebugNotes {
				fmt.Println("   ", l)
			}
		}
		for _, v := range viol {
			r.Report(ev.Finding{Sig: fileSig(prop, v), What: v, Case: c})
		}
		r.Finish()
	}
	maxDev := 2
	if r.Thorough() {
		maxDev = 3
	}
	fam := progen.FileFamily(maxDev)
	// programs with fewer deviating dimensions get the schedule deviations;
	// the outermost ring runs under the default schedule only
	fullSched := map[string]bool{}
	for _, d := range progen.FileFamily(maxDev - 1) {
		fullSched[d.String()] = true
	}
	if !ev.IsWorker() {
		r.Rule = fmt.Sprintf("every vector of the file-flow family with at most %d of 11 shape dimensions off their base value (which producer output carries the file: "+
			"filetype/file/array/typed map/struct/struct array/map of structs/string/untyped map/path; projection through the struct field; split producer; producer or consumer inside a sub-pipeline; "+
			"mapped consumer; mapped producer; a second late consumer; retain at stage or pipeline; file returned by the top-level pipeline; a second file output of the same producer bound to the same consumer and returned as well) x all volatile annotations {call volatile, none, stage strict, stage false} "+
			"x all VDR modes {rolling, post, strict}; each program runs on the real runtime with model jobs that write real files and verify every file named in their arguments; "+
			"schedules: default for all; for the vectors with at most %d dimensions off base additionally each job held until quiescence, each job start-only, each VDR goroutine (doJoin/doComplete) deferred by 0, 1 or 3 loop iterations. "+
			"In addition, for %d shapes (file / file array x plain / split producer x rolling / strict x late second consumer x top-level output) mrp is killed at EVERY file-system effect of the run (VDR's own removals and reports included), the stale lock is removed and the pipestance restarted: consumers must still find their files, final outputs and retained files must be intact (C04), and what may be reclaimed is reclaimed with every path listed in a kill report gone (C14; byte accounting across a kill is not decided). "+
			"distinct = distinct (program, schedule / crash point); non-trivial = VDR removed at least one path", maxDev, maxDev-1, len(progen.FileCrashShapes(r.Thorough())))
		r.Set("programs_in_family", len(fam))
		r.RunWorkers(0)
		r.Assume("VDR goroutine bodies are atomic with respect to the scheduler loop (they are deferred as a whole, not interleaved statement by statement); a free-running -race pass is separate")
		r.Assume("stages write the files their outputs name under their own files directory (Martian's contract)")
		r.Finish()
	}
	order := r.Rotate(len(fam))
	for wi, idx := range order {
		if !r.Mine(wi) {
			continue
		}
		if r.Expired("program enumeration") {
			break
		}
		d := fam[idx]
		base := FileCase{Params: d}
		viol, res, note := evalFile(prop, base)
		if note != "" {
			r.Outcome(strings.SplitN(note, ":", 2)[0])
			if strings.HasPrefix(note, "rejected") {
				r.Add("programs_rejected", 1)
				if os.Getenv("VERIF_DEBUG") != "" {
					fmt.Fprintln(os.Stderr, d.String(), note)
				}
			}
			if strings.HasPrefix(note, "nonreproducible") {
				r.Inconclusive(d.String() + ": " + note)
			}
			continue
		}
		r.Add("programs_run", 1)
		count := func(s Schedule, rr *Result) {
			if rr != nil && len(rr.Removed) > 0 {
				r.Eval(d.String() + "|" + s.String())
			} else {
				r.Eval("")
			}
		}
		count(base.Schedule, res)
		report := func(c FileCase, viol []string) {
			c.Program = progen.FileFlow(c.Params).MRO()
			for _, v := range viol {
				r.Report(ev.Finding{Sig: fileSig(prop, v), What: d.String() + " schedule " + c.Schedule.String() + ": " + v, Case: c})
			}
		}
		if len(viol) > 0 {
			r.Outcome("violation")
			report(base, viol)
			continue
		}
		r.Outcome(fmt.Sprintf("ok:removed=%d", min(len(res.Removed), 9)))
		if wi%173 == 0 {
			var rm []string
			for _, x := range res.Removed {
				rm = append(rm, strings.TrimPrefix(x.Path, res.PsPath))
			}
			r.Sample(map[string]interface{}{"program": d.String(), "jobs": len(res.Jobs), "vdr_removed": rm,
				"files_written": len(res.Written), "go_points": res.GoPoints})
		}
		var keys []string
		seen := map[string]bool{}
		for _, j := range res.Jobs {
			if !seen[j.Key] {
				seen[j.Key] = true
				keys = append(keys, j.Key)
			}
		}
		sort.Strings(keys)
		var scheds []Schedule
		if !fullSched[d.String()] {
			continue
		}
		for _, k := range keys {
			scheds = append(scheds, Schedule{Delay: []string{k}}, Schedule{StartOnly: map[string]bool{k: true}})
		}
		for i, site := range res.GoPoints {
			if !strings.Contains(site, "stage.go") || strings.Contains(site, "doChunks") {
				continue
			}
			for _, after := range []int{0, 1, 3} {
				scheds = append(scheds, Schedule{GoDefer: map[int]int{i: after}})
			}
		}
		for _, s := range scheds {
			if r.Expired("schedule enumeration") {
				break
			}
			c := FileCase{Params: d, Schedule: s}
			viol, res2, note := evalFile(prop, c)
			count(s, res2)
			if note != "" {
				r.Outcome("dev-" + strings.SplitN(note, ":", 2)[0])
				if strings.HasPrefix(note, "nonreproducible") {
					r.Inconclusive(d.String() + " " + s.String() + ": " + note)
				}
				continue
			}
			if len(viol) > 0 {
				r.Outcome("violation")
				report(c, viol)
				continue
			}
			r.Outcome("ok-dev")
		}
	}
	// interruption and restart with VDR at work: for the crash shapes, mrp is
	// killed at EVERY file-system effect and restarted
	shapes := progen.FileCrashShapes(r.Thorough())
	type citem struct {
		d    progen.FileParams
		n    int
		kept int
	}
	var citems []citem
	for _, d := range shapes {
		p := progen.FileFlow(d)
		if p == nil {
			continue
		}
		base := Run(p, Schedule{}, Options{VdrMode: d.Mode, MrpPid: 6161})
		if base.Err != "" || base.State != "complete" {
			continue
		}
		kept := 0
		if base.TopOuts != nil && base.TopOuts.K == progen.VObj {
			kept = len(pathsIn(base.TopOuts.O["kept"], nil))
		}
		for n := 1; n <= base.Effects; n++ {
			citems = append(citems, citem{d, n, kept})
		}
	}
	for wi := range citems {
		if !r.Mine(wi) {
			continue
		}
		if r.Expired("crash point enumeration") {
			break
		}
		it := citems[wi]
		c := FileCase{Params: it.d, CrashAt: it.n, KeptExpect: it.kept}
		viol, res, note := evalFile(prop, c)
		if note != "" {
			r.Eval("")
			r.Outcome("crash-" + strings.SplitN(note, ":", 2)[0])
			if strings.HasPrefix(note, "nonreproducible") {
				r.Inconclusive(fmt.Sprintf("%s crash at %d: %s", it.d.String(), it.n, note))
			}
			continue
		}
		r.Eval(fmt.Sprintf("%s|crash@%d", it.d.String(), it.n))
		r.Add("crash_restart_runs", 1)
		if len(viol) > 0 {
			r.Outcome("violation")
			c.Program = progen.FileFlow(c.Params).MRO()
			died := ""
			if res != nil && len(res.DebugNotes) > 0 {
				died = " (" + res.DebugNotes[len(res.DebugNotes)-1] + ")"
			}
			for _, v := range viol {
				r.Report(ev.Finding{Sig: fileSig(prop, "after-restart: "+v), What: fmt.Sprintf("%s killed at effect %d%s and restarted: %s", it.d.String(), it.n, died, v), Case: c})
			}
			continue
		}
		r.Outcome("crash-restart-ok")
	}
	// a job fails, mrp ends failed and is restarted: for the crash shapes and
	// every job as the failing one
	type fitem struct {
		d   progen.FileParams
		job string
	}
	var fitems []fitem
	for _, d := range shapes {
		p := progen.FileFlow(d)
		if p == nil {
			continue
		}
		base := Run(p, Schedule{}, Options{VdrMode: d.Mode, MrpPid: 6161})
		if base.Err != "" || base.State != "complete" {
			continue
		}
		seen := map[string]bool{}
		for _, j := range base.Jobs {
			if !seen[j.Key] {
				seen[j.Key] = true
				fitems = append(fitems, fitem{d, j.Key})
			}
		}
	}
	for wi, it := range fitems {
		if !r.Mine(wi) {
			continue
		}
		if r.Expired("fail-and-restart enumeration") {
			break
		}
		c := FileCase{Params: it.d, FailJob: it.job}
		viol, _, note := evalFile(prop, c)
		if note != "" {
			r.Eval("")
			r.Outcome("failrestart-" + strings.SplitN(note, ":", 2)[0])
			if strings.HasPrefix(note, "nonreproducible") {
				r.Inconclusive(fmt.Sprintf("%s fail %s and restart: %s", it.d.String(), it.job, note))
			}
			continue
		}
		r.Eval(fmt.Sprintf("%s|fail@%s", it.d.String(), it.job))
		r.Add("fail_restart_runs", 1)
		if len(viol) > 0 {
			r.Outcome("violation")
			c.Program = progen.FileFlow(c.Params).MRO()
			for _, v := range viol {
				r.Report(ev.Finding{Sig: fileSig(prop, "after-failure-and-restart: "+v), What: fmt.Sprintf("%s, job %s failed once, mrp restarted: %s", it.d.String(), it.job, v), Case: c})
			}
			continue
		}
		r.Outcome("fail-restart-ok")
	}
	r.Done()
}
