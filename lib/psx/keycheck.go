//go:build verif

package psx

import (
	"fmt"
	"os"
	"path"
	"regexp"
	"sort"
	"strings"
	"time"

	"github.com/martian-lang/martian/martian/core"

	"verif/lib/ev"
	"verif/lib/progen"
)

// KeyCase is the replayable unit of C11: either a program of the key family
// or one key of the unit-level enumeration.
type KeyCase struct {
	Params *progen.KeyParams `json:"params,omitempty"`
	// Zombie: the job (key) whose first attempt dies, is retried, and then
	// turns out to be still alive (attempt phase)
	Zombie string  `json:"zombie,omitempty"`
	Key    *string `json:"key,omitempty"`
	Key2   *string `json:"key2,omitempty"`
}

// keyAtoms is the alphabet of the unit-level key enumeration: every key is a
// concatenation of at most keyDepth atoms.
var keyAtoms = []string{"a", ".", "/", "%", "2E", "2F", "25", " ", "ü", "_", "fork", "0", "chnk1", "u0123456789", "complete", "-", "A", "\n"}

func enumKeys(depth int) []string {
	seen := map[string]bool{}
	var out []string
	add := func(k string) {
		if !seen[k] {
			seen[k] = true
			out = append(out, k)
		}
	}
	add("")
	level := []string{""}
	for d := 0; d < depth; d++ {
		var next []string
		for _, p := range level {
			for _, a := range keyAtoms {
				k := p + a
				next = append(next, k)
				add(k)
			}
		}
		level = next
	}
	for _, ks := range progen.KeySets {
		for _, k := range ks {
			add(k)
		}
	}
	return out
}

// unitKey checks the encodings of one key; dirs and jnames accumulate the
// images for the injectivity check.
func unitKey(k string, dirs, jnames map[string]string) []string {
	var out []string
	d := core.VerifMapForkString(k)
	j := core.VerifEncodeJournalName(d)
	if strings.ContainsAny(d, "/\x00") || d == "" || d == "." || d == ".." {
		out = append(out, fmt.Sprintf("the fork directory name %q of key %q is not a single legal path component", d, k))
	}
	if strings.ContainsAny(j, "./\x00") {
		out = append(out, fmt.Sprintf("the journal form %q of key %q contains '.' or '/'", j, k))
	}
	if prev, dup := dirs[d]; dup && prev != k {
		out = append(out, fmt.Sprintf("keys %q and %q share the fork directory name %q", prev, k, d))
	}
	dirs[d] = k
	if prev, dup := jnames[j]; dup && prev != k {
		out = append(out, fmt.Sprintf("keys %q and %q share the journal name %q", prev, k, j))
	}
	jnames[j] = k
	// journal file names as the run time builds them, parsed back
	ids := []string{d, "fork3/" + d, d + "/fork0", d + "/fork_b%2Fc", "fork12_fork0/" + d}
	for _, fq := range []string{"TOP.S", "TOP.fork1.S", "TOP.SUB.fork_x.chnk0"} {
		for _, id := range ids {
			enc := core.VerifEncodeJournalName(id)
			for _, chunk := range []int{-1, 0, 12} {
				for _, uniq := range []string{"", "0123456789"} {
					for _, state := range []string{"complete", "split_complete", "join_errors", "progress"} {
						if chunk >= 0 && strings.Contains(state, "_") {
							continue
						}
						name := fq + "." + enc
						if chunk >= 0 {
							name += fmt.Sprintf(".chnk%d", chunk)
						}
						if uniq != "" {
							name += ".u" + uniq
						}
						name += "." + state
						gfq, gfork, gchunk, guniq, gstate := core.VerifParseRunFilename(name)
						if gfq != fq || gfork != strings.TrimPrefix(enc, "fork") || gchunk != chunk || guniq != uniq || gstate != state {
							out = append(out, fmt.Sprintf("journal file %q (call %s fork %s chunk %d attempt %q notification %s) is parsed as call %q fork %q chunk %d attempt %q notification %q",
								name, fq, enc, chunk, uniq, state, gfq, gfork, gchunk, guniq, gstate))
							return out
						}
					}
				}
			}
		}
	}
	return out
}

func keySig(v string) string {
	if strings.Contains(v, "circular fork sources") {
		return "C11:nest:split-over-mapped-output:circular-fork-sources"
	}
	if strings.Contains(v, "panic: invalid type for merge") {
		return "C11:nest:split-over-mapped-output:panic-invalid-type-for-merge"
	}
	words := strings.Fields(v)
	for i, w := range words {
		if strings.ContainsAny(w, "/{[\"%0123456789") || strings.HasPrefix(w, "ID.") {
			words[i] = "_"
		}
	}
	if len(words) > 9 {
		words = words[:9]
	}
	return "C11:" + strings.Join(words, "_")
}

// routeOracle runs the notification routing probe on a finished pipestance.
func routeOracle(res *Result) (viol []string, probes int) {
	h := res.H
	if h == nil || h.Ps == nil {
		return []string{"no pipestance to probe"}, 0
	}
	mds := h.VerifMetadatas()
	describe := func(i int) string {
		m := mds[i]
		s := fmt.Sprintf("%s of %s %s", m.Kind, strings.TrimPrefix(m.Call, "ID.ps."), m.ForkId)
		if m.Chunk >= 0 {
			s += fmt.Sprintf(" chunk %d", m.Chunk)
		}
		return s
	}
	// fork directories: distinct and present
	seenDir := map[string]int{}
	for i, m := range mds {
		if m.Kind != "fork" {
			continue
		}
		if j, dup := seenDir[m.Path]; dup {
			viol = append(viol, fmt.Sprintf("%s and %s share the directory %s", describe(j), describe(i), strings.TrimPrefix(m.Path, res.PsPath)))
		}
		seenDir[m.Path] = i
	}
	seenRun := map[string]int{}
	for i, m := range mds {
		if m.RunFile == "" {
			continue
		}
		key := path.Base(m.RunFile) + "." + m.Prefix
		if j, dup := seenRun[key]; dup {
			viol = append(viol, fmt.Sprintf("%s and %s share the journal name %s", describe(j), describe(i), key))
		}
		seenRun[key] = i
	}
	for i, m := range mds {
		if m.RunFile == "" || m.ForkId == "" {
			// a fork without an id stands for "no element at all" (every
			// inner collection empty): it is disabled and never runs a job
			continue
		}
		base := path.Base(m.RunFile)
		for _, name := range []string{"complete", "errors", "progress"} {
			got, err := h.VerifProbeRoute(mds, base, m.Prefix, name)
			probes++
			if err != nil {
				viol = append(viol, fmt.Sprintf("cannot write the journal file of %s: %v", describe(i), err))
				break
			}
			if len(got) != 1 || got[0] != i {
				var who []string
				for _, g := range got {
					who = append(who, describe(g))
				}
				if len(who) == 0 {
					who = []string{"nobody"}
				}
				viol = append(viol, fmt.Sprintf("notification %s written by the %s (journal file %s.%s%s) was attributed to %s",
					name, describe(i), base, m.Prefix, name, strings.Join(who, " and ")))
				break
			}
		}
		if m.Uniq != "" {
			stale := strings.TrimSuffix(base, ".u"+m.Uniq) + ".uffffffffff"
			got, _ := h.VerifProbeRoute(mds, stale, m.Prefix, "complete")
			probes++
			if len(got) != 0 {
				viol = append(viol, fmt.Sprintf("a completion written by another attempt (uffffffffff) of the %s was attributed to %s", describe(i), describe(got[0])))
			}
		}
		if len(viol) > 6 {
			break
		}
	}
	return viol, probes
}

func evalKeys(d progen.KeyParams) (viol []string, res *Result, probes int, note string) {
	p := progen.KeyFlow(d)
	if p == nil {
		return nil, nil, 0, "inexpressible"
	}
	ref, err := progen.Interpret(p)
	if err != nil {
		return nil, nil, 0, "reference: " + err.Error()
	}
	if len(ref.Unspecified) > 0 {
		return nil, nil, 0, "unspecified: " + ref.Unspecified[0]
	}
	run := func() (*Result, []string, int) {
		var v []string
		n := 0
		r := Run(p, Schedule{}, Options{MrpPid: 7171, Inspect: func(r *Result) {
			if strings.HasPrefix(r.Err, "invoke:") {
				return
			}
			if r.Err != "" {
				v = append(v, "run error: "+firstLine(r.Err))
				return
			}
			if r.State != "complete" {
				msg := "pipestance ended " + r.State + ": " + r.FatalFq + ": " + firstLine(r.FatalLog)
				if strings.Contains(r.FatalLog, "circular fork sources") {
					msg += " [circular fork sources]"
				}
				v = append(v, msg)
				return
			}
			v = append(v, CheckDataflow(ref, r)...)
			v = append(v, CheckExactlyOnce(ref, r)...)
			rv, np := routeOracle(r)
			n = np
			v = append(v, rv...)
			for i := range v {
				v[i] = strings.ReplaceAll(v[i], r.Dir, "<scratch>")
			}
		}})
		return r, v, n
	}
	res, viol, probes = run()
	if strings.HasPrefix(res.Err, "invoke:") {
		return nil, res, 0, "rejected: " + firstLine(res.Err)
	}
	if len(viol) > 0 {
		_, v2, _ := run()
		if strings.Join(v2, "\n") != strings.Join(viol, "\n") {
			return nil, res, probes, "nonreproducible: " + viol[0]
		}
	}
	return viol, res, probes, ""
}

// evalAttempts: the first attempt of job dies from a signal (a transient
// failure), mrp restarts automatically, and once the second attempt has
// started the first one - still alive - completes with stale outputs in its
// own directory and under its own journal name.  "Every notification is
// attributed to exactly the ... attempt that wrote it": the two attempts have
// distinct directories, the stale completion changes nothing, the pipestance
// completes with the denoted values and only the dead job ran twice.
func evalAttempts(d progen.KeyParams, job string) (viol []string, note string) {
	viol, note = evalAttemptsWait(d, job, false)
	if len(viol) == 0 && note == "" {
		// the same with --retry-wait=0: the restart happens within the
		// second in which the failed attempt was set up
		v2, n2 := evalAttemptsWait(d, job, true)
		for _, v := range v2 {
			viol = append(viol, "with --retry-wait=0: "+v)
		}
		if n2 != "" && n2 != "inexpressible" && n2 != "unspecified" {
			note = n2
		}
	}
	return viol, note
}

func evalAttemptsWait(d progen.KeyParams, job string, noWait bool) (viol []string, note string) {
	p := progen.KeyFlow(d)
	if p == nil {
		return nil, "inexpressible"
	}
	ref, err := progen.Interpret(p)
	if err != nil || len(ref.Unspecified) > 0 {
		return nil, "unspecified"
	}
	run := func() []string {
		var v []string
		Run(p, Schedule{}, Options{MrpPid: 7171, Retries: 1, Zombie: true, NoRetryWait: noWait,
			Fault: &Fault{Job: job, Kind: "vanish", Times: 1}, Inspect: func(r *Result) {
				if r.Err != "" {
					v = append(v, "run error: "+firstLine(r.Err))
					return
				}
				if os.Getenv("VERIF_DEBUG") != "" {
					fmt.Println(p.MRO())
					for _, e := range r.Events {
						fmt.Printf("  ev %d %s %s %s\n", e.Iter, e.Kind, e.Job, e.Info)
					}
					fmt.Println("state", r.State, "stalled", r.Stalled, "iter", r.Iter, "nodes", r.NodeStates)
				}
				v = append(v, r.ZombieProblems...)
				if r.Retried != 1 || r.Zombies != 1 {
					v = append(v, fmt.Sprintf("harness: %d automatic restart(s), %d stale completion(s), expected 1 and 1", r.Retried, r.Zombies))
					return
				}
				if r.State != "complete" {
					v = append(v, "pipestance ended "+r.State+" after the automatic restart: "+r.FatalFq+": "+firstLine(r.FatalLog))
					return
				}
				if r.TopOuts == nil {
					v = append(v, "no readable outputs after the automatic restart")
				} else if df := progen.EqSlack(ref.TopOuts, r.TopOuts, "outs"); df != "" {
					v = append(v, "a stale completion of the replaced attempt changed the result: "+df)
				}
				attempts := map[string]int{}
				for _, j := range r.Jobs {
					attempts[j.Key]++
				}
				for k, n := range attempts {
					want := 1
					if k == job {
						want = 2
					}
					if n != want {
						v = append(v, fmt.Sprintf("job %s was executed %d time(s), expected %d (the first attempt of %s died and came back)", k, n, want, job))
					}
				}
				sort.Strings(v)
				for i := range v {
					v[i] = uniqRe.ReplaceAllString(strings.ReplaceAll(v[i], r.Dir, "<scratch>"), "-u<uniq>")
				}
			}})
		return v
	}
	viol = run()
	if len(viol) > 0 {
		if v2 := run(); strings.Join(v2, "\n") != strings.Join(viol, "\n") {
			return nil, "nonreproducible: " + viol[0]
		}
	}
	return viol, ""
}

var uniqRe = regexp.MustCompile(`-u[0-9a-f]{10}`)

// attemptSig: signature of an attempt-phase violation.  A literal null
// element of an array of collections gets a fork of its own (the known
// defect nest:literal-null-element-runs-a-job); the ids of the forks of such a
// call are not the same after a re-attach, so a restart stalls.
func attemptSig(d progen.KeyParams, v string) string {
	if d.Ragged != "" && !d.OuterDyn && progen.RaggedHasNull(d.OuterSel) &&
		(strings.Contains(v, "pipestance ended running after the automatic restart") || strings.Contains(v, "job(s) executed") || strings.Contains(v, "was executed")) {
		return "C11:attempt:nest:literal-null-element:fork-ids-change-on-restart"
	}
	return "C11:attempt:" + strings.TrimPrefix(keySig(v), "C11:")
}

// KeyCheck is the main of C11.
func KeyCheck() {
	r := ev.New("C11", "exploration")
	r.SetBudget(260*time.Second, 25*time.Minute)
	core.VerifQuiet()
	if r.ReplayPath != "" {
		var c KeyCase
		if err := ev.LoadReplay(r.ReplayPath, &c); err != nil {
			fmt.Println(err)
			os.Exit(2)
		}
		r.Eval("replay")
		r.Sample(c)
		var viol []string
		if c.Params != nil && c.Zombie != "" {
			v, note := evalAttempts(*c.Params, c.Zombie)
			viol = v
			fmt.Println("note:", note)
		} else if c.Params != nil {
			v, res, _, note := evalKeys(*c.Params)
			viol = v
			fmt.Println("note:", note)
			if res != nil && os.Getenv("VERIF_DEBUG") != "" {
				fmt.Println("outs:", res.TopOutsText)
			}
		} else if c.Key != nil {
			dirs, jn := map[string]string{}, map[string]string{}
			if c.Key2 != nil {
				unitKey(*c.Key2, dirs, jn)
			}
			viol = unitKey(*c.Key, dirs, jn)
		}
		for _, v := range viol {
			sg := keySig(v)
			if c.Params != nil && literalNullJob(*c.Params, v) {
				sg = "C11:nest:literal-null-element-runs-a-job"
			}
			if c.Params != nil && c.Zombie != "" {
				sg = attemptSig(*c.Params, v)
			}
			if c.Params != nil && c.Params.Mix != "" {
				sg = "C11:nest:literal-collection-of-run-time-arrays-of-different-lengths"
			}
			r.Report(ev.Finding{Sig: sg, What: v, Case: c})
		}
		r.Finish()
	}
	depth := 3
	if r.Thorough() {
		depth = 4
	}
	fam := progen.KeyFamily(r.Thorough())
	if !ev.IsWorker() {
		// unit level: exhaustive over the key alphabet
		keys := enumKeys(depth)
		dirs, jn := map[string]string{}, map[string]string{}
		parses := 0
		for _, k := range keys {
			k := k
			v := unitKey(k, dirs, jn)
			r.Eval("key:" + k)
			parses += 5 * 3 * 14
			for _, msg := range v {
				c := KeyCase{Key: &k}
				if strings.Contains(msg, " share the ") {
					if prev, ok := dirs[core.VerifMapForkString(k)]; ok && prev != k {
						c.Key2 = &prev
					}
				}
				r.Report(ev.Finding{Sig: keySig(msg), What: msg, Case: c})
			}
		}
		r.Set("unit_keys", len(keys))
		r.Set("unit_journal_names_parsed", parses)
		r.Rule = fmt.Sprintf("(a) unit level, on the real encoders and the real journal-name parser: every key that is a concatenation of at most %d atoms of %q plus the keys of the adversarial sets (%d keys): "+
			"fork directory name is one legal path component, journal form holds no '.' or '/', both encodings injective over the whole set, and every journal file name built from "+
			"3 call names (including calls named fork1 / fork_x / chnk0) x 5 fork-id shapes (alone, nested under and over array and map forks) x chunk {none,0,12} x attempt {none,u0123456789} x 4 notifications parses back to exactly its components; "+
			"(b) end to end on the real runtime: %d programs nesting 1-2 mapped calls over literal or run-time arrays (lengths crossing decimal widths) and typed maps with %d adversarial key sets plus every unordered pair of the keys of one or two atoms of %q (%d run-time key sets), "+
			"non-split and split leaves (2 and 11 chunks); each must complete, deliver the denoted arguments to every job, run every fork exactly once, return maps with exactly the keys; fork directories and journal names pairwise distinct; "+
			"then for EVERY split/join/chunk metadata object of the finished pipestance and each of {complete, errors, progress} the journal file its job would write is written and consumed by the real refresh: exactly that object must be notified; a file of another attempt must notify nobody",
			depth, keyAtoms, len(keys), len(fam), len(progen.KeySets), progen.PairAtoms, progen.PairSetCount())
		r.Set("programs_in_family", len(fam))
		r.RunWorkers(0)
		r.Assume("jobs write journal files as mrjob does: <journal dir>/<base of the run file argument>.<phase prefix><name>")
		r.Finish()
	}
	order := r.Rotate(len(fam))
	for wi, idx := range order {
		if !r.Mine(wi) {
			continue
		}
		if r.Expired("program enumeration") {
			break
		}
		d := fam[idx]
		viol, res, probes, note := evalKeys(d)
		r.Add("routing_probes", int64(probes))
		if note != "" {
			r.Eval("")
			r.Outcome(strings.SplitN(note, ":", 2)[0])
			if strings.HasPrefix(note, "nonreproducible") {
				r.Inconclusive(d.String() + ": " + note)
			}
			if os.Getenv("VERIF_DEBUG") != "" {
				fmt.Fprintln(os.Stderr, d.String(), note)
			}
			continue
		}
		r.Eval(d.String())
		if len(viol) == 0 && res != nil {
			// attempt phase: the first, a middle and the last job of the run
			// (thorough: every job)
			var jobKeys []string
			seenKey := map[string]bool{}
			for _, j := range res.Jobs {
				if !seenKey[j.Key] {
					seenKey[j.Key] = true
					jobKeys = append(jobKeys, j.Key)
				}
			}
			if !r.Thorough() && len(jobKeys) > 3 {
				jobKeys = []string{jobKeys[0], jobKeys[len(jobKeys)/2], jobKeys[len(jobKeys)-1]}
			}
			for _, jk := range jobKeys {
				if r.Expired("attempt phase") {
					break
				}
				av, anote := evalAttempts(d, jk)
				r.Eval(d.String() + " zombie " + jk)
				r.Add("attempt_cases", 1)
				if anote != "" {
					r.Outcome("attempt:" + strings.SplitN(anote, ":", 2)[0])
					if strings.HasPrefix(anote, "nonreproducible") {
						r.Inconclusive(d.String() + " zombie " + jk + ": " + anote)
					}
					continue
				}
				if len(av) == 0 {
					r.Outcome("attempt:ok")
				}
				for _, v := range av {
					d := d
					r.Outcome("attempt:violation")
					r.Report(ev.Finding{Sig: attemptSig(d, v), What: d.String() + " zombie " + jk + ": " + v, Case: KeyCase{Params: &d, Zombie: jk}})
				}
			}
		}
		if len(viol) == 0 {
			r.Outcome("ok")
			if wi%97 == 0 && res != nil {
				r.Sample(map[string]interface{}{"program": d.String(), "outs": ev.Short(res.TopOutsText, 400)})
			}
			continue
		}
		r.Outcome("violation")
		sort.Strings(viol)
		if os.Getenv("VERIF_DEBUG") != "" {
			fmt.Fprintln(os.Stderr, "VIOL", d.String(), ev.Short(viol[0], 160))
		}
		for _, v := range viol {
			d := d
			sg := keySig(v)
			if literalNullJob(d, v) {
				sg = "C11:nest:literal-null-element-runs-a-job"
			}
			if d.Mix != "" {
				sg = "C11:nest:literal-collection-of-run-time-arrays-of-different-lengths"
			}
			r.Report(ev.Finding{Sig: sg, What: d.String() + ": " + v, Case: KeyCase{Params: &d}})
		}
	}
	r.Done()
}
