//go:build verif

package psx

import (
	"fmt"
	"os"
	"sort"
	"strings"
	"time"

	"github.com/martian-lang/martian/martian/core"

	"verif/lib/ev"
	"verif/lib/progen"
)

// FaultCase is the replayable unit of C06.
type FaultCase struct {
	Shape    DfCase   `json:"shape"`
	Fault    Fault    `json:"fault"`
	Enforce  string   `json:"enforce"`
	Schedule Schedule `json:"schedule"`
	// Retries > 0: the run has mrp's automatic retry enabled (see evalRetry).
	Retries int `json:"retries,omitempty"`
}

var faultKinds = []string{"errors-early", "assert-early", "vanish", "exit1", "errors-late",
	"rm-outs", "trunc-outs", "missing-key", "wrong-type", "extra-key", "bad-stage-defs", "no-outs",
	"null-outs"}

// expectation: "fail" must end failed, "any" unspecified, "skip" not applicable
func faultExpectation(kind, phase string, split bool, enforce string, nouts int) string {
	stageLevel := (phase == "main" && !split) || phase == "join"
	switch kind {
	case "errors-early", "assert-early", "vanish", "exit1", "errors-late", "errors-nojournal":
		return "fail"
	case "null-outs":
		// "null" is not the declared shape of any stage's outputs
		if phase == "split" {
			return "fail" // _stage_defs = null
		}
		if nouts == 0 {
			return "any"
		}
		if stageLevel || enforce == "error" {
			return "fail"
		}
		return "any"
	case "bad-stage-defs":
		if phase == "split" {
			return "fail"
		}
		return "skip"
	case "trunc-outs":
		if phase == "split" {
			return "fail" // truncated _stage_defs
		}
		if nouts == 0 {
			return "any"
		}
		if stageLevel {
			return "fail"
		}
		// chunk of a split stage: read when collecting chunk outs
		return "fail"
	case "rm-outs":
		if phase == "split" || nouts == 0 {
			return "skip"
		}
		if stageLevel {
			return "fail"
		}
		return "fail"
	case "missing-key", "wrong-type":
		if phase == "split" || nouts == 0 {
			return "skip"
		}
		if stageLevel {
			return "fail"
		}
		if enforce == "error" {
			return "fail"
		}
		return "any"
	case "extra-key":
		if phase == "split" {
			return "skip"
		}
		if nouts == 0 {
			// a stage that declares no outputs: its _outs is never read;
			// whether an undeclared key there is an "ill-typed output"
			// is not decided by the statement
			return "any"
		}
		if enforce == "error" {
			return "fail"
		}
		return "any"
	case "no-outs":
		// a split that "succeeds" without _stage_defs is only failed by the
		// 60 minute heartbeat timeout, which the harness cannot reach
		return "any"
	}
	return "skip"
}

type faultOutcome struct {
	viol  []string
	class string
	res   *Result
	res2  *Result
}

func closureDependents(ref *progen.RefResult, failed string) map[string]bool {
	deps := map[string]map[string]bool{}
	for _, j := range ref.Jobs {
		if deps[j.Path] == nil {
			deps[j.Path] = map[string]bool{}
		}
		for d := range j.Deps {
			deps[j.Path][d] = true
		}
	}
	out := map[string]bool{}
	changed := true
	for changed {
		changed = false
		for p, ds := range deps {
			if out[p] {
				continue
			}
			for d := range ds {
				if d == failed || out[d] {
					out[p] = true
					changed = true
					break
				}
			}
		}
	}
	return out
}

func evalFault(c FaultCase, p *progen.Program, ref *progen.RefResult, expect string) faultOutcome {
	var out faultOutcome
	dir, err := os.MkdirTemp("/dev/shm", "psxf-")
	if err != nil {
		return out
	}
	defer os.RemoveAll(dir)
	f := c.Fault
	res := Run(p, c.Schedule, Options{PsDir: dir, Enforce: c.Enforce, Fault: &f, MrpPid: 5151})
	out.res = res
	res.FatalLog = strings.ReplaceAll(res.FatalLog, dir, "<scratch>")
	if res.Err != "" {
		out.viol = append(out.viol, "run error: "+strings.ReplaceAll(res.Err, dir, "<scratch>"))
		return out
	}
	// which call failed
	failedPath := ""
	for _, j := range res.Jobs {
		if j.Key == f.Job {
			failedPath = j.Path
		}
	}
	if failedPath == "" {
		out.class = "fault-site-not-reached"
		return out
	}
	out.class = res.State
	if expect == "any" {
		// unspecified whether it fails; but it must not hang
		if res.Stalled && f.Kind != "no-outs" {
			out.viol = append(out.viol, "pipestance stalled (state "+res.State+") after the fault")
		}
		return out
	}
	if res.State == "complete" || res.State == "disabled" {
		out.viol = append(out.viol, fmt.Sprintf("job %s failed (%s) but the pipestance reported success", f.Job, f.Kind))
		return out
	}
	if res.Stalled {
		out.viol = append(out.viol, fmt.Sprintf("job %s failed (%s) but the pipestance neither failed nor finished (stalled in state %s)", f.Job, f.Kind, res.State))
		return out
	}
	if res.State != "failed" {
		out.viol = append(out.viol, "pipestance ended in unexpected state "+res.State)
		return out
	}
	// the reported error names the failing stage
	wantPrefix := "ID." + Psid + "." + failedPath
	if !strings.HasPrefix(res.FatalFq, wantPrefix) {
		out.viol = append(out.viol, fmt.Sprintf("reported failure names %q, the failing stage is %s", res.FatalFq, wantPrefix))
	}
	// dependents never started
	depd := closureDependents(ref, failedPath)
	for _, j := range res.Jobs {
		if depd[j.Path] {
			out.viol = append(out.viol, fmt.Sprintf("job %s of call %s was started although it depends on the failed call %s", j.Key, j.Path, failedPath))
		}
	}
	// independent calls unaffected: none of their jobs carries an error
	for _, j := range res.Jobs {
		if j.Path != failedPath && j.Finished && j.How != "complete" {
			out.viol = append(out.viol, fmt.Sprintf("independent job %s ended %s", j.Key, j.How))
		}
	}
	// restart with the fault removed
	completedBefore := map[string]bool{}
	for _, j := range res.Jobs {
		if j.Finished && j.How == "complete" && j.Recorded && j.Key != f.Job {
			completedBefore[keyIdent(j.Key)] = true
		}
	}
	res2 := Run(p, Schedule{}, Options{PsDir: dir, Enforce: c.Enforce, Resume: true, MrpPid: 5252})
	out.res2 = res2
	res2.FatalLog = strings.ReplaceAll(res2.FatalLog, dir, "<scratch>")
	if res2.Err != "" {
		out.viol = append(out.viol, "restart after removing the fault failed: "+strings.ReplaceAll(res2.Err, dir, "<scratch>"))
		return out
	}
	if res2.Stalled || (res2.State != "complete" && res2.State != "disabled") {
		out.viol = append(out.viol, fmt.Sprintf("restart after removing the fault ended %s (stalled=%v): %s: %s",
			res2.State, res2.Stalled, res2.FatalFq, firstLine(res2.FatalLog)))
		return out
	}
	if res2.TopOuts == nil {
		out.viol = append(out.viol, "no readable outputs after restart")
	} else if d := progen.EqSlack(ref.TopOuts, res2.TopOuts, "outs"); d != "" {
		out.viol = append(out.viol, "outputs after restart differ from the fault-free result: "+d)
	}
	var rerun []string
	for _, j := range res2.Jobs {
		if completedBefore[keyIdent(j.Key)] {
			// jobs of the failed fork's own later phases may legitimately
			// be redone only if they had not completed; completed ones not
			rerun = append(rerun, j.Key)
		}
	}
	sort.Strings(rerun)
	for _, k := range rerun {
		// a faulty *stage-level* output is detected only after the job
		// completed; re-running that very job is the "failed work"
		out.viol = append(out.viol, "job "+k+" had completed successfully before the failure and was executed again on restart")
	}
	return out
}

// evalRetry: automatic retry of transient failures.  The job dies from a
// signal ("signal: killed" is what the local job manager records; the default
// retry pattern) on its first Fault.Times attempts.
//   - times <= retries: the pipestance must complete with the reference
//     outputs, the failing job runs times+1 times, no other completed job twice
//   - times  > retries (0 = every attempt): it must end failed naming the stage
//   - a non-transient failure (error raised by the stage) is never retried
func evalRetry(c FaultCase, p *progen.Program, ref *progen.RefResult) faultOutcome {
	var out faultOutcome
	f := c.Fault
	res := Run(p, c.Schedule, Options{Enforce: c.Enforce, Fault: &f, MrpPid: 5151, Retries: c.Retries})
	out.res = res
	if res.Err != "" {
		out.viol = append(out.viol, "run error: "+strings.ReplaceAll(res.Err, res.Dir, "<scratch>"))
		return out
	}
	failedPath := ""
	attempts := map[string]int{}
	for _, j := range res.Jobs {
		attempts[j.Key]++
		if j.Key == f.Job {
			failedPath = j.Path
		}
	}
	if failedPath == "" {
		out.class = "fault-site-not-reached"
		return out
	}
	transient := f.Kind == "vanish"
	recovers := transient && f.Times > 0 && f.Times <= c.Retries
	out.class = fmt.Sprintf("retry:%s:retried=%d", res.State, res.Retried)
	if res.Stalled {
		out.viol = append(out.viol, "pipestance stalled in state "+res.State+" with automatic retry enabled")
		return out
	}
	if !transient && res.Retried > 0 {
		out.viol = append(out.viol, fmt.Sprintf("a non-transient failure (%s) was answered by %d automatic restart(s)", f.Kind, res.Retried))
	}
	if recovers {
		if res.State != "complete" && res.State != "disabled" {
			out.viol = append(out.viol, fmt.Sprintf("job %s died from a signal %d time(s) with %d retries allowed, but the pipestance ended %s: %s: %s",
				f.Job, f.Times, c.Retries, res.State, res.FatalFq, firstLine(res.FatalLog)))
			return out
		}
		if res.TopOuts == nil {
			out.viol = append(out.viol, "no readable outputs after the automatic retry")
		} else if d := progen.EqSlack(ref.TopOuts, res.TopOuts, "outs"); d != "" {
			out.viol = append(out.viol, "outputs after the automatic retry differ from the fault-free result: "+d)
		}
		for k, n := range attempts {
			want := 1
			if k == f.Job {
				want = f.Times + 1
			}
			if n != want {
				out.viol = append(out.viol, fmt.Sprintf("job %s was executed %d time(s) in a run with %d transient failure(s) of %s, expected %d", k, n, f.Times, f.Job, want))
			}
		}
		return out
	}
	if res.State != "failed" {
		out.viol = append(out.viol, fmt.Sprintf("job %s kept failing (%s, %d retries allowed) but the pipestance ended %s", f.Job, f.Kind, c.Retries, res.State))
		return out
	}
	wantPrefix := "ID." + Psid + "." + failedPath
	if !strings.HasPrefix(res.FatalFq, wantPrefix) {
		out.viol = append(out.viol, fmt.Sprintf("reported failure names %q, the failing stage is %s", res.FatalFq, wantPrefix))
	}
	if transient {
		if want := min(c.Retries, 99) + 1; attempts[f.Job] != want && f.Times == 0 {
			out.viol = append(out.viol, fmt.Sprintf("job %s failing on every attempt was executed %d time(s) with %d retries allowed, expected %d", f.Job, attempts[f.Job], c.Retries, want))
		}
	}
	return out
}

func faultSig(v string, c FaultCase, phase string) string {
	words := strings.Fields(v)
	for i, w := range words {
		if strings.HasPrefix(w, "ID.") || strings.HasPrefix(w, "TOP") || strings.ContainsAny(w, "{[\"/") {
			words[i] = "_"
		}
	}
	if len(words) > 7 {
		words = words[:7]
	}
	return "C06:" + c.Fault.Kind + ":" + phase + ":" + strings.Join(words, "_")
}

// FaultCheck is the main of C06.
func FaultCheck() {
	r := ev.New("C06", "fault_enumeration")
	r.SetBudget(200*time.Second, 25*time.Minute)
	core.VerifQuiet()
	phaseOf := func(key string) string { return key[strings.LastIndex(key, ".")+1:] }
	if r.ReplayPath != "" {
		var c FaultCase
		if err := ev.LoadReplay(r.ReplayPath, &c); err != nil {
			fmt.Println("cannot load replay:", err)
			os.Exit(2)
		}
		p := c.Shape.Build()
		ref, _ := progen.Interpret(p)
		st := stageOfKey(p, ref, c.Fault.Job)
		exp := "fail"
		if st != nil {
			exp = faultExpectation(c.Fault.Kind, phaseOf(c.Fault.Job), st.Split, c.Enforce, len(st.Outs))
		}
		o := evalFault(c, p, ref, exp)
		r.Eval("replay")
		r.Sample(c)
		fmt.Println("expectation:", exp, "class:", o.class)
		if o.res != nil && o.res.PanicStack != "" && os.Getenv("VERIF_DEBUG") != "" {
			fmt.Println(o.res.PanicStack)
		}
		if o.res2 != nil && o.res2.PanicStack != "" && os.Getenv("VERIF_DEBUG") != "" {
			fmt.Println(o.res2.PanicStack)
		}
		if o.res != nil {
			fmt.Println("state:", o.res.State, "fatal:", o.res.FatalFq, firstLine(o.res.FatalLog))
		}
		for _, v := range o.viol {
			r.Report(ev.Finding{Sig: faultSig(v, c, phaseOf(c.Fault.Job)), What: v, Case: c})
		}
		r.Finish()
	}
	shapes := Shapes(true)
	if !r.Thorough() {
		shapes = shapes[:8]
	}
	if !ev.IsWorker() {
		r.Rule = "for each pipeline shape, every job of the fault-free run is the failure site in turn, with every failure manifestation " +
			fmt.Sprint(faultKinds) + " at enforcement levels {disable, error}; default schedule, with the failing job held until quiescence (fast siblings), and with each sibling job of the same call held (still queued when the failure is noticed); " +
			"the oracle requires: state failed (never success, never a hang) where the manifestation is decided to be fatal, reported fqname inside the failing stage, " +
			"no job of a dependent call (reference dependency closure) started, no error on independent jobs, and after a restart without the fault: completion, " +
			"outputs equal to the reference, and no re-execution of jobs that had completed. distinct = distinct (shape, job, manifestation, level, schedule); " +
			"in addition, with mrp's automatic retry (attemptRetry + restart mirrored by the harness): every job dies from a signal on its first 1 / 2 / all attempts with 1 or 2 retries allowed - it must recover exactly when the failures fit the retries, run the failing job once per attempt and nothing else twice, otherwise end failed naming the stage - and a stage-raised error is never retried. " +
			"non-trivial = the fault site was reached"
		r.Set("shapes", len(shapes))
		if os.Getenv("VERIF_NO_TIERB") == "" {
			if _, err := TierBRoot(); err != nil {
				fmt.Println(err)
				os.Exit(2)
			}
		}
		r.RunWorkers(0)
		r.Assume("metadata-level manifestations only (what mrjob/the job manager would have written); process-level faults (signals, exit codes through real mrjob) are tier B")
		r.Assume("extra output keys and ill-typed chunk-level outputs are fatal only at --strict=error (unspecified below)")
		r.Finish()
	}
	type item struct {
		c      FaultCase
		p      *progen.Program
		ref    *progen.RefResult
		expect string
		phase  string
	}
	var items []item
	for _, sh := range shapes {
		p := sh.Build()
		if p == nil {
			continue
		}
		ref, err := progen.Interpret(p)
		if err != nil {
			continue
		}
		base := Run(p, Schedule{}, Options{MrpPid: 5151})
		if base.State != "complete" {
			continue
		}
		var keys []string
		for _, j := range base.Jobs {
			keys = append(keys, j.Key)
		}
		sort.Strings(keys)
		for _, k := range keys {
			st := stageOfKey(p, ref, k)
			if st == nil {
				continue
			}
			// automatic retry: a signal death on the first 1 / 2 / all attempts
			// with 1 or 2 retries allowed, and a non-transient error with retries
			for _, rc := range []struct {
				kind           string
				times, retries int
			}{{"vanish", 1, 1}, {"vanish", 1, 2}, {"vanish", 2, 2}, {"vanish", 2, 1}, {"vanish", 0, 2}, {"errors-early", 1, 2}} {
				items = append(items, item{FaultCase{Shape: sh, Fault: Fault{Job: k, Kind: rc.kind, Times: rc.times}, Enforce: "disable", Retries: rc.retries},
					p, ref, "retry", phaseOf(k)})
			}
			for _, kind := range faultKinds {
				for _, enf := range []string{"disable", "error"} {
					exp := faultExpectation(kind, phaseOf(k), st.Split, enf, len(st.Outs))
					if exp == "skip" {
						continue
					}
					scheds := []Schedule{{}, {Delay: []string{k}}}
					// a sibling job of the same call (another chunk or fork)
					// still waiting in the local queue when the failure is
					// noticed: the restart has to pick it up again
					if enf == "disable" && (kind == "errors-early" || kind == "vanish" || kind == "assert-early") {
						kp, _, _ := splitFq(Psid, k[:strings.LastIndex(k, ".")])
						for _, k2 := range keys {
							if k2 == k || phaseOf(k2) != phaseOf(k) {
								continue
							}
							if p2, _, _ := splitFq(Psid, k2[:strings.LastIndex(k2, ".")]); p2 == kp {
								scheds = append(scheds, Schedule{Delay: []string{k2}})
							}
						}
					}
					for _, sc := range scheds {
						items = append(items, item{FaultCase{Shape: sh, Fault: Fault{Job: k, Kind: kind}, Enforce: enf, Schedule: sc},
							p, ref, exp, phaseOf(k)})
					}
				}
			}
		}
	}
	order := r.Rotate(len(items))
	for wi, idx := range order {
		if !r.Mine(wi) {
			continue
		}
		if r.Expired("fault enumeration") {
			break
		}
		it := items[idx]
		eval := func() faultOutcome {
			if it.c.Retries > 0 {
				return evalRetry(it.c, it.p, it.ref)
			}
			return evalFault(it.c, it.p, it.ref, it.expect)
		}
		o := eval()
		key := fmt.Sprintf("%s|%s|%s|%s|%s|r%d.%d", it.c.Shape.Name(), it.c.Fault.Job, it.c.Fault.Kind, it.c.Enforce, it.c.Schedule.String(), it.c.Retries, it.c.Fault.Times)
		if o.class == "fault-site-not-reached" {
			r.Eval("")
			r.Outcome("site-not-reached")
			continue
		}
		r.Eval(key)
		if len(o.viol) == 0 {
			r.Outcome(it.expect + ":" + o.class)
			if wi%301 == 0 {
				r.Sample(map[string]interface{}{"shape": it.c.Shape.Name(), "job": it.c.Fault.Job, "fault": it.c.Fault.Kind,
					"enforce": it.c.Enforce, "state": o.class, "reported": o.res.FatalFq})
			}
			continue
		}
		o2 := eval()
		if strings.Join(o2.viol, "\n") != strings.Join(o.viol, "\n") {
			r.Inconclusive(key + ": non-reproducible: " + o.viol[0])
			continue
		}
		r.Outcome("violation")
		c := it.c
		c.Shape.Program = it.p.MRO()
		for _, v := range o.viol {
			r.Report(ev.Finding{Sig: faultSig(v, c, it.phase),
				What: fmt.Sprintf("%s, job %s fault %s enforce=%s schedule %s: %s", it.c.Shape.Name(), it.c.Fault.Job, it.c.Fault.Kind, it.c.Enforce, it.c.Schedule.String(), v), Case: c})
		}
	}
	TierBFaults(r)
	r.Done()
}

func stageOfKey(p *progen.Program, ref *progen.RefResult, key string) *progen.Stage {
	pth, _, _ := splitFq(Psid, key[:strings.LastIndex(key, ".")])
	for _, j := range ref.Jobs {
		if j.Path == pth {
			return p.Stage(j.Stage)
		}
	}
	return nil
}
