//go:build verif

package psx

// Real-binary phases ("tier B") of the pipestance checks.  Each phase
// enumerates a stated finite set (programs x deviations, jobs x
// manifestations, effect indices of mrp and of the job monitors) and runs
// every element on the real mrp + mrjob + Go adapter built from /repo's
// working tree; the oracles are those of the in-package tier.  What is NOT
// controlled here is the operating system's scheduling of the real processes
// and goroutines: a tier-B run is one execution of its case, not all of them.
// Its role is (1) to bind the model job and the driver of the in-package
// harness to the implementation (every default-schedule trace of the model is
// compared job by job with the real trace of the same program) and (2) to
// reach the code only real processes reach: cmd/mrp (exit status, signal
// handling, retry loop, lock), cmd/mrjob, martian/adapter and the local job
// manager.

import (
	"fmt"
	"os"
	"regexp"
	"sort"
	"strings"
	"time"

	"verif/lib/ev"
	"verif/lib/progen"
)

var uniqTextRe = regexp.MustCompile(`u[0-9a-f]{10}\b`)
var scratchRe = regexp.MustCompile(`/dev/shm/ps[bx]f?-[0-9A-Za-z-]+`)

// normText removes run-specific names from a message.
func normText(s string) string {
	return scratchRe.ReplaceAllString(uniqTextRe.ReplaceAllString(s, "u<uniq>"), "<scratch>")
}

func tierBDeadline(r *ev.Run, quick, thorough time.Duration) time.Time {
	d := quick
	if r.Thorough() {
		d = thorough
	}
	if s := os.Getenv("VERIF_TIERB_BUDGET_S"); s != "" {
		var f float64
		if _, err := fmt.Sscan(s, &f); err == nil {
			d = time.Duration(f * float64(time.Second))
		}
	}
	return time.Now().Add(d)
}

// tierBPrograms is the program set of the real-binary dataflow phase.
func tierBPrograms(thorough bool) []DfCase {
	var out []DfCase
	maxDev := 2
	if thorough {
		maxDev = 3
	}
	for _, d := range progen.DataflowFamily(maxDev) {
		out = append(out, DfCase{Family: "dataflow", Params: d})
	}
	for _, d := range progen.DisNestFamily(false) {
		d := d
		if !thorough && len(d.Levels) > 1 {
			continue
		}
		out = append(out, DfCase{Family: "disnest", Dn: &d})
	}
	for _, d := range progen.NestFamily(thorough) {
		d := d
		out = append(out, DfCase{Family: "nest", Kp: &d})
	}
	return out
}

// conformance compares the default-schedule trace of the model job (tier A)
// with the trace of the real processes: same job keys, same arguments per
// job, same final outputs.  Differences are returned as text.
func conformance(a, b *Result) []string {
	var out []string
	am, bm := map[string]*ObsJob{}, map[string]*ObsJob{}
	for _, j := range a.Jobs {
		am[j.Key] = j
	}
	for _, j := range b.Jobs {
		bm[j.Key] = j
	}
	var keys []string
	for k := range am {
		keys = append(keys, k)
	}
	for k := range bm {
		if am[k] == nil {
			keys = append(keys, k)
		}
	}
	sort.Strings(keys)
	for _, k := range keys {
		x, y := am[k], bm[k]
		switch {
		case x == nil:
			out = append(out, "job "+k+" ran with real processes but not under the model job")
		case y == nil:
			out = append(out, "job "+k+" ran under the model job but not with real processes")
		default:
			if x.Args != nil && y.Args != nil {
				if d := progen.EqSlack(x.Args, y.Args, "args"); d != "" {
					out = append(out, "job "+k+": arguments differ between model and real run: "+d)
				}
			} else if (x.Args == nil) != (y.Args == nil) {
				out = append(out, "job "+k+": arguments readable in one tier only")
			}
			if len(x.ChunkOuts) != len(y.ChunkOuts) || len(x.ChunkDefs) != len(y.ChunkDefs) {
				out = append(out, "job "+k+": join inputs differ in length between model and real run")
			}
		}
	}
	if a.State != b.State {
		out = append(out, "final state differs: model "+a.State+", real "+b.State)
	}
	if a.TopOuts != nil && b.TopOuts != nil {
		if d := progen.EqSlack(a.TopOuts, b.TopOuts, "outs"); d != "" {
			out = append(out, "final outputs differ between model and real run: "+d)
		}
	}
	return out
}

// BCase is the replayable unit of the real-binary dataflow phase.
type BCase struct {
	Tier  string         `json:"tier"` // "B"
	Shape DfCase         `json:"shape"`
	Slow  map[string]int `json:"slow,omitempty"`
}

func evalB(prop string, c BCase, p *progen.Program, ref *progen.RefResult) (viol []string, res *Result, br *BResult) {
	br = RunB(p, BOptions{Slow: c.Slow})
	if br.Err != "" {
		return nil, nil, br
	}
	res = AsResult(p, br)
	viol = oracleFor(prop, ref, res)
	for i := range viol {
		viol[i] = normText(viol[i])
	}
	return viol, res, br
}

// TierBDataflow is the real-binary phase of C01/C02/C03 (called by every
// worker for its share of the programs).
func TierBDataflow(r *ev.Run, prop string) {
	if os.Getenv("VERIF_NO_TIERB") != "" {
		return
	}
	if _, err := TierBRoot(); err != nil {
		fmt.Println(err)
		os.Exit(2)
	}
	deadline := tierBDeadline(r, 45*time.Second, 12*time.Minute)
	cases := tierBPrograms(r.Thorough())
	order := r.Rotate(len(cases))
	for wi, idx := range order {
		if !r.Mine(wi) {
			continue
		}
		if time.Now().After(deadline) {
			r.Cap("time budget of the real-binary phase reached")
			break
		}
		c := cases[idx]
		p := c.Build()
		if p == nil {
			continue
		}
		ref, err := progen.Interpret(p)
		if err != nil || len(ref.Unspecified) > 0 {
			continue
		}
		// the model's default-schedule trace of the same program
		a := Run(p, Schedule{}, Options{})
		if strings.HasPrefix(a.Err, "invoke:") {
			continue
		}
		bc := BCase{Tier: "B", Shape: c}
		viol, res, br := evalB(prop, bc, p, ref)
		if br.Err != "" {
			r.Inconclusive("real-binary run could not be started: " + br.Err)
			continue
		}
		r.Add("tierb_runs", 1)
		r.Add("tierb_programs", 1)
		if len(ref.Jobs) > 0 {
			r.Eval("B|" + c.Name())
		} else {
			r.Eval("")
		}
		report := func(bc BCase, viol []string, res *Result, br *BResult) bool {
			// confirm with a second run of the same case
			v2, _, br2 := evalB(prop, bc, p, ref)
			br2.Cleanup()
			if strings.Join(sigsOf(prop, c, v2), "\n") != strings.Join(sigsOf(prop, c, viol), "\n") {
				r.Inconclusive("real binaries, " + c.Name() + ": non-reproducible: " + viol[0])
				return false
			}
			bc.Shape.Program = p.MRO()
			for _, v := range viol {
				r.Report(ev.Finding{Sig: sigForCase(prop, c, v), What: "real mrp/mrjob, " + c.Name() + slowNote(bc.Slow) + ": " + v, Case: bc})
			}
			return true
		}
		if len(viol) > 0 {
			r.Outcome("tierb-violation")
			report(bc, viol, res, br)
			br.Cleanup()
			continue
		}
		// conformance of the model trace with the real one
		if a.Err == "" && !a.Stalled {
			diffs := conformance(a, res)
			if len(diffs) == 0 {
				r.Add("traces_validated_against_impl", 1)
				r.Outcome("tierb-conforms")
			} else {
				r.Outcome("tierb-conformance-diff")
				r.AddNote("conformance_diffs", c.Name()+": "+normText(diffs[0]))
			}
		}
		br.Cleanup()
		if wi%53 == 0 {
			r.Sample(map[string]interface{}{"tier": "real binaries", "program": c.Name(), "jobs": len(res.Jobs), "top_outs": res.TopOutsText})
		}
		// deviations: one job at a time is slow (its stage code starts late),
		// so that everything that does not wait for it overtakes it
		if prop != "C02" && !r.Thorough() {
			continue
		}
		var keys []string
		for _, j := range res.Jobs {
			keys = append(keys, j.Key)
		}
		sort.Strings(keys)
		for _, k := range keys {
			if time.Now().After(deadline) {
				r.Cap("time budget of the real-binary phase reached")
				break
			}
			bc := BCase{Tier: "B", Shape: c, Slow: map[string]int{k: 120}}
			viol, res2, br2 := evalB(prop, bc, p, ref)
			if br2.Err != "" {
				continue
			}
			r.Add("tierb_runs", 1)
			r.Eval("B|" + c.Name() + "|slow=" + k)
			if len(viol) > 0 {
				r.Outcome("tierb-violation")
				report(bc, viol, res2, br2)
			} else {
				r.Outcome("tierb-ok-slow")
			}
			br2.Cleanup()
		}
	}
}

func slowNote(m map[string]int) string {
	if len(m) == 0 {
		return ""
	}
	var ks []string
	for k := range m {
		ks = append(ks, k)
	}
	sort.Strings(ks)
	return " with slow job " + strings.Join(ks, ",")
}

func sigsOf(prop string, c DfCase, viol []string) []string {
	var out []string
	for _, v := range viol {
		out = append(out, sigForCase(prop, c, v))
	}
	sort.Strings(out)
	return out
}
