//go:build verif

package psx

// Real-binary phases ("tier B") of the pipestance checks.  Each phase
// enumerates a stated finite set (programs x deviations, jobs x
// manifestations, effect indices of mrp and of the job monitors) and runs
// every element on the real mrp + mrjob + Go adapter built from /repo's
// working tree; the oracles are those of the in-package tier.  What is NOT
// controlled here is the operating system's scheduling of the real processes
// and goroutines: a tier-B run is one execution of its case, not all of them.
// Its role is (1) to bind the model job and the driver of the in-package
// harness to the implementation (every default-schedule trace of the model is
// compared job by job with the real trace of the same program) and (2) to
// reach the code only real processes reach: cmd/mrp (exit status, signal
// handling, retry loop, lock), cmd/mrjob, martian/adapter and the local job
// manager.

import (
	"fmt"
	"os"
	"path/filepath"
	"regexp"
	"sort"
	"strings"
	"time"

	"verif/lib/ev"
	"verif/lib/progen"
)

var pidRe = regexp.MustCompile(` \(pid [0-9]+\)`)
var uniqTextRe = regexp.MustCompile(`u[0-9a-f]{10}\b`)
var scratchRe = regexp.MustCompile(`/dev/shm/ps[bx]f?-[0-9A-Za-z-]+`)

var timeTextRe = regexp.MustCompile(`\d{4}-\d\d-\d\d[ T]\d\d:\d\d:\d\d(\.\d+)?Z?`)
var parenNumRe = regexp.MustCompile(`\(\d+\)`)

// normText removes run-specific names (scratch directory, attempt ids, times,
// process ids) from a message.
func normText(s string) string {
	s = scratchRe.ReplaceAllString(uniqTextRe.ReplaceAllString(s, "u<uniq>"), "<scratch>")
	return parenNumRe.ReplaceAllString(timeTextRe.ReplaceAllString(s, "<time>"), "(<pid>)")
}

func tierBDeadline(r *ev.Run, quick, thorough time.Duration) time.Time {
	d := quick
	if r.Thorough() {
		d = thorough
	}
	if s := os.Getenv("VERIF_TIERB_BUDGET_S"); s != "" {
		var f float64
		if _, err := fmt.Sscan(s, &f); err == nil {
			d = time.Duration(f * float64(time.Second))
		}
	}
	return time.Now().Add(d)
}

// tierBPrograms is the program set of the real-binary dataflow phase.
func tierBPrograms(thorough bool) []DfCase {
	var out []DfCase
	maxDev := 2
	if thorough {
		maxDev = 3
	}
	for _, d := range progen.DataflowFamily(maxDev) {
		out = append(out, DfCase{Family: "dataflow", Params: d})
	}
	for _, d := range progen.DisNestFamily(false) {
		d := d
		if !thorough && len(d.Levels) > 1 {
			continue
		}
		out = append(out, DfCase{Family: "disnest", Dn: &d})
	}
	for _, d := range progen.NestFamily(thorough) {
		d := d
		out = append(out, DfCase{Family: "nest", Kp: &d})
	}
	// per-fork disabling with flags produced at run time (the members of the
	// family that have no known finding)
	for _, d := range progen.PfDisFamily(thorough) {
		d := d
		if d.Dyn && (d.Cons == "plain" || (d.Cons == "pass" && d.Member)) {
			out = append(out, DfCase{Family: "pfdis", Pf: &d})
		}
	}
	return out
}

// conformance compares the default-schedule trace of the model job (tier A)
// with the trace of the real processes: same job keys, same arguments per
// job, same final outputs.  Differences are returned as text.
func conformance(a, b *Result) []string {
	var out []string
	am, bm := map[string]*ObsJob{}, map[string]*ObsJob{}
	for _, j := range a.Jobs {
		am[j.Key] = j
	}
	for _, j := range b.Jobs {
		bm[j.Key] = j
	}
	var keys []string
	for k := range am {
		keys = append(keys, k)
	}
	for k := range bm {
		if am[k] == nil {
			keys = append(keys, k)
		}
	}
	sort.Strings(keys)
	for _, k := range keys {
		x, y := am[k], bm[k]
		switch {
		case x == nil:
			out = append(out, "job "+k+" ran with real processes but not under the model job")
		case y == nil:
			out = append(out, "job "+k+" ran under the model job but not with real processes")
		default:
			if x.Args != nil && y.Args != nil {
				// (the "__" keys are resource settings of the job manager configuration)
				if d := progen.EqSlack(dropInternal(x.Args), dropInternal(y.Args), "args"); d != "" {
					out = append(out, "job "+k+": arguments differ between model and real run: "+d)
				}
			} else if (x.Args == nil) != (y.Args == nil) {
				out = append(out, "job "+k+": arguments readable in one tier only")
			}
			if len(x.ChunkOuts) != len(y.ChunkOuts) || len(x.ChunkDefs) != len(y.ChunkDefs) {
				out = append(out, "job "+k+": join inputs differ in length between model and real run")
			}
		}
	}
	if a.State != b.State {
		out = append(out, "final state differs: model "+a.State+", real "+b.State)
	}
	if a.TopOuts != nil && b.TopOuts != nil {
		if d := progen.EqSlack(a.TopOuts, b.TopOuts, "outs"); d != "" {
			out = append(out, "final outputs differ between model and real run: "+d)
		}
	}
	return out
}

// BCase is the replayable unit of the real-binary dataflow phase.
type BCase struct {
	Tier  string         `json:"tier"` // "B"
	Shape DfCase         `json:"shape"`
	Slow  map[string]int `json:"slow,omitempty"`
	// Py: the stages are python modules on the repository's python adapter
	Py bool `json:"python_stages,omitempty"`
}

func evalB(prop string, c BCase, p *progen.Program, ref *progen.RefResult) (viol []string, res *Result, br *BResult) {
	p.Py = c.Py
	defer func() { p.Py = false }()
	br = RunB(p, BOptions{Slow: c.Slow, Timeout: 120 * time.Second})
	if br.Err != "" {
		return nil, nil, br
	}
	res = AsResult(p, br)
	viol = oracleFor(prop, ref, res)
	for i := range viol {
		viol[i] = normText(viol[i])
	}
	return viol, res, br
}

// TierBDataflow is the real-binary phase of C01/C02/C03 (called by every
// worker for its share of the programs).
func TierBDataflow(r *ev.Run, prop string) {
	if os.Getenv("VERIF_NO_TIERB") != "" {
		return
	}
	if _, err := TierBRoot(); err != nil {
		fmt.Println(err)
		os.Exit(2)
	}
	deadline := tierBDeadline(r, 100*time.Second, 12*time.Minute)
	if prop == "C03" {
		if k, _, _ := ev.WorkerIndex(); k == 0 {
			clusterOnce(r)
		}
	}
	cases := tierBPrograms(r.Thorough())
	order := r.Rotate(len(cases))
	for wi, idx := range order {
		if !r.Mine(wi) {
			continue
		}
		if time.Now().After(deadline) {
			r.Cap("time budget of the real-binary phase reached")
			break
		}
		c := cases[idx]
		p := c.Build()
		if p == nil {
			continue
		}
		ref, err := progen.Interpret(p)
		if err != nil || len(ref.Unspecified) > 0 {
			continue
		}
		// the model's default-schedule trace of the same program
		a := Run(p, Schedule{}, Options{})
		if strings.HasPrefix(a.Err, "invoke:") {
			continue
		}
		bc := BCase{Tier: "B", Shape: c}
		viol, res, br := evalB(prop, bc, p, ref)
		if br.Err != "" {
			r.Inconclusive("real-binary run could not be started: " + br.Err)
			continue
		}
		r.Add("tierb_runs", 1)
		r.Add("tierb_programs", 1)
		if len(ref.Jobs) > 0 {
			r.Eval("B|" + c.Name())
		} else {
			r.Eval("")
		}
		report := func(bc BCase, viol []string, res *Result, br *BResult) bool {
			// confirm with a second run of the same case
			v2, _, br2 := evalB(prop, bc, p, ref)
			br2.Cleanup()
			if strings.Join(sigsOf(prop, c, v2), "\n") != strings.Join(sigsOf(prop, c, viol), "\n") {
				r.Inconclusive("real binaries, " + c.Name() + ": non-reproducible: " + viol[0])
				return false
			}
			bc.Shape.Program = p.MRO()
			for _, v := range viol {
				py := ""
				if bc.Py {
					py = " (python stages)"
				}
				r.Report(ev.Finding{Sig: sigForCase(prop, c, v), What: "real mrp/mrjob" + py + ", " + c.Name() + slowNote(bc.Slow) + ": " + v, Case: bc})
			}
			return true
		}
		if len(viol) > 0 {
			r.Outcome("tierb-violation")
			report(bc, viol, res, br)
			br.Cleanup()
			continue
		}
		// conformance of the model trace with the real one
		if a.Err == "" && !a.Stalled {
			diffs := conformance(a, res)
			if len(diffs) == 0 {
				r.Add("traces_validated_against_impl", 1)
				r.Outcome("tierb-conforms")
			} else {
				r.Outcome("tierb-conformance-diff")
				r.AddNote("conformance_diffs", c.Name()+": "+normText(diffs[0]))
			}
		}
		br.Cleanup()
		if wi%53 == 0 {
			r.Sample(map[string]interface{}{"tier": "real binaries", "program": c.Name(), "jobs": len(res.Jobs), "top_outs": res.TopOutsText})
		}
		// the same program with its stages written in python (the python
		// adapter hands the stage code its arguments): programs one step from
		// the base (thorough: two)
		if prop != "C02" && c.Family == "dataflow" && len(ref.Jobs) > 0 && pyProgram(c, r.Thorough()) && !time.Now().After(deadline) {
			pc := BCase{Tier: "B", Shape: c, Py: true}
			pv, pres, pbr := evalB(prop, pc, p, ref)
			if pbr.Err == "" {
				r.Add("tierb_runs", 1)
				r.Add("tierb_python_programs", 1)
				r.Eval("B|py|" + c.Name())
				if len(pv) > 0 {
					r.Outcome("tierb-violation")
					report(pc, pv, pres, pbr)
				} else {
					r.Outcome("tierb-python-ok")
				}
			}
			pbr.Cleanup()
		}
		// deviations: one job at a time is slow (its stage code starts late),
		// so that everything that does not wait for it overtakes it
		if prop != "C02" && !r.Thorough() {
			continue
		}
		if !r.Thorough() && !(c.Family == "dataflow" && pyProgram(c, false)) {
			continue // quick: the programs one step from the base
		}
		var keys []string
		for _, j := range res.Jobs {
			keys = append(keys, j.Key)
		}
		sort.Strings(keys)
		for _, k := range keys {
			if time.Now().After(deadline) {
				r.Cap("time budget of the real-binary phase reached")
				break
			}
			bc := BCase{Tier: "B", Shape: c, Slow: map[string]int{k: 120}}
			viol, res2, br2 := evalB(prop, bc, p, ref)
			if br2.Err != "" {
				continue
			}
			r.Add("tierb_runs", 1)
			r.Eval("B|" + c.Name() + "|slow=" + k)
			if len(viol) > 0 {
				r.Outcome("tierb-violation")
				report(bc, viol, res2, br2)
			} else {
				r.Outcome("tierb-ok-slow")
			}
			br2.Cleanup()
		}
	}
}

var pyNames map[string]bool

// pyProgram: is the program in the python sub-family?
func pyProgram(c DfCase, thorough bool) bool {
	if pyNames == nil {
		pyNames = map[string]bool{}
		n := 1
		if thorough {
			n = 2
		}
		for _, d := range progen.DataflowFamily(n) {
			pyNames[d.String()] = true
		}
	}
	return pyNames[c.Params.String()]
}

// clusterOnce: the cluster code path (fake_remote) with a job that runs for
// nine seconds while the scheduler's queue listing is cut short twice (header
// only, non-zero exit) and --autoretry=1: no job failed, so every job runs
// exactly once.
func clusterOnce(r *ev.Run) {
	clusterOnceWith(r, BOptions{FlakyQueue: true}, "cluster-flaky-queue",
		"the queue listing cut short twice while a job runs for 9 s")
	clusterOnceWith(r, BOptions{PadPs: true}, "cluster-padded-pids",
		"the repository's own queue query (ps xo pid) printing the pid column right-aligned in a wider column while a job runs for 9 s")
}

func clusterOnceWith(r *ev.Run, base BOptions, tag, what string) {
	p := progen.Dataflow(progen.DataflowParams{Kind: "int", Src: "gen", Size: 2, Cons: "add"})
	ref, err := progen.Interpret(p)
	if p == nil || err != nil {
		return
	}
	slowJob := "ID." + Psid + ".TOP.GEN.fork0.chnk0.main"
	run := func() ([]string, *BResult) {
		o := base
		o.JobMode, o.AutoRetry, o.Slow, o.Timeout = "fake_remote", 1, map[string]int{slowJob: 9000}, 150*time.Second
		br := RunB(p, o)
		if br.Err != "" {
			return nil, br
		}
		res := AsResult(p, br)
		v := CheckExactlyOnce(ref, res)
		for i := range v {
			v[i] = normText(v[i])
		}
		return v, br
	}
	viol, br := run()
	if br.Err != "" {
		r.Inconclusive("cluster-mode run could not be started: " + br.Err)
		return
	}
	defer br.Cleanup()
	r.Eval("B|" + tag)
	r.Add("tierb_runs", 1)
	if len(viol) == 0 {
		r.Outcome("tierb-" + tag + "-ok")
		return
	}
	v2, br2 := run()
	br2.Cleanup()
	if strings.Join(v2, "\n") != strings.Join(viol, "\n") {
		r.Inconclusive("cluster mode (" + tag + "): non-reproducible: " + viol[0])
		return
	}
	r.Outcome("tierb-violation")
	for _, v := range viol {
		r.Report(ev.Finding{Sig: sigFor("C03", v) + ":cluster", What: "real mrp in cluster mode (fake_remote, --autoretry=1), " + what + ": " + v,
			Case: BCase{Tier: "B-" + tag, Shape: DfCase{Family: "dataflow", Params: progen.DataflowParams{Kind: "int", Src: "gen", Size: 2, Cons: "add"}}}})
	}
}

func slowNote(m map[string]int) string {
	if len(m) == 0 {
		return ""
	}
	var ks []string
	for k := range m {
		ks = append(ks, k)
	}
	sort.Strings(ks)
	return " with slow job " + strings.Join(ks, ",")
}

func sigsOf(prop string, c DfCase, viol []string) []string {
	var out []string
	for _, v := range viol {
		out = append(out, sigForCase(prop, c, v))
	}
	sort.Strings(out)
	return out
}

// ---------------------------------------------------------------------------
// C06 with real processes.

// BFaultCase is the replayable unit of the real-binary fault phase.
type BFaultCase struct {
	Tier    string `json:"tier"`
	Shape   DfCase `json:"shape"`
	Fault   Fault  `json:"fault"`
	Retries int    `json:"retries,omitempty"`
	Py      bool   `json:"python_stages,omitempty"`
}

// manifestations of a stage written in python (pyStageModule acts them out)
var pyFaultKinds = []string{"py-exception", "errors-early", "assert-early", "sys-exit", "sys-exit-msg", "exit1", "kill9", "kill-monitor"}

// process-level manifestations (cmd/vstage implements them)
var bFaultKinds = []string{"exit1", "kill9", "segv", "errors-early", "assert-early", "panic", "exit1-late", "kill9-late", "kill-monitor", "errors-nojournal"}

func evalBFault(c BFaultCase, p *progen.Program, ref *progen.RefResult) (viol []string, class string) {
	p.Py = c.Py
	defer func() { p.Py = false }()
	f := c.Fault
	limit := 90 * time.Second
	if f.Kind == "errors-nojournal" {
		limit = 25 * time.Second // the failure mode is a hang
	}
	r1 := RunB(p, BOptions{Fault: &f, AutoRetry: c.Retries, KeepDir: true, Timeout: limit})
	if r1.Err != "" {
		return nil, "not-started"
	}
	defer r1.Cleanup()
	res := AsResult(p, r1)
	failedPath := ""
	attempts := map[string]int{}
	for _, j := range res.Jobs {
		attempts[j.Key]++
		if j.Key == f.Job {
			failedPath = j.Path
		}
	}
	if failedPath == "" {
		return nil, "fault-site-not-reached"
	}
	success := r1.Exit == 0 || strings.Contains(r1.Console, "Pipestance completed successfully")
	if c.Retries > 0 {
		// the failure is transient for mrp's default retry patterns exactly
		// when the job (or its monitor) died from a signal
		transient := f.Kind == "kill-monitor"
		class = fmt.Sprintf("retry:exit=%d", r1.Exit)
		if r1.TimedOut {
			return []string{"mrp did not end within 90 s with automatic retry enabled"}, class
		}
		if transient && f.Times > 0 && f.Times <= c.Retries {
			if r1.Exit != 0 || !strings.Contains(r1.Console, "Pipestance completed successfully") {
				fq, log := ParseFailure(r1.Console)
				return []string{fmt.Sprintf("the monitor of job %s was killed %d time(s) with --autoretry=%d, but mrp ended with exit status %d: %s: %s",
					f.Job, f.Times, c.Retries, r1.Exit, fq, firstLine(log))}, class
			}
			if res.TopOuts == nil {
				viol = append(viol, "no readable outputs after the automatic retry")
			} else if d := progen.EqSlack(ref.TopOuts, res.TopOuts, "outs"); d != "" {
				viol = append(viol, "outputs after the automatic retry differ from the fault-free result: "+d)
			}
			for k, n := range attempts {
				want := 1
				if k == f.Job {
					want = f.Times + 1
				}
				if n != want {
					viol = append(viol, fmt.Sprintf("job %s was executed %d time(s) in a run with %d transient failure(s) of %s, expected %d", k, n, f.Times, f.Job, want))
				}
			}
			return viol, class
		}
		if success {
			return []string{fmt.Sprintf("job %s kept failing (%s, --autoretry=%d) but mrp reported success", f.Job, f.Kind, c.Retries)}, class
		}
		if !transient && attempts[f.Job] > 1 {
			viol = append(viol, fmt.Sprintf("a non-transient failure (%s) of job %s was answered by an automatic restart (%d executions)", f.Kind, f.Job, attempts[f.Job]))
		}
		return viol, class
	}
	class = fmt.Sprintf("exit=%d", r1.Exit)
	if r1.TimedOut {
		return []string{fmt.Sprintf("job %s failed (%s) but mrp neither failed nor finished within %v", f.Job, f.Kind, limit)}, class
	}
	if success {
		return []string{fmt.Sprintf("job %s failed (%s) but mrp reported success (exit status %d)", f.Job, f.Kind, r1.Exit)}, class
	}
	fq, log := ParseFailure(r1.Console)
	wantPrefix := "ID." + Psid + "." + failedPath
	if f.Kind != "assert-early" {
		// assertions are printed without the path of the error log
		if !strings.HasPrefix(fq, wantPrefix) {
			viol = append(viol, fmt.Sprintf("mrp's error report names %q (%s), the failing stage is %s", fq, firstLine(log), wantPrefix))
		}
	} else if !strings.Contains(r1.Console, "verif: stage assertion") {
		viol = append(viol, "mrp's console output does not show the failed assertion of "+wantPrefix)
	}
	depd := closureDependents(ref, failedPath)
	for _, j := range res.Jobs {
		if depd[j.Path] {
			viol = append(viol, fmt.Sprintf("job %s of call %s was started although it depends on the failed call %s", j.Key, j.Path, failedPath))
		}
		if j.Path != failedPath && j.Finished && j.How != "complete" {
			viol = append(viol, fmt.Sprintf("independent job %s ended %s", j.Key, j.How))
		}
	}
	if r1.Lock {
		viol = append(viol, "mrp exited after the failure and left the pipestance locked")
	}
	// restart without the fault
	done := map[string]bool{}
	for _, d := range r1.Completed {
		done[d] = true
	}
	completedBefore := map[string]bool{}
	for _, o := range r1.Obs {
		rel := strings.TrimPrefix(o.MdPath, r1.PsDir+"/")
		if o.How == "complete" && done[rel] && o.Key != f.Job {
			completedBefore[keyIdent(o.Key)] = true
		}
	}
	r2 := RunB(p, BOptions{Dir: r1.Dir, Timeout: 90 * time.Second})
	res2 := AsResult(p, r2)
	if r2.TimedOut || r2.Exit != 0 || res2.State != "complete" {
		fq2, log2 := ParseFailure(r2.Console)
		return append(viol, fmt.Sprintf("restart after removing the fault ended with exit status %d (timed out: %v): %s: %s", r2.Exit, r2.TimedOut, fq2, firstLine(log2))), class
	}
	if res2.TopOuts == nil {
		viol = append(viol, "no readable outputs after restart")
	} else if d := progen.EqSlack(ref.TopOuts, res2.TopOuts, "outs"); d != "" {
		viol = append(viol, "outputs after restart differ from the fault-free result: "+d)
	}
	var rerun []string
	for _, o := range r2.Obs {
		if completedBefore[keyIdent(o.Key)] {
			rerun = append(rerun, o.Key)
		}
	}
	sort.Strings(rerun)
	for _, k := range rerun {
		viol = append(viol, "job "+k+" had completed successfully before the failure and was executed again on restart")
	}
	return viol, class
}

// TierBFaults is the real-binary phase of C06.
func TierBFaults(r *ev.Run) {
	if os.Getenv("VERIF_NO_TIERB") != "" {
		return
	}
	deadline := tierBDeadline(r, 110*time.Second, 12*time.Minute)
	shapes := Shapes(true)
	if !r.Thorough() {
		shapes = []DfCase{shapes[2], shapes[3], shapes[5]}
	}
	type item struct {
		c   BFaultCase
		p   *progen.Program
		ref *progen.RefResult
	}
	var items []item
	for si, sh := range shapes {
		p := sh.Build()
		if p == nil {
			continue
		}
		ref, err := progen.Interpret(p)
		if err != nil {
			continue
		}
		seen := map[string]bool{}
		var keys []string
		for _, j := range Run(p, Schedule{}, Options{MrpPid: 5151}).Jobs {
			if !seen[j.Key] {
				seen[j.Key] = true
				keys = append(keys, j.Key)
			}
		}
		sort.Strings(keys)
		for ki, k := range keys {
			for _, kind := range bFaultKinds {
				items = append(items, item{BFaultCase{Tier: "B", Shape: sh, Fault: Fault{Job: k, Kind: kind}}, p, ref})
			}
			// the same stage written in python: first shape only (thorough: all)
			if si == 0 || r.Thorough() {
				for _, kind := range pyFaultKinds {
					items = append(items, item{BFaultCase{Tier: "B", Shape: sh, Fault: Fault{Job: k, Kind: kind}, Py: true}, p, ref})
				}
			}
			// automatic retry costs seconds per restart (mrp's 3 s step):
			// one job per shape in the quick tier, every job in the thorough
			if r.Thorough() || ki == (si+1)%len(keys) {
				items = append(items,
					item{BFaultCase{Tier: "B", Shape: sh, Fault: Fault{Job: k, Kind: "kill-monitor", Times: 1}, Retries: 1}, p, ref},
					item{BFaultCase{Tier: "B", Shape: sh, Fault: Fault{Job: k, Kind: "errors-early", Times: 1}, Retries: 1}, p, ref})
				if r.Thorough() {
					items = append(items,
						item{BFaultCase{Tier: "B", Shape: sh, Fault: Fault{Job: k, Kind: "kill-monitor", Times: 2}, Retries: 1}, p, ref},
						item{BFaultCase{Tier: "B", Shape: sh, Fault: Fault{Job: k, Kind: "kill-monitor", Times: 2}, Retries: 2}, p, ref})
				}
			}
		}
	}
	// the slow (retry) items first, so that they overlap with the others
	sort.SliceStable(items, func(i, j int) bool { return items[i].c.Retries > items[j].c.Retries })
	for wi, it := range items {
		if !r.Mine(wi) {
			continue
		}
		if time.Now().After(deadline) {
			r.Cap("time budget of the real-binary phase reached")
			break
		}
		viol, class := evalBFault(it.c, it.p, it.ref)
		key := fmt.Sprintf("B|%s|%s|%s|r%d.%d|py=%v", it.c.Shape.Name(), it.c.Fault.Job, it.c.Fault.Kind, it.c.Retries, it.c.Fault.Times, it.c.Py)
		if class == "fault-site-not-reached" || class == "not-started" {
			r.Eval("")
			r.Outcome("tierb-" + class)
			continue
		}
		r.Eval(key)
		r.Add("tierb_runs", 1)
		if len(viol) == 0 {
			r.Outcome("tierb:" + it.c.Fault.Kind + ":" + class)
			if wi%41 == 0 {
				r.Sample(map[string]interface{}{"tier": "real binaries", "shape": it.c.Shape.Name(), "job": it.c.Fault.Job, "fault": it.c.Fault.Kind, "mrp": class})
			}
			continue
		}
		v2, _ := evalBFault(it.c, it.p, it.ref)
		if normText(strings.Join(v2, "\n")) != normText(strings.Join(viol, "\n")) {
			r.Inconclusive(key + ": non-reproducible: " + normText(viol[0]))
			continue
		}
		r.Outcome("tierb-violation")
		c := it.c
		c.Shape.Program = it.p.MRO()
		phase := c.Fault.Job[strings.LastIndex(c.Fault.Job, ".")+1:]
		for _, v := range viol {
			v = normText(v)
			r.Report(ev.Finding{Sig: faultSig(v, FaultCase{Fault: c.Fault}, phase) + ":real",
				What: fmt.Sprintf("real mrp/mrjob (python stages: %v), %s, job %s fault %s autoretry=%d: %s", c.Py, c.Shape.Name(), c.Fault.Job, c.Fault.Kind, c.Retries, v), Case: c})
		}
	}
}

// ---------------------------------------------------------------------------
// C05 with real processes.

// BCrashCase is the replayable unit of the real-binary interruption phase.
type BCrashCase struct {
	Tier  string `json:"tier"`
	Shape DfCase `json:"shape"`
	// Kind: kill (SIGKILL to mrp before its At-th file-system effect), term /
	// int (that handled signal instead), jobkill (SIGKILL to mrp just before
	// the At-th effect of the monitor of job Job)
	Kind   string `json:"kind"`
	At     int    `json:"at"`
	Job    string `json:"job,omitempty"`
	Effect string `json:"effect,omitempty"`
	// Cores: --localcores (0 = 4).  With 1, jobs that could run side by side
	// wait in mrp's local queue while one runs.
	Cores int `json:"localcores,omitempty"`
}

type bBaseline struct {
	effects  int
	outs     string
	tree     string
	jobFx    map[string]int
	jobKeys  []string
	refOuts  *progen.Val
	fileProg bool
}

func normB(s string, r *BResult) string {
	return uniqDirRe.ReplaceAllString(strings.ReplaceAll(s, r.PsDir, "<ps>"), "-u<uniq>")
}

func outsTreeB(r *BResult) string {
	var lines []string
	filepath.Walk(filepath.Join(r.PsDir, "outs"), func(pth string, info os.FileInfo, err error) error {
		if err == nil && !info.IsDir() {
			lines = append(lines, strings.TrimPrefix(pth, r.PsDir))
		}
		return nil
	})
	sort.Strings(lines)
	return strings.Join(lines, "\n")
}

func vdrModeOf(sh DfCase) string {
	if sh.Ff != nil {
		return sh.Ff.Mode
	}
	return ""
}

func bBaselineOf(sh DfCase, p *progen.Program, cores int) *bBaseline {
	b := &bBaseline{jobFx: map[string]int{}, fileProg: sh.Ff != nil}
	r := RunB(p, BOptions{Install: "fsmrp", EffectLog: true, VdrMode: vdrModeOf(sh), Cores: cores})
	defer r.Cleanup()
	if r.Err != "" || r.Exit != 0 {
		return nil
	}
	b.effects = len(r.Effects)
	b.outs = normB(r.TopOuts, r)
	b.tree = outsTreeB(r)
	for _, o := range r.Obs {
		b.jobKeys = append(b.jobKeys, o.Key)
	}
	sort.Strings(b.jobKeys)
	rj := RunB(p, BOptions{Install: "fsjob", EffectLog: true, VdrMode: vdrModeOf(sh), Cores: cores})
	defer rj.Cleanup()
	for k, fx := range rj.JobFx {
		b.jobFx[k] = len(fx)
	}
	if sh.Ff == nil {
		if ref, err := progen.Interpret(p); err == nil {
			b.refOuts = ref.TopOuts
		}
	}
	return b
}

func evalBCrash(c BCrashCase, p *progen.Program, base *bBaseline) (viol []string, class, effect string) {
	o1 := BOptions{KeepDir: true, VdrMode: vdrModeOf(c.Shape), Timeout: 60 * time.Second, Cores: c.Cores}
	switch c.Kind {
	case "kill":
		o1.Install, o1.KillAt, o1.KillSig = "fsmrp", c.At, "KILL"
	case "term":
		o1.Install, o1.KillAt, o1.KillSig = "fsmrp", c.At, "TERM"
	case "int":
		o1.Install, o1.KillAt, o1.KillSig = "fsmrp", c.At, "INT"
	case "jobkill":
		o1.Install, o1.JobKillMatch, o1.JobKillAt = "fsjob", c.Job, c.At
	}
	r1 := RunB(p, o1)
	if r1.Err != "" {
		return nil, "not-started", ""
	}
	defer r1.Cleanup()
	if n := len(r1.Effects); n > 0 {
		effect = strings.ReplaceAll(r1.Effects[n-1], r1.Dir, "")
		if strings.HasPrefix(effect, "SIGNAL") && n > 1 {
			effect = strings.ReplaceAll(r1.Effects[n-2], r1.Dir, "")
		}
	}
	if c.Kind == "jobkill" {
		if fx := r1.JobFx[c.Job]; len(fx) > 0 {
			effect = strings.ReplaceAll(fx[len(fx)-1], r1.Dir, "")
			for _, l := range fx {
				if strings.HasPrefix(l, "KILL") {
					effect = "monitor of " + c.Job + ": " + pidRe.ReplaceAllString(strings.ReplaceAll(l, r1.Dir, ""), "")
				}
			}
		}
	}
	if r1.TimedOut {
		return []string{"the interrupted mrp did not end within 60 s"}, "timeout", effect
	}
	interrupted := r1.Signal != "" || (r1.Exit != 0 && (c.Kind == "term" || c.Kind == "int"))
	if !interrupted {
		if r1.Exit == 0 && strings.Contains(r1.Console, "Pipestance completed successfully") {
			return nil, "not-reached", effect // fewer effects in this run than the index
		}
		return []string{fmt.Sprintf("mrp ended with exit status %d without having been interrupted: %s", r1.Exit, firstLine(ConsoleTail(r1.Console, 3)))}, "odd", effect
	}
	handled := c.Kind == "term" || c.Kind == "int"
	if handled {
		if r1.Signal == "" && r1.Exit == 0 {
			viol = append(viol, "mrp exited with status 0 after a termination signal")
		}
		if r1.Lock {
			viol = append(viol, "a handled termination signal left the pipestance locked (_lock still present)")
		}
	}
	done := map[string]bool{}
	for _, d := range r1.Completed {
		done[d] = true
	}
	recorded := map[string]bool{}
	for _, o := range r1.Obs {
		if o.How == "complete" && done[strings.TrimPrefix(o.MdPath, r1.PsDir+"/")] {
			recorded[keyIdent(o.Key)] = true
		}
	}
	r2 := RunB(p, BOptions{Dir: r1.Dir, RemoveLock: true, VdrMode: vdrModeOf(c.Shape), Timeout: 60 * time.Second, Cores: c.Cores})
	if r2.TimedOut {
		return append(viol, "the restarted mrp did not end within 60 s"), "restart-timeout", effect
	}
	if r2.Exit != 0 || !strings.Contains(r2.Console, "Pipestance completed successfully") {
		fq, log := ParseFailure(r2.Console)
		creating := true
		for _, e := range r1.Effects {
			if strings.Contains(e, "/ps/_timestamp ") {
				creating = false
			}
		}
		if c.Kind == "jobkill" {
			creating = false
		}
		if creating {
			return append(viol, "restart refused after a crash during pipestance creation: "+normText(firstLine(log))), "restart-refused", effect
		}
		return append(viol, fmt.Sprintf("restarted pipestance ended with exit status %d: %s: %s", r2.Exit, fq, normText(firstLine(log)))), "restart-failed", effect
	}
	if base.fileProg {
		if got := normB(r2.TopOuts, r2); got != base.outs {
			viol = append(viol, "final outputs after restart differ from the uninterrupted run: "+firstDiff(base.outs, got))
		}
		if got := outsTreeB(r2); got != base.tree {
			viol = append(viol, "the outs/ directory after restart differs from the uninterrupted run: "+firstDiff(base.tree, got))
		}
	} else if v, err := progen.ParseJSON([]byte(r2.TopOuts)); err != nil {
		viol = append(viol, "restarted pipestance has no readable top-level outputs")
	} else if base.refOuts != nil {
		if d := progen.EqSlack(base.refOuts, v, "outs"); d != "" {
			viol = append(viol, "final outputs after restart differ from the uninterrupted run: "+d)
		}
	}
	var rerun []string
	for _, o := range r2.Obs {
		if recorded[keyIdent(o.Key)] {
			rerun = append(rerun, o.Key)
		}
	}
	sort.Strings(rerun)
	for _, k := range rerun {
		viol = append(viol, "job "+k+" had recorded its completion before the interruption but was executed again")
	}
	return viol, "resumed", effect
}

// TierBCrash is the real-binary phase of C05.
func TierBCrash(r *ev.Run) {
	if os.Getenv("VERIF_NO_TIERB") != "" {
		return
	}
	deadline := tierBDeadline(r, 130*time.Second, 15*time.Minute)
	all := Shapes(true)
	shapes := []DfCase{all[2], all[3]}
	shapes = append(shapes, CrashFileShapes(false)[:1]...)
	if r.Thorough() {
		shapes = append(all[:6:6], CrashFileShapes(true)...)
	}
	type item struct {
		c    BCrashCase
		p    *progen.Program
		base *bBaseline
	}
	var items []item
	for _, sh := range shapes {
		p := sh.Build()
		if p == nil {
			continue
		}
		base := bBaselineOf(sh, p, 0)
		if base == nil || base.effects == 0 {
			r.Inconclusive("real binaries: no uninterrupted baseline for " + sh.Name())
			continue
		}
		r.Add("tierb_mrp_effects", int64(base.effects))
		for n := 1; n <= base.effects+2; n++ {
			items = append(items, item{BCrashCase{Tier: "B", Shape: sh, Kind: "kill", At: n}, p, base})
			items = append(items, item{BCrashCase{Tier: "B", Shape: sh, Kind: "term", At: n}, p, base})
			if r.Thorough() {
				items = append(items, item{BCrashCase{Tier: "B", Shape: sh, Kind: "int", At: n}, p, base})
			}
		}
		// one core only: forks that could run side by side wait in mrp's
		// in-memory local queue while one of them runs
		if sh.Family == "dataflow" && sh.Params.Map == "top" {
			if b1 := bBaselineOf(sh, p, 1); b1 != nil && b1.effects > 0 {
				for n := 1; n <= b1.effects+2; n++ {
					items = append(items, item{BCrashCase{Tier: "B", Shape: sh, Kind: "kill", At: n, Cores: 1}, p, b1})
					if r.Thorough() {
						items = append(items, item{BCrashCase{Tier: "B", Shape: sh, Kind: "term", At: n, Cores: 1}, p, b1})
					}
				}
				// ... and mrp dies while a job runs and its sibling is queued
				for _, k := range b1.jobKeys {
					for m := 1; m <= b1.jobFx[k]+1; m++ {
						items = append(items, item{BCrashCase{Tier: "B", Shape: sh, Kind: "jobkill", At: m, Job: k, Cores: 1}, p, b1})
					}
				}
			}
		}
		for _, k := range base.jobKeys {
			r.Add("tierb_monitor_effects", int64(base.jobFx[k]))
			for m := 1; m <= base.jobFx[k]+1; m++ {
				items = append(items, item{BCrashCase{Tier: "B", Shape: sh, Kind: "jobkill", At: m, Job: k}, p, base})
			}
		}
	}
	// job-side interruptions first (few, and they reach the instants in which
	// mrp itself does nothing)
	sort.SliceStable(items, func(i, j int) bool { return (items[i].c.Kind == "jobkill") && (items[j].c.Kind != "jobkill") })
	for wi, it := range items {
		if !r.Mine(wi) {
			continue
		}
		if time.Now().After(deadline) {
			r.Cap("time budget of the real-binary phase reached")
			break
		}
		viol, class, effect := evalBCrash(it.c, it.p, it.base)
		key := fmt.Sprintf("B|%s|%s|%d|%s|cores=%d", it.c.Shape.Name(), it.c.Kind, it.c.At, it.c.Job, it.c.Cores)
		if class == "not-reached" || class == "not-started" {
			r.Eval("")
			r.Outcome("tierb-" + class)
			continue
		}
		r.Eval(key)
		r.Add("tierb_runs", 1)
		if len(viol) == 0 {
			r.Outcome("tierb:" + it.c.Kind + ":" + class)
			if wi%197 == 0 {
				r.Sample(map[string]interface{}{"tier": "real binaries", "shape": it.c.Shape.Name(), "interruption": it.c.Kind, "at": it.c.At, "job": it.c.Job, "before_effect": effect})
			}
			continue
		}
		v2, _, _ := evalBCrash(it.c, it.p, it.base)
		if normText(strings.Join(v2, "\n")) != normText(strings.Join(viol, "\n")) {
			r.Inconclusive(key + ": non-reproducible: " + normText(viol[0]))
			continue
		}
		r.Outcome("tierb-violation")
		c := it.c
		c.Effect = effect
		c.Shape.Program = it.p.MRO()
		for _, v := range viol {
			v = normText(v)
			sig := crashSig(v, effect)
			if !strings.HasSuffix(sig, "during-creation") {
				sig += ":real"
			}
			r.Report(ev.Finding{Sig: sig, What: fmt.Sprintf("real mrp/mrjob (localcores=%d), %s, %s at %d %s (%s): %s", c.Cores, c.Shape.Name(), c.Kind, c.At, c.Job, effect, v), Case: c})
		}
	}
}

// ---------------------------------------------------------------------------
// C12 with real processes: the local job manager's reservations, observed as
// the property's own observation point says - "overlap of job execution
// intervals weighted by the reservations recorded in _jobinfo".

// BResCase is the replayable unit of the real-binary resource phase.
type BResCase struct {
	Tier    string       `json:"tier"`
	Kind    string       `json:"kind"` // "resources"
	Cores   int          `json:"localcores"`
	MemGB   int          `json:"localmem"`
	Reqs    [][2]float64 `json:"requests"` // (threads, mem_gb) per stage; 0 = default
	Mapped  int          `json:"mapped_forks,omitempty"`
	Program string       `json:"program_mro,omitempty"`
	// JobMode "fake_remote": the cluster code path; MaxJobs its --maxjobs;
	// Local: the calls carry the local modifier (they run under the local
	// limits even in cluster mode)
	JobMode string `json:"jobmode,omitempty"`
	MaxJobs int    `json:"maxjobs,omitempty"`
	Local   bool   `json:"local_calls,omitempty"`
}

func resProgram(c BResCase) *progen.Program {
	p := &progen.Program{}
	top := &progen.Pipeline{Name: "TOP", Ins: []progen.Param{{T: progen.IntT, Name: "n"}}}
	if c.Mapped > 0 {
		st := &progen.Stage{Name: "JOB0", Fn: "ADD", Ins: []progen.Param{{T: progen.IntT, Name: "a"}, {T: progen.IntT, Name: "b"}},
			Outs: []progen.Param{{T: progen.IntT, Name: "sum"}}, Threads: c.Reqs[0][0], MemGB: c.Reqs[0][1]}
		p.Stages = append(p.Stages, st)
		var elems []*progen.Val
		for i := 0; i < c.Mapped; i++ {
			elems = append(elems, progen.Int(int64(i)))
		}
		top.Calls = append(top.Calls, &progen.Call{Callee: "JOB0", Map: true, Local: c.Local, Binds: []progen.Bind{
			{Name: "a", E: progen.SplitE(progen.Lit(progen.Arr(elems...)))}, {Name: "b", E: progen.Self("n")}}})
		top.Outs = append(top.Outs, progen.Param{T: progen.ArrayOf(progen.IntT), Name: "r0"})
		top.Ret = append(top.Ret, progen.Bind{Name: "r0", E: progen.Ref("JOB0", "sum")})
	} else {
		for i, rq := range c.Reqs {
			name := fmt.Sprintf("JOB%d", i)
			st := &progen.Stage{Name: name, Fn: "ADD", Ins: []progen.Param{{T: progen.IntT, Name: "a"}, {T: progen.IntT, Name: "b"}},
				Outs: []progen.Param{{T: progen.IntT, Name: "sum"}}, Threads: rq[0], MemGB: rq[1]}
			p.Stages = append(p.Stages, st)
			top.Calls = append(top.Calls, &progen.Call{Callee: name, Local: c.Local, Binds: []progen.Bind{
				{Name: "a", E: progen.Self("n")}, {Name: "b", E: progen.Lit(progen.Int(int64(i)))}}})
			top.Outs = append(top.Outs, progen.Param{T: progen.IntT, Name: fmt.Sprintf("r%d", i)})
			top.Ret = append(top.Ret, progen.Bind{Name: fmt.Sprintf("r%d", i), E: progen.Ref(name, "sum")})
		}
	}
	p.Pipelines = []*progen.Pipeline{top}
	p.Top = &progen.Call{Callee: "TOP", Binds: []progen.Bind{{Name: "n", E: progen.Lit(progen.Int(5))}}}
	return p
}

func evalBRes(c BResCase) (viol []string, class string) {
	p := resProgram(c)
	ref, err := progen.Interpret(p)
	if err != nil {
		return nil, "reference: " + err.Error()
	}
	// every job's stage code takes 60 ms, so that jobs overlap whenever the
	// job manager lets them
	slow := map[string]int{}
	if c.Mapped > 0 {
		for i := 0; i < c.Mapped; i++ {
			slow[fmt.Sprintf("ID.%s.TOP.JOB0.fork%d.chnk0.main", Psid, i)] = 60
		}
	} else {
		for i := range c.Reqs {
			slow[fmt.Sprintf("ID.%s.TOP.JOB%d.fork0.chnk0.main", Psid, i)] = 60
		}
	}
	if c.JobMode != "" {
		// the cluster loop polls every 3 s: jobs overlap only if they take longer
		for k := range slow {
			slow[k] = 400
		}
	}
	br := RunB(p, BOptions{Cores: c.Cores, MemGB: c.MemGB, Slow: slow, Timeout: 150 * time.Second, JobMode: c.JobMode, MaxJobs: c.MaxJobs})
	if br.Err != "" {
		return nil, "not-started"
	}
	defer br.Cleanup()
	if br.TimedOut {
		return []string{fmt.Sprintf("every request fits the limits (cores %d, memory %d GB after clamping) but mrp did not finish within 60 s", c.Cores, c.MemGB)}, "stalled"
	}
	if br.Exit != 0 {
		fq, log := ParseFailure(br.Console)
		return []string{fmt.Sprintf("mrp ended with exit status %d: %s: %s", br.Exit, fq, firstLine(log))}, "failed"
	}
	if len(br.Obs) != len(ref.Jobs) {
		viol = append(viol, fmt.Sprintf("%d jobs executed, the program denotes %d", len(br.Obs), len(ref.Jobs)))
	}
	maxT, maxM := 0.0, 0.0
	maxJobs := 0
	limited := c.JobMode == "" || c.Local // the local limits apply
	for i := range br.Obs {
		o := &br.Obs[i]
		if c.MaxJobs > 0 {
			n := 0
			var with []string
			for k := range br.Obs {
				q := &br.Obs[k]
				if q.StartNs <= o.StartNs && o.StartNs < q.EndNs {
					n++
					with = append(with, q.Key)
				}
			}
			if n > maxJobs {
				maxJobs = n
			}
			if n > c.MaxJobs && !c.Local {
				viol = append(viol, fmt.Sprintf("%d cluster jobs run at once %v with --maxjobs=%d", n, with, c.MaxJobs))
			}
		}
		if !limited {
			continue
		}
		if o.Threads <= 0 || o.Threads > float64(c.Cores) {
			viol = append(viol, fmt.Sprintf("job %s runs with a reservation of %v threads recorded in _jobinfo (limit %d)", o.Key, o.Threads, c.Cores))
		}
		if o.MemGB <= 0 || o.MemGB > float64(c.MemGB) {
			viol = append(viol, fmt.Sprintf("job %s runs with a reservation of %v GB recorded in _jobinfo (limit %d)", o.Key, o.MemGB, c.MemGB))
		}
		// the jobs whose stage code is running at the instant this one starts
		t, m := 0.0, 0.0
		var with []string
		for k := range br.Obs {
			q := &br.Obs[k]
			if q.StartNs <= o.StartNs && o.StartNs < q.EndNs {
				t += q.Threads
				m += q.MemGB
				with = append(with, q.Key)
			}
		}
		if t > maxT {
			maxT = t
		}
		if m > maxM {
			maxM = m
		}
		if t > float64(c.Cores)+1e-9 {
			viol = append(viol, fmt.Sprintf("%v threads reserved by simultaneously running jobs %v exceed --localcores=%d", t, with, c.Cores))
		}
		if m > float64(c.MemGB)+1e-9 {
			viol = append(viol, fmt.Sprintf("%v GB reserved by simultaneously running jobs %v exceed --localmem=%d", m, with, c.MemGB))
		}
	}
	if c.JobMode != "" {
		return viol, fmt.Sprintf("ok:%s:peak-jobs=%d:peak-threads=%v:peak-mem=%v", c.JobMode, maxJobs, maxT, maxM)
	}
	return viol, fmt.Sprintf("ok:peak-threads=%v:peak-mem=%v", maxT, maxM)
}

// TierBResources is the real-binary phase of C12 (run in the parent process,
// cases in parallel).
func TierBResources(r *ev.Run) {
	if os.Getenv("VERIF_NO_TIERB") != "" {
		return
	}
	if _, err := TierBRoot(); err != nil {
		fmt.Println(err)
		os.Exit(2)
	}
	deadline := tierBDeadline(r, 90*time.Second, 8*time.Minute)
	shapes := [][2]float64{{0, 0}, {1, 1}, {2, 1}, {1, 2}, {2, 2}, {3, 1}, {1, 3}, {0.5, 0.5}, {-1, 1}}
	var cases []BResCase
	n := len(shapes)
	for i := 0; i < n; i++ {
		for j := i; j < n; j++ {
			for k := j; k < n; k++ {
				if !r.Thorough() && k >= 7 && (i >= 7 || j >= 7) {
					continue
				}
				cases = append(cases, BResCase{Tier: "B", Kind: "resources", Cores: 2, MemGB: 2, Reqs: [][2]float64{shapes[i], shapes[j], shapes[k]}})
			}
		}
	}
	for _, s := range shapes {
		cases = append(cases, BResCase{Tier: "B", Kind: "resources", Cores: 2, MemGB: 2, Reqs: [][2]float64{s}, Mapped: 4})
		cases = append(cases, BResCase{Tier: "B", Kind: "resources", Cores: 3, MemGB: 4, Reqs: [][2]float64{s}, Mapped: 5})
	}
	// cluster mode (the repository's fake_remote template: the job script code
	// path, the max-jobs semaphore; every scheduler step takes 3 s there, so
	// these come first and overlap with the rest): --maxjobs, and calls with the
	// local modifier, which stay under the local limits
	cluster := []BResCase{
		{Tier: "B", Kind: "resources", Cores: 4, MemGB: 8, Reqs: [][2]float64{{1, 1}}, Mapped: 5, JobMode: "fake_remote", MaxJobs: 2},
		{Tier: "B", Kind: "resources", Cores: 2, MemGB: 2, Reqs: [][2]float64{{3, 3}, {1, 1}, {-1, 1}}, JobMode: "fake_remote", MaxJobs: 4, Local: true},
	}
	if r.Thorough() {
		cluster = append(cluster,
			BResCase{Tier: "B", Kind: "resources", Cores: 4, MemGB: 8, Reqs: [][2]float64{{1, 1}}, Mapped: 5, JobMode: "fake_remote", MaxJobs: 1},
			BResCase{Tier: "B", Kind: "resources", Cores: 2, MemGB: 2, Reqs: [][2]float64{{2, 2}}, Mapped: 4, JobMode: "fake_remote", MaxJobs: 4, Local: true},
			BResCase{Tier: "B", Kind: "resources", Cores: 2, MemGB: 2, Reqs: [][2]float64{{3, 1}, {1, 3}, {0.5, 0.5}}, JobMode: "fake_remote", MaxJobs: 4, Local: true})
	}
	cases = append(cluster, cases...)
	ev.ParallelFor(len(cases), func(i int) bool {
		if time.Now().After(deadline) && cases[i].JobMode == "" {
			r.Cap("time budget of the real-binary phase reached")
			return false
		}
		c := cases[i]
		viol, class := evalBRes(c)
		if strings.HasPrefix(class, "reference") || class == "not-started" {
			r.Eval("")
			r.Outcome("tierb-" + class)
			return true
		}
		r.Eval(fmt.Sprintf("B|res|%d|%d|%v|%d|%s|%d|%v", c.Cores, c.MemGB, c.Reqs, c.Mapped, c.JobMode, c.MaxJobs, c.Local))
		r.Add("tierb_runs", 1)
		if len(viol) == 0 {
			r.Outcome("tierb-" + class)
			if i%37 == 0 {
				r.Sample(map[string]interface{}{"tier": "real binaries", "localcores": c.Cores, "localmem": c.MemGB, "requests(threads,mem_gb)": c.Reqs, "mapped_forks": c.Mapped, "observed": class})
			}
			return true
		}
		v2, _ := evalBRes(c)
		if len(v2) == 0 {
			// over-subscription depends on the real interleaving: seen once is
			// seen (the observation itself is sound), but say so
			r.AddNote("tierb_not_reproduced_on_second_run", viol[0])
		}
		r.Outcome("tierb-violation")
		c.Program = resProgram(c).MRO()
		for _, v := range viol {
			words := strings.Fields(v)
			for wi, w := range words {
				if strings.HasPrefix(w, "ID.") || strings.ContainsAny(w, "[]") {
					words[wi] = "_"
				}
			}
			if len(words) > 8 {
				words = words[:8]
			}
			r.Report(ev.Finding{Sig: "C12:real:" + strings.Join(words, "_"), What: fmt.Sprintf("real mrp/mrjob, jobmode=%q --localcores=%d --localmem=%d --maxjobs=%d local calls=%v, requests %v mapped=%d: %s", c.JobMode, c.Cores, c.MemGB, c.MaxJobs, c.Local, c.Reqs, c.Mapped, v), Case: c})
		}
		return true
	})
}
