//go:build verif

package psx

import (
	"fmt"
	"sort"
	"strings"

	"verif/lib/progen"
)

func dropInternal(v *progen.Val) *progen.Val {
	if v == nil || v.K != progen.VObj {
		return v
	}
	o := progen.Obj(nil)
	for k, e := range v.O {
		if !strings.HasPrefix(k, "__") {
			o.O[k] = e
		}
	}
	return o
}

type jobClass struct{ path, phase string }

// matchJobs pairs reference jobs with observed jobs of the same call path
// and phase: fork naming is an implementation detail, so the pairing is a
// multiset match on the argument values (with chunk index for chunks).
// It returns violations.
func matchJobs(ref []*progen.RefJob, obs []*ObsJob, what string) []string {
	var out []string
	rb := map[jobClass][]*progen.RefJob{}
	ob := map[jobClass][]*ObsJob{}
	for _, j := range ref {
		c := jobClass{j.Path, j.Phase}
		rb[c] = append(rb[c], j)
	}
	for _, j := range obs {
		c := jobClass{j.Path, j.Phase}
		ob[c] = append(ob[c], j)
	}
	var classes []jobClass
	seen := map[jobClass]bool{}
	for c := range rb {
		if !seen[c] {
			seen[c] = true
			classes = append(classes, c)
		}
	}
	for c := range ob {
		if !seen[c] {
			seen[c] = true
			classes = append(classes, c)
		}
	}
	sort.Slice(classes, func(i, j int) bool {
		if classes[i].path != classes[j].path {
			return classes[i].path < classes[j].path
		}
		return classes[i].phase < classes[j].phase
	})
	for _, c := range classes {
		rs, os := rb[c], ob[c]
		if what == "count" || len(rs) != len(os) {
			if len(rs) != len(os) {
				out = append(out, fmt.Sprintf("call %s phase %s: %d job(s) executed, the program denotes %d",
					c.path, c.phase, len(os), len(rs)))
			}
			if what == "count" {
				continue
			}
			continue
		}
		// greedy multiset matching
		used := make([]bool, len(os))
		for _, r := range rs {
			found := false
			firstDiff := ""
			for i, o := range os {
				if used[i] {
					continue
				}
				if r.Chunk != o.Chunk {
					continue
				}
				d := compareJob(r, o)
				if d == "" {
					used[i] = true
					found = true
					break
				}
				if firstDiff == "" {
					firstDiff = d
				}
			}
			if !found {
				if firstDiff == "" {
					firstDiff = "no executed job with chunk index " + fmt.Sprint(r.Chunk)
				}
				out = append(out, fmt.Sprintf("call %s phase %s (instance %s): no executed job received the denoted arguments %s; closest difference: %s",
					c.path, c.phase, r.Inst, dropInternal(r.Args).Show(), firstDiff))
			}
		}
	}
	return out
}

func compareJob(r *progen.RefJob, o *ObsJob) string {
	if o.Args == nil {
		return "job did not read arguments: " + o.ArgsText
	}
	if d := progen.EqSlack(dropInternal(r.Args), dropInternal(o.Args), "args"); d != "" {
		return d
	}
	if r.Phase == "join" {
		if len(r.ChunkDefs) != len(o.ChunkDefs) {
			return fmt.Sprintf("join received %d chunk defs, expected %d", len(o.ChunkDefs), len(r.ChunkDefs))
		}
		for i := range r.ChunkDefs {
			if d := progen.EqSlack(dropInternal(r.ChunkDefs[i]), dropInternal(o.ChunkDefs[i]), fmt.Sprintf("chunk_defs[%d]", i)); d != "" {
				return d
			}
		}
		if len(r.ChunkOuts) != len(o.ChunkOuts) {
			return fmt.Sprintf("join received %d chunk outs, expected %d", len(o.ChunkOuts), len(r.ChunkOuts))
		}
		for i := range r.ChunkOuts {
			// chunk outs carry the stage-level outs keys too (null there);
			// compare only the keys the reference chunk produced non-null
			ro := progen.Obj(nil)
			oo := progen.Obj(nil)
			for k, v := range r.ChunkOuts[i].O {
				if v != nil && !v.IsNullish() {
					ro.O[k] = v
					if o.ChunkOuts[i] != nil && o.ChunkOuts[i].K == progen.VObj {
						if ov, ok := o.ChunkOuts[i].O[k]; ok {
							oo.O[k] = ov
						}
					}
				}
			}
			if d := progen.EqSlack(ro, oo, fmt.Sprintf("chunk_outs[%d]", i)); d != "" {
				return d
			}
		}
	}
	return ""
}

// firstAttempts keeps, per job key, the successful (last) attempt.
func finishedJobs(obs []*ObsJob) []*ObsJob {
	var out []*ObsJob
	for _, o := range obs {
		if o.Finished && o.How == "complete" {
			out = append(out, o)
		}
	}
	return out
}

// CheckDataflow is the C01 oracle for a completed, fault-free run.
func CheckDataflow(ref *progen.RefResult, res *Result) []string {
	var out []string
	if res.Err != "" {
		return []string{"run error: " + res.Err}
	}
	if res.Stalled {
		return []string{"pipestance stalled in state " + res.State + " (no job pending, no progress)"}
	}
	if res.State != "complete" && res.State != "disabled" {
		return []string{"pipestance ended in state " + res.State + ": " + res.FatalFq + ": " + firstLine(res.FatalLog) + logMarker(res.FatalLog)}
	}
	out = append(out, matchJobs(ref.Jobs, finishedJobs(res.Jobs), "args")...)
	if res.TopOuts == nil {
		out = append(out, "top-level _outs missing or unparseable: "+res.TopOutsText)
	} else if d := progen.EqSlack(ref.TopOuts, res.TopOuts, "outs"); d != "" {
		msg := "top-level outputs: " + d
		// a job that was handed an unexpanded merge expression computes
		// from it: the wrong output is the same (known) defect downstream
		if !strings.Contains(msg, `"merge_value"`) {
			for _, j := range res.Jobs {
				if strings.Contains(j.ArgsText, `"merge_value"`) {
					msg += ` [a job was handed an unexpanded "merge_value" expression]`
					break
				}
			}
		}
		out = append(out, msg)
	}
	return out
}

func firstLine(s string) string {
	if i := strings.IndexByte(s, '\n'); i >= 0 {
		return s[:i]
	}
	return s
}

// CheckExactlyOnce is the C03 oracle for a completed, fault-free run.
func CheckExactlyOnce(ref *progen.RefResult, res *Result) []string {
	var out []string
	if res.Err != "" {
		return []string{"run error: " + res.Err}
	}
	if res.Stalled {
		return []string{"pipestance stalled in state " + res.State}
	}
	if res.State != "complete" && res.State != "disabled" {
		return []string{"pipestance ended in state " + res.State + ": " + res.FatalFq + ": " + firstLine(res.FatalLog) + logMarker(res.FatalLog)}
	}
	// every submission counts, finished or not
	out = append(out, matchJobs(ref.Jobs, res.Jobs, "count")...)
	seen := map[string]int{}
	for _, o := range res.Jobs {
		seen[o.Key]++
	}
	keys := make([]string, 0, len(seen))
	for k := range seen {
		keys = append(keys, k)
	}
	sort.Strings(keys)
	for _, k := range keys {
		if seen[k] > 1 {
			out = append(out, fmt.Sprintf("job %s was submitted %d times", k, seen[k]))
		}
	}
	for _, e := range res.Events {
		if e.Kind == "dup" {
			out = append(out, "job submitted twice for the same metadata directory: "+e.Job)
		}
	}
	// stage calls the reference says never run must have no job
	ran := map[string]bool{}
	for _, o := range res.Jobs {
		ran[o.Path] = true
	}
	var paths []string
	for p := range ref.StagePaths {
		paths = append(paths, p)
	}
	sort.Strings(paths)
	for _, p := range paths {
		if ref.ForkCount[p] == 0 && ran[p] {
			out = append(out, "call "+p+" is disabled (or maps over nothing) but a job of it was executed")
		}
	}
	return out
}

// CheckOrder is the C02 oracle: evaluated on the event log at every submit.
func CheckOrder(ref *progen.RefResult, res *Result) []string {
	var out []string
	if res.Err != "" {
		return nil
	}
	// deps per call path: union over the reference jobs of that path
	deps := map[string]map[string]bool{}
	for _, j := range ref.Jobs {
		if deps[j.Path] == nil {
			deps[j.Path] = map[string]bool{}
		}
		for d := range j.Deps {
			deps[j.Path][d] = true
		}
	}
	// how many final jobs (main of non-split, join of split) each call has
	finalPhase := map[string]string{}
	for _, j := range ref.Jobs {
		if j.Phase == "join" {
			finalPhase[j.Path] = "join"
		} else if j.Phase == "main" && j.Chunk < 0 {
			if finalPhase[j.Path] == "" {
				finalPhase[j.Path] = "main"
			}
		}
	}
	byKey := map[string]*ObsJob{}
	for _, o := range res.Jobs {
		byKey[o.Key] = o
	}
	finished := map[string]int{} // call path -> finished final jobs
	finKeys := map[string]bool{} // job keys finished successfully
	forkSplitDone := map[string]bool{}
	chunkDone := map[string]int{}
	chunkSub := map[string]int{}
	for _, e := range res.Events {
		o := byKey[e.Job]
		switch e.Kind {
		case "finish":
			if o == nil || e.Info != "complete" {
				continue
			}
			finKeys[e.Job] = true
			forkId := o.Path + "#" + o.Fork
			switch {
			case o.Phase == "split":
				forkSplitDone[forkId] = true
			case o.Phase == "main" && o.Chunk >= 0 && finalPhase[o.Path] == "join":
				chunkDone[forkId]++
			}
			if o.Phase == finalPhase[o.Path] {
				finished[o.Path]++
			}
		case "submit":
			if o == nil {
				continue
			}
			forkId := o.Path + "#" + o.Fork
			for d := range deps[o.Path] {
				if want := ref.ForkCount[d]; finished[d] < want {
					out = append(out, fmt.Sprintf("job %s was submitted at loop iteration %d while the call %s it depends on had finished only %d of its %d fork(s)",
						e.Job, e.Iter, d, finished[d], want))
				}
			}
			if finalPhase[o.Path] == "join" {
				if o.Phase == "main" {
					chunkSub[forkId]++
					if !forkSplitDone[forkId] {
						out = append(out, fmt.Sprintf("chunk job %s submitted before the split job of its fork finished", e.Job))
					}
				}
				if o.Phase == "join" {
					if !forkSplitDone[forkId] {
						out = append(out, fmt.Sprintf("join job %s submitted before the split job of its fork finished", e.Job))
					}
					if chunkDone[forkId] < chunkSub[forkId] {
						out = append(out, fmt.Sprintf("join job %s submitted while %d of %d chunk jobs had not finished",
							e.Job, chunkSub[forkId]-chunkDone[forkId], chunkSub[forkId]))
					}
				}
			}
		}
	}
	return out
}

// logMarker tags messages whose cause is only visible further down the log.
func logMarker(log string) string {
	if strings.Contains(log, "circular fork sources") {
		return " [circular fork sources]"
	}
	return ""
}
