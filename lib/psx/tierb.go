//go:build verif

package psx

// Tier B: the same progen programs run by the REAL binaries - mrp, mrjob and a
// stage executable on top of the repository's Go adapter (cmd/vstage), all
// built from /repo's working tree by bin/build-tierb.  The observations
// (arguments each job read, job multiset, start/end instants, final outputs,
// exit status, console text) are converted into the Result type of the
// in-package harness, so the same oracles judge both tiers, and a tier-A
// (model job) trace can be compared with the real one job by job.

import (
	"bytes"
	"encoding/gob"
	"encoding/json"
	"fmt"
	"os"
	"os/exec"
	"path/filepath"
	"regexp"
	"sort"
	"strconv"
	"strings"
	"syscall"
	"time"

	"github.com/martian-lang/martian/martian/core"

	"verif/lib/ev"
	"verif/lib/progen"
)

// BOptions configures one incarnation of the real mrp.
type BOptions struct {
	Install   string // plain | fsmrp | fsjob
	VdrMode   string // "" = disable
	Strict    string
	Cores     int // --localcores (default 4)
	MemGB     int // --localmem (default 8)
	AutoRetry int
	// RetryWait: --retry-wait in seconds (with AutoRetry; default 0)
	RetryWait int
	// JobMode: "" = local; "fake_remote" = the cluster code path with the
	// repository's test template (jobs are started through a job script)
	JobMode string
	MaxJobs int
	// FlakyQueue (cluster mode): mrp runs from a private install whose queue
	// query tool prints only a header and exits non-zero on its first calls
	// (a scheduler that is briefly unreachable), and lists the pids afterwards
	FlakyQueue bool
	// PadPs (cluster mode): `ps` as the queue query tool of the repository
	// finds it prints the pid column right-aligned in a wider column, the
	// way procps does for every pid shorter than the column.
	PadPs bool
	Fault *Fault
	Slow  map[string]int // job key -> milliseconds before the body
	Gate  []string       // job keys that wait for Release
	// mrp-side kill / signal at its KillAt-th file-system effect (fsmrp)
	KillAt  int
	KillSig string // KILL (default) | TERM | INT
	// job-side: kill mrp just before the JobKillAt-th effect of the monitor
	// of job JobKillMatch (fsjob)
	JobKillMatch string
	JobKillAt    int
	EffectLog    bool
	// Dir: reuse this scratch directory (restart); "" = new
	Dir string
	// RemoveLock: remove <ps>/_lock before starting (restart after SIGKILL)
	RemoveLock bool
	Timeout    time.Duration
	KeepDir    bool
	ExtraArgs  []string
	// While runs concurrently with mrp (gating scenarios); mrp is waited for
	// after it returns.
	While func(b *BRun)
}

// BObs is one record written by cmd/vstage.
type BObs struct {
	Key       string   `json:"key"`
	Uniq      string   `json:"uniq"`
	Stage     string   `json:"stage"`
	Phase     string   `json:"phase"`
	MdPath    string   `json:"md"`
	FilesPath string   `json:"files"`
	Args      string   `json:"args"`
	ChunkDefs string   `json:"chunk_defs"`
	ChunkOuts string   `json:"chunk_outs"`
	StartNs   int64    `json:"start_ns"`
	EndNs     int64    `json:"end_ns"`
	Pid       int      `json:"pid"`
	Fault     string   `json:"fault"`
	How       string   `json:"how"`
	Problems  []string `json:"problems"`
	Written   []string `json:"written"`
	Threads   float64  `json:"threads"`
	MemGB     float64  `json:"mem_gb"`
	VMemGB    float64  `json:"vmem_gb"`
}

// BRun is a (possibly still running) incarnation.
type BRun struct {
	Dir, Ctl, PsDir string
	Cmd             *exec.Cmd
	out             bytes.Buffer
}

// BResult is what one incarnation left behind.
type BResult struct {
	Dir      string
	PsDir    string
	Exit     int
	Signal   string
	TimedOut bool
	Console  string
	Obs      []BObs
	Effects  []string            // mrp's numbered effects (fsmrp with EffectLog)
	JobFx    map[string][]string // monitor effects per job key (fsjob)
	TopOuts  string
	Lock     bool // <ps>/_lock still exists
	Wall     time.Duration
	// Completed lists metadata directories (relative to the pipestance) that
	// hold a _complete file.
	Completed []string
	Err       string
}

// pyStageModule is the stage code of every stage of a program with Py set:
// it passes what the python adapter handed it to "vstage --pyeval" (the same
// stage library), acts out process-level faults itself, and returns the
// result through the adapter.
const pyStageModule = `import json
import os
import subprocess
import sys
import time

import martian


def _call(args, outs=None, chunk_defs=None, chunk_outs=None):
    req = {
        "argv": sys.argv,
        "args": args.items(),
        "outs": outs.items() if outs is not None else None,
        "chunk_defs": [c.items() for c in chunk_defs] if chunk_defs is not None else None,
        "chunk_outs": [c.items() for c in chunk_outs] if chunk_outs is not None else None,
    }
    proc = subprocess.run([os.environ["VERIF_VSTAGE"], "--pyeval"],
                          input=json.dumps(req).encode("utf-8"), stdout=subprocess.PIPE)
    resp = json.loads(proc.stdout.decode("utf-8") or "{}")
    fault = resp.get("fault")
    if fault == "py-exception":
        raise ValueError("verif: python stage raised an exception")
    if fault == "errors-early":
        martian.throw("verif: stage raised an error before producing output")
    if fault == "assert-early":
        martian.exit("verif: stage assertion")
    if fault == "sys-exit":
        sys.exit(3)
    if fault == "sys-exit-msg":
        sys.exit("verif: giving up")
    if fault == "exit1":
        os._exit(1)
    if fault == "kill9":
        os.kill(os.getpid(), 9)
    if fault == "segv":
        os.kill(os.getpid(), 11)
    if fault == "kill-monitor":
        os.kill(os.getppid(), 9)
        time.sleep(5)
    if resp.get("error"):
        martian.throw(resp["error"])
    return resp


def split(args):
    return {"chunks": _call(args)["chunks"]}


def _set(outs, resp):
    for key, value in (resp.get("outs") or {}).items():
        setattr(outs, key, value)


def main(args, outs):
    _set(outs, _call(args, outs))


def join(args, outs, chunk_defs, chunk_outs):
    _set(outs, _call(args, outs, chunk_defs, chunk_outs))
`

var tierbRoot string

// TierBRoot returns the directory bin/build-tierb populated (building it on
// first use).
func TierBRoot() (string, error) {
	if tierbRoot != "" {
		return tierbRoot, nil
	}
	root := filepath.Join(ev.Root(), ".build", "tierb")
	if os.Getenv("VERIF_TIERB_BUILT") == "" {
		cmd := exec.Command(filepath.Join(ev.Root(), "bin", "build-tierb"))
		cmd.Dir = ev.Root()
		out, err := cmd.CombinedOutput()
		if err != nil {
			return "", fmt.Errorf("build-tierb: %v\n%s", err, out)
		}
		os.Setenv("VERIF_TIERB_BUILT", "1")
	}
	tierbRoot = root
	return root, nil
}

// bKey turns a job key of the harness ("ID.<psid>.<call path>.forkN[.chnkM].<phase>")
// into the form the job processes see (run file name without the attempt's
// uniquifier: no "ID.<psid>." prefix).
func bKey(k string) string { return strings.TrimPrefix(k, "ID."+Psid+".") }

func safeKey(k string) string { return strings.ReplaceAll(bKey(k), "/", "%2F") }

// Release lets a gated job continue.
func (b *BRun) Release(key string) {
	os.MkdirAll(filepath.Join(b.Ctl, "go"), 0o755)
	os.WriteFile(filepath.Join(b.Ctl, "go", safeKey(key)), nil, 0o644)
}

// WaitAt waits until the gated job has announced itself (its process runs
// and is about to enter the stage body).
func (b *BRun) WaitAt(key string, d time.Duration) bool {
	deadline := time.Now().Add(d)
	for time.Now().Before(deadline) {
		if _, err := os.Stat(filepath.Join(b.Ctl, "at", safeKey(key))); err == nil {
			return true
		}
		if b.Cmd.ProcessState != nil {
			return false
		}
		time.Sleep(2 * time.Millisecond)
	}
	return false
}

// Output returns what mrp has printed so far.
func (b *BRun) Output() string { return b.out.String() }

// KillAll kills mrp and everything in its process group.
func (b *BRun) KillAll() {
	if b.Cmd.Process != nil {
		syscall.Kill(-b.Cmd.Process.Pid, syscall.SIGKILL)
	}
}

// Kill sends a signal to mrp.
func (b *BRun) Kill(sig syscall.Signal) {
	if b.Cmd.Process != nil {
		b.Cmd.Process.Signal(sig)
	}
}

var bSeq int

// PrepareB writes the program and the control directory.
func PrepareB(p *progen.Program, opts *BOptions) (dir string, err error) {
	root, err := TierBRoot()
	if err != nil {
		return "", err
	}
	dir = opts.Dir
	if dir == "" {
		base := os.Getenv("VERIF_SCRATCH")
		if base == "" {
			base = "/dev/shm"
		}
		for i := 0; ; i++ {
			bSeq++
			dir = filepath.Join(base, fmt.Sprintf("psb-%07d-%07d", os.Getpid()%10000000, bSeq%10000000))
			if err = os.Mkdir(dir, 0o755); err == nil {
				break
			}
			if i > 100 {
				return "", err
			}
		}
		mroDir := filepath.Join(dir, "mro")
		if _, err = WriteProgram(p, mroDir); err != nil {
			return dir, err
		}
		for _, s := range p.Stages {
			os.Remove(filepath.Join(mroDir, s.Name))
			if p.Py {
				// a python stage module on the repository's python adapter
				md := filepath.Join(mroDir, "pystages", s.Name)
				os.MkdirAll(md, 0o755)
				if err = os.WriteFile(filepath.Join(md, "__init__.py"), []byte(pyStageModule), 0o644); err != nil {
					return dir, err
				}
				continue
			}
			if err = os.Symlink(filepath.Join(root, "vstage"), filepath.Join(mroDir, s.Name)); err != nil {
				return dir, err
			}
		}
		ctl := filepath.Join(dir, "ctl")
		os.MkdirAll(filepath.Join(ctl, "obs"), 0o755)
		os.MkdirAll(filepath.Join(ctl, "outside"), 0o755)
		f, err := os.Create(filepath.Join(ctl, "stages.gob"))
		if err != nil {
			return dir, err
		}
		small := progen.Program{Filetypes: p.Filetypes, Structs: p.Structs, Stages: p.Stages}
		if err = gob.NewEncoder(f).Encode(&small); err != nil {
			return dir, err
		}
		f.Close()
	}
	ctl := filepath.Join(dir, "ctl")
	if opts.Dir != "" {
		// a later incarnation on the same directory: its observations are
		// collected separately from the earlier ones
		for i := 1; ; i++ {
			old := filepath.Join(ctl, fmt.Sprintf("obs.%d", i))
			if _, err := os.Stat(old); err != nil {
				os.Rename(filepath.Join(ctl, "obs"), old)
				break
			}
		}
		os.MkdirAll(filepath.Join(ctl, "obs"), 0o755)
	}
	os.Remove(filepath.Join(ctl, "fault.json"))
	os.Remove(filepath.Join(ctl, "fault.fired"))
	os.Remove(filepath.Join(ctl, "slow.json"))
	os.RemoveAll(filepath.Join(ctl, "gate"))
	os.RemoveAll(filepath.Join(ctl, "go"))
	os.RemoveAll(filepath.Join(ctl, "at"))
	if opts.Fault != nil {
		f := *opts.Fault
		f.Job = bKey(f.Job)
		b, _ := json.Marshal(&f)
		os.WriteFile(filepath.Join(ctl, "fault.json"), b, 0o644)
	}
	if len(opts.Slow) > 0 {
		m := map[string]int{}
		for k, v := range opts.Slow {
			m[bKey(k)] = v
		}
		b, _ := json.Marshal(m)
		os.WriteFile(filepath.Join(ctl, "slow.json"), b, 0o644)
	}
	if len(opts.Gate) > 0 {
		os.MkdirAll(filepath.Join(ctl, "gate"), 0o755)
		for _, k := range opts.Gate {
			os.WriteFile(filepath.Join(ctl, "gate", safeKey(k)), nil, 0o644)
		}
	}
	return dir, nil
}

// privateInstall copies an install below dir with its own jobmanagers
// directory, in which the queue query tool of the fake_remote mode is flaky.
func privateInstall(root, inst, dir string) (string, error) {
	priv := filepath.Join(dir, "inst")
	if err := os.MkdirAll(filepath.Join(priv, "bin"), 0o755); err != nil {
		return "", err
	}
	for _, b := range []string{"mrp", "mrjob"} {
		data, err := os.ReadFile(filepath.Join(root, inst, "bin", b))
		if err != nil {
			return "", err
		}
		if err := os.WriteFile(filepath.Join(priv, "bin", b), data, 0o755); err != nil {
			return "", err
		}
	}
	os.Symlink(filepath.Join(root, inst, "adapters"), filepath.Join(priv, "adapters"))
	jm := filepath.Join(priv, "jobmanagers")
	os.MkdirAll(jm, 0o755)
	src, _ := filepath.EvalSymlinks(filepath.Join(root, inst, "jobmanagers"))
	ents, err := os.ReadDir(src)
	if err != nil {
		return "", err
	}
	for _, e := range ents {
		if e.IsDir() {
			continue
		}
		data, err := os.ReadFile(filepath.Join(src, e.Name()))
		if err != nil {
			return "", err
		}
		info, _ := e.Info()
		if e.Name() == "pid_query.sh" {
			data = []byte("#!/bin/sh\n# /verif: the first two calls print a header and fail\nn=$(cat \"$VERIF_CTL/qcount\" 2>/dev/null || echo 0)\necho $((n+1)) > \"$VERIF_CTL/qcount\"\nif [ \"$n\" -lt 2 ]; then echo PID; exit 1; fi\nps xo pid | tr -d ' '\n")
		}
		if err := os.WriteFile(filepath.Join(jm, e.Name()), data, info.Mode().Perm()); err != nil {
			return "", err
		}
	}
	return priv, nil
}

// StartB starts mrp.
func StartB(p *progen.Program, opts *BOptions) (*BRun, error) {
	dir, err := PrepareB(p, opts)
	if err != nil {
		if dir != "" && opts.Dir == "" {
			os.RemoveAll(dir)
		}
		return nil, err
	}
	root, _ := TierBRoot()
	inst := opts.Install
	if inst == "" {
		inst = "plain"
	}
	b := &BRun{Dir: dir, Ctl: filepath.Join(dir, "ctl"), PsDir: filepath.Join(dir, "ps")}
	if opts.RemoveLock {
		os.Remove(filepath.Join(b.PsDir, "_lock"))
	}
	cores, mem := opts.Cores, opts.MemGB
	if cores == 0 {
		cores = 4
	}
	if mem == 0 {
		mem = 8
	}
	vdr := opts.VdrMode
	if vdr == "" {
		vdr = "disable"
	}
	jobMode := opts.JobMode
	if jobMode == "" {
		jobMode = "local"
	}
	args := []string{filepath.Join(dir, "mro", "prog.mro"), Psid, "--psdir=" + b.PsDir,
		"--jobmode=" + jobMode, "--disable-ui", "--vdrmode=" + vdr,
		"--localcores=" + strconv.Itoa(cores), "--localmem=" + strconv.Itoa(mem)}
	if opts.Strict != "" {
		args = append(args, "--strict="+opts.Strict)
	}
	if opts.MaxJobs > 0 {
		args = append(args, "--maxjobs="+strconv.Itoa(opts.MaxJobs))
	}
	// jobmanagers/retry.json makes two automatic retries the default
	args = append(args, "--autoretry="+strconv.Itoa(opts.AutoRetry))
	if opts.AutoRetry > 0 {
		args = append(args, "--retry-wait="+strconv.Itoa(opts.RetryWait))
	}
	args = append(args, opts.ExtraArgs...)
	mrpPath := filepath.Join(root, inst, "bin", "mrp")
	if opts.FlakyQueue {
		priv, perr := privateInstall(root, inst, dir)
		if perr != nil {
			return nil, perr
		}
		mrpPath = filepath.Join(priv, "bin", "mrp")
	}
	cmd := exec.Command(mrpPath, args...)
	cmd.Dir = dir
	pathVar := "PATH=/usr/local/bin:/usr/bin:/bin"
	if opts.PadPs {
		psbin := filepath.Join(dir, "psbin")
		os.MkdirAll(psbin, 0o755)
		os.WriteFile(filepath.Join(psbin, "ps"), []byte("#!/bin/sh\n# /verif: procps pads the pid column; here every pid is shorter than the column\n/bin/ps \"$@\" | while read -r p rest; do printf '%9s\\n' \"$p\"; done\n"), 0o755)
		pathVar = "PATH=" + psbin + ":/usr/local/bin:/usr/bin:/bin"
	}
	env := []string{pathVar, "HOME=" + dir, "MROPATH=" + filepath.Join(dir, "mro"),
		"VERIF_CTL=" + b.Ctl, "VERIF_VSTAGE=" + filepath.Join(root, "vstage"), "MROFLAGS=", "TMPDIR=" + dir, "USER=verif", "LANG=C"}
	if opts.KillAt > 0 {
		env = append(env, "VERIF_KILL_AT="+strconv.Itoa(opts.KillAt))
		if opts.KillSig != "" {
			env = append(env, "VERIF_KILL_SIG="+opts.KillSig)
		}
	}
	if opts.EffectLog || opts.KillAt > 0 {
		os.Remove(filepath.Join(b.Ctl, "mrp.effects"))
		env = append(env, "VERIF_EFFECT_LOG="+filepath.Join(b.Ctl, "mrp.effects"))
	}
	if opts.JobKillAt > 0 {
		env = append(env, "VERIF_JOB_KILL_AT="+strconv.Itoa(opts.JobKillAt), "VERIF_JOB_KILL_MATCH="+bKey(opts.JobKillMatch))
	}
	if inst == "fsjob" && (opts.EffectLog || opts.JobKillAt > 0) {
		os.RemoveAll(filepath.Join(b.Ctl, "jobfx"))
		env = append(env, "VERIF_JOB_EFFECT_LOG="+filepath.Join(b.Ctl, "jobfx"))
	}
	cmd.Env = env
	cmd.Stdout = &b.out
	cmd.Stderr = &b.out
	// own process group, so that a timeout can take the jobs down too
	cmd.SysProcAttr = &syscall.SysProcAttr{Setpgid: true}
	b.Cmd = cmd
	if err := cmd.Start(); err != nil {
		return nil, err
	}
	return b, nil
}

// Wait waits for mrp (and collects what it left).
func (b *BRun) Wait(opts *BOptions) *BResult {
	res := &BResult{Dir: b.Dir, PsDir: b.PsDir}
	t0 := time.Now()
	timeout := opts.Timeout
	if timeout == 0 {
		timeout = 60 * time.Second
	}
	done := make(chan error, 1)
	go func() { done <- b.Cmd.Wait() }()
	select {
	case <-done:
	case <-time.After(timeout):
		res.TimedOut = true
		syscall.Kill(-b.Cmd.Process.Pid, syscall.SIGKILL)
		<-done
	}
	res.Wall = time.Since(t0)
	if st := b.Cmd.ProcessState; st != nil {
		res.Exit = st.ExitCode()
		if ws, ok := st.Sys().(syscall.WaitStatus); ok && ws.Signaled() {
			res.Signal = ws.Signal().String()
		}
	}
	// jobs of a killed mrp get SIGTERM (pdeathsig) and need a moment to record it
	// (a restart "later" means: after those monitors are gone)
	if res.Signal != "" || opts.JobKillAt > 0 || opts.KillAt > 0 || res.Exit != 0 {
		b.waitOrphans(3 * time.Second)
	}
	res.Console = b.out.String()
	res.collect(b)
	return res
}

// waitOrphans waits until no process of mrp's process group is left.
func (b *BRun) waitOrphans(d time.Duration) {
	deadline := time.Now().Add(d)
	pg := b.Cmd.Process.Pid
	for time.Now().Before(deadline) {
		if err := syscall.Kill(-pg, 0); err != nil {
			return
		}
		time.Sleep(5 * time.Millisecond)
	}
	syscall.Kill(-pg, syscall.SIGKILL)
	time.Sleep(20 * time.Millisecond)
}

func (res *BResult) collect(b *BRun) {
	ents, _ := os.ReadDir(filepath.Join(b.Ctl, "obs"))
	for _, e := range ents {
		if strings.HasPrefix(e.Name(), ".") {
			continue
		}
		var o BObs
		if data, err := os.ReadFile(filepath.Join(b.Ctl, "obs", e.Name())); err == nil && json.Unmarshal(data, &o) == nil {
			if !strings.HasPrefix(o.Key, "ID.") {
				o.Key = "ID." + Psid + "." + o.Key
			}
			res.Obs = append(res.Obs, o)
		}
	}
	sort.Slice(res.Obs, func(i, j int) bool { return res.Obs[i].StartNs < res.Obs[j].StartNs })
	if data, err := os.ReadFile(filepath.Join(b.Ctl, "mrp.effects")); err == nil {
		res.Effects = strings.Split(strings.TrimSpace(string(data)), "\n")
	}
	if ents, err := os.ReadDir(filepath.Join(b.Ctl, "jobfx")); err == nil {
		res.JobFx = map[string][]string{}
		for _, e := range ents {
			if data, err := os.ReadFile(filepath.Join(b.Ctl, "jobfx", e.Name())); err == nil {
				res.JobFx["ID."+Psid+"."+strings.ReplaceAll(e.Name(), "%2F", "/")] = strings.Split(strings.TrimSpace(string(data)), "\n")
			}
		}
	}
	if _, err := os.Lstat(filepath.Join(b.PsDir, "_lock")); err == nil {
		res.Lock = true
	}
	if data, err := os.ReadFile(filepath.Join(b.PsDir, "TOP", "fork0", "_outs")); err == nil {
		res.TopOuts = string(data)
	} else {
		// the top-level call need not be named TOP
		if m, _ := filepath.Glob(filepath.Join(b.PsDir, "*", "fork0", "_outs")); len(m) == 1 {
			if data, err := os.ReadFile(m[0]); err == nil {
				res.TopOuts = string(data)
			}
		}
	}
	filepath.Walk(b.PsDir, func(pth string, info os.FileInfo, err error) error {
		if err == nil && !info.IsDir() && info.Name() == "_complete" {
			rel, _ := filepath.Rel(b.PsDir, filepath.Dir(pth))
			res.Completed = append(res.Completed, rel)
		}
		return nil
	})
}

// RunB runs one incarnation to its end.
func RunB(p *progen.Program, opts BOptions) *BResult {
	b, err := StartB(p, &opts)
	if err != nil {
		return &BResult{Err: err.Error()}
	}
	if opts.While != nil {
		opts.While(b)
	}
	res := b.Wait(&opts)
	return res
}

// Cleanup removes the scratch directory of a result.
func (res *BResult) Cleanup() {
	if res != nil && res.Dir != "" {
		os.RemoveAll(res.Dir)
	}
}

// AsResult converts the observations of completed incarnations (given in
// order) into the Result the oracles of the in-package harness read.  Job
// "submission" is the instant the stage process started; "finish" the
// instant its stage code returned - both lie inside the interval mrp sees, so
// an ordering violation found on them is one for mrp's own instants too.
func AsResult(p *progen.Program, rs ...*BResult) *Result {
	res := &Result{}
	last := rs[len(rs)-1]
	type tev struct {
		ns   int64
		kind string
		o    *ObsJob
		info string
	}
	var tevs []tev
	attempts := map[string]int{}
	for _, r := range rs {
		for i := range r.Obs {
			bo := &r.Obs[i]
			fq := strings.TrimSuffix(bo.Key, "."+bo.Phase)
			pth, fork, chunk := splitFq(Psid, fq)
			if st := p.Stage(bo.Stage); st != nil && !st.Split {
				chunk = -1
			}
			attempts[bo.Key]++
			o := &ObsJob{Key: bo.Key, Path: pth, Fork: fork, Phase: bo.Phase, Chunk: chunk,
				ArgsText: bo.Args, SubmitSeq: len(res.Jobs), Attempt: attempts[bo.Key],
				Finished: bo.How != "", How: bo.How, MdPath: bo.MdPath, Recorded: bo.How == "complete"}
			if v, err := progen.ParseJSON([]byte(bo.Args)); err == nil {
				o.Args = v
			}
			if bo.Phase == "join" {
				if v, e := progen.ParseJSON([]byte(bo.ChunkDefs)); e == nil && v.K == progen.VArr {
					o.ChunkDefs = v.A
				}
				if v, e := progen.ParseJSON([]byte(bo.ChunkOuts)); e == nil && v.K == progen.VArr {
					o.ChunkOuts = v.A
				}
			}
			res.Jobs = append(res.Jobs, o)
			for _, pr := range bo.Problems {
				res.FileProblems = append(res.FileProblems, "job "+bo.Key+": "+pr)
			}
			tevs = append(tevs, tev{bo.StartNs, "submit", o, bo.MdPath})
			if bo.EndNs > 0 {
				tevs = append(tevs, tev{bo.EndNs, "finish", o, bo.How})
			}
		}
	}
	sort.SliceStable(tevs, func(i, j int) bool { return tevs[i].ns < tevs[j].ns })
	for i, t := range tevs {
		res.Events = append(res.Events, core.VerifEvent{Kind: t.kind, Job: t.o.Key, Info: t.info, Iter: i})
	}
	res.TopOutsText = last.TopOuts
	if v, err := progen.ParseJSON([]byte(last.TopOuts)); err == nil {
		res.TopOuts = v
	}
	switch {
	case last.TimedOut:
		res.Stalled = true
		res.State = "running"
	case last.Exit == 0 && strings.Contains(last.Console, "Pipestance completed successfully"):
		res.State = "complete"
	default:
		res.State = "failed"
		res.FatalFq, res.FatalLog = ParseFailure(last.Console)
	}
	res.PsPath = last.PsDir
	res.Dir = last.Dir
	return res
}

// ConsoleTail returns the last n lines of mrp's console output.
func ConsoleTail(s string, n int) string {
	lines := strings.Split(strings.TrimSpace(s), "\n")
	if len(lines) > n {
		lines = lines[len(lines)-n:]
	}
	return strings.Join(lines, "\n")
}

var hexRe = regexp.MustCompile(`0x[0-9a-f]+`)

// ParseFailure extracts from mrp's console output what it reports about a
// failed pipestance: the stage the error log belongs to (as an fqname, from
// "Error log at: <path>/_errors") and the message (without addresses).
func ParseFailure(console string) (fq, log string) {
	lines := strings.Split(console, "\n")
	for i, l := range lines {
		if strings.HasPrefix(l, "panic:") || strings.HasPrefix(l, "fatal error:") {
			return "", hexRe.ReplaceAllString(l, "0x_")
		}
		if strings.HasPrefix(l, "[error] Pipestance failed.") && i+1 < len(lines) {
			pth := strings.TrimSpace(lines[i+1])
			pth = strings.TrimSuffix(pth, "/_errors")
			pth = strings.TrimSuffix(pth, "/_assert")
			parts := strings.Split(pth, "/")
			if len(parts) > 1 {
				parts = parts[1:] // the pipestance directory name
			}
			for j, q := range parts {
				if k := strings.Index(q, "-u"); k > 0 && len(q)-k == 12 {
					parts[j] = q[:k]
				}
			}
			fq = "ID." + Psid + "." + strings.Join(parts, ".")
			var msg []string
			for j := i + 2; j < len(lines) && len(msg) < 15; j++ {
				t := strings.TrimSpace(lines[j])
				if t == "" || t == "Log message:" {
					continue
				}
				msg = append(msg, t)
			}
			return fq, hexRe.ReplaceAllString(strings.Join(msg, "\n"), "0x_")
		}
		if strings.HasPrefix(l, "[error] ") {
			return "", hexRe.ReplaceAllString(strings.TrimPrefix(l, "[error] "), "0x_")
		}
	}
	return "", hexRe.ReplaceAllString(ConsoleTail(console, 3), "0x_")
}
