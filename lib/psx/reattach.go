//go:build verif

package psx

import (
	"errors"
	"os"
	"path/filepath"

	"github.com/martian-lang/martian/martian/core"
)

// ReattachProbe creates a pipestance from (defs, call) and then tries to
// re-attach to it with (newDefs, newCall), the way mrp does
// (checkSrc = true).  holdLock leaves the first incarnation's lock in place.
// It returns "ok", "refused-invocation", "refused-locked" or "error: ...".
func ReattachProbe(stageNames []string, defs, call, newDefs, newCall string, holdLock bool) string {
	dir, err := os.MkdirTemp("/dev/shm", "psxr-")
	if err != nil {
		return "error: " + err.Error()
	}
	defer os.RemoveAll(dir)
	mro := filepath.Join(dir, "mro")
	os.MkdirAll(mro, 0o755)
	for _, s := range stageNames {
		os.WriteFile(filepath.Join(mro, s), []byte("#!/bin/sh\n"), 0o755)
	}
	os.WriteFile(filepath.Join(mro, "defs.mro"), []byte(defs), 0o644)
	callPath := filepath.Join(mro, "call.mro")
	os.WriteFile(callPath, []byte(call), 0o644)
	psdir := filepath.Join(dir, "ps")
	h, err := core.NewVerifHarness(core.VerifOptions{})
	if err != nil {
		return "error: " + err.Error()
	}
	if err := h.Invoke(call, callPath, Psid, psdir, []string{mro}); err != nil {
		return "error: invoke: " + err.Error()
	}
	if !holdLock {
		h.Unlock()
	}
	os.WriteFile(filepath.Join(mro, "defs.mro"), []byte(newDefs), 0o644)
	os.WriteFile(callPath, []byte(newCall), 0o644)
	h2, err := core.NewVerifHarness(core.VerifOptions{})
	if err != nil {
		return "error: " + err.Error()
	}
	err = h2.Reattach(newCall, callPath, Psid, psdir, []string{mro}, true)
	if holdLock {
		h.Unlock()
	}
	if err == nil {
		h2.Unlock()
		return "ok"
	}
	var ie *core.PipestanceInvocationError
	if errors.As(err, &ie) {
		return "refused-invocation"
	}
	var le *core.PipestanceLockedError
	if errors.As(err, &le) {
		return "refused-locked"
	}
	return "error: " + err.Error()
}
