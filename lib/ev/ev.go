// Package ev is the shared reporting layer of the /verif checks: evidence
// files, VIOLATION / KNOWN-FINDING lines, replay artefacts, deadlines and a
// small parallel-for.  It imports nothing from the repository under test.
package ev

import (
	"bufio"
	"bytes"
	"crypto/sha1"
	"encoding/hex"
	"encoding/json"
	"flag"
	"fmt"
	"os"
	"os/exec"
	"path/filepath"
	"runtime"
	"sort"
	"strconv"
	"strings"
	"sync"
	"sync/atomic"
	"time"
)

// Root of the verification tree (the directory holding MANIFEST.json).
func Root() string {
	if r := os.Getenv("VERIF_ROOT"); r != "" {
		return r
	}
	return "/verif"
}

// Finding is one violated case, as produced by a check.
type Finding struct {
	// Signature identifies the *class* of the violation (panic site, byte
	// class, call site) so that known findings can be matched without
	// matching the entire input.
	Sig string `json:"sig"`
	// What is the human readable description.
	What string `json:"what"`
	// Case is the replayable artefact (JSON-serialisable).
	Case interface{} `json:"case"`
}

type known struct {
	key, what string
}

// Run accumulates what one invocation of a check covered.
type Run struct {
	Prop, Tier, Level string
	Seed              int64
	ReplayPath        string
	start             time.Time
	deadline          time.Time

	evals       int64
	mu          sync.Mutex
	distinct    map[string]struct{}
	outcomes    map[string]int64
	findings    []Finding
	findingSigs map[string]int
	knownSeen   map[string]string
	knownList   []known
	Rule        string
	Samples     []interface{}
	Extra       map[string]interface{}
	Assumptions []string
	Exhaustive  bool
	capsHit     []string
	incon       []string
}

// New parses the common flags (--tier, --replay) and environment
// (VERIF_TIER, VERIF_SEED) and returns a Run.
func New(prop, level string) *Run {
	tier := flag.String("tier", os.Getenv("VERIF_TIER"), "quick|thorough")
	replay := flag.String("replay", "", "replay artefact")
	flag.Parse()
	if *tier != "thorough" {
		*tier = "quick"
	}
	var seed int64
	if s := os.Getenv("VERIF_SEED"); s != "" {
		seed, _ = strconv.ParseInt(s, 10, 64)
	}
	r := &Run{Prop: prop, Tier: *tier, Level: level, Seed: seed,
		ReplayPath: *replay,
		start:      time.Now(), distinct: map[string]struct{}{},
		outcomes:    map[string]int64{},
		findingSigs: map[string]int{},
		knownSeen:   map[string]string{},
		Extra:       map[string]interface{}{}, Exhaustive: true}
	r.loadKnown()
	if r.ReplayPath == "" && !IsWorker() && os.Getenv("VERIF_NO_EVIDENCE") == "" {
		// replay artefacts of earlier runs of this check are stale
		if old, err := filepath.Glob(filepath.Join(Root(), "replays", prop+"-*.json")); err == nil {
			for _, f := range old {
				os.Remove(f)
			}
		}
	}
	return r
}

func (r *Run) Thorough() bool { return r.Tier == "thorough" }

// SetBudget sets the internal wall-clock budget; when it is exceeded
// enumeration loops should stop (Expired) and the run is reported as not
// exhaustive.  It never changes the exit status.
func (r *Run) SetBudget(quick, thorough time.Duration) {
	d := quick
	if r.Thorough() {
		d = thorough
	}
	if s := os.Getenv("VERIF_BUDGET_S"); s != "" {
		if f, err := strconv.ParseFloat(s, 64); err == nil {
			d = time.Duration(f * float64(time.Second))
		}
	}
	r.deadline = r.start.Add(d)
	if s := os.Getenv("VERIF_DEADLINE_UNIX"); s != "" {
		if u, err := strconv.ParseInt(s, 10, 64); err == nil && u > 0 {
			r.deadline = time.Unix(u, 0)
		}
	}
}

var execCommand = exec.Command

// Expired reports whether the budget is used up, and records the cap.
func (r *Run) Expired(what string) bool {
	if r.deadline.IsZero() || time.Now().Before(r.deadline) {
		return false
	}
	r.Cap("time budget reached in " + what)
	return true
}

// Cap records that some bound was hit so the run is not exhaustive.
func (r *Run) Cap(what string) {
	r.mu.Lock()
	defer r.mu.Unlock()
	r.Exhaustive = false
	for _, c := range r.capsHit {
		if c == what {
			return
		}
	}
	if len(r.capsHit) < 50 {
		r.capsHit = append(r.capsHit, what)
	}
}

// Inconclusive records harness self-doubt (non-reproducing failure etc).
func (r *Run) Inconclusive(what string) {
	r.mu.Lock()
	defer r.mu.Unlock()
	r.Exhaustive = false
	if len(r.incon) < 50 {
		r.incon = append(r.incon, what)
	}
}

func (r *Run) loadKnown() {
	if os.Getenv("VERIF_IGNORE_KNOWN") != "" {
		// investigation aid (never set by a registered command): listed
		// findings are reported like any other violation, with their replay
		return
	}
	f, err := os.Open(filepath.Join(Root(), "KNOWN_FINDINGS.txt"))
	if err != nil {
		return
	}
	defer f.Close()
	sc := bufio.NewScanner(f)
	sc.Buffer(make([]byte, 1<<20), 1<<20)
	for sc.Scan() {
		line := strings.TrimSpace(sc.Text())
		if !strings.HasPrefix(line, "known:") {
			continue
		}
		fields := strings.Fields(strings.TrimPrefix(line, "known:"))
		if len(fields) < 2 || fields[0] != "property="+r.Prop ||
			!strings.HasPrefix(fields[1], "key=") {
			continue
		}
		r.knownList = append(r.knownList, known{
			key:  strings.TrimPrefix(fields[1], "key="),
			what: strings.Join(fields[2:], " ")})
	}
}

// Eval counts one evaluated case.  key, when non-empty, is the identity of a
// distinct non-trivial case.
func (r *Run) Eval(key string) {
	atomic.AddInt64(&r.evals, 1)
	if key != "" {
		r.mu.Lock()
		r.distinct[key] = struct{}{}
		r.mu.Unlock()
	}
}

// EvalN counts n evaluations without distinct keys.
func (r *Run) EvalN(n int64) { atomic.AddInt64(&r.evals, n) }

// Distinct adds a distinct non-trivial case key without counting an
// evaluation.
func (r *Run) Distinct(key string) {
	r.mu.Lock()
	r.distinct[key] = struct{}{}
	r.mu.Unlock()
}

// Outcome counts a distinct observed outcome class (to expose vacuity).
func (r *Run) Outcome(class string) {
	r.mu.Lock()
	r.outcomes[class]++
	r.mu.Unlock()
}

// Sample keeps up to 12 sample cases.
func (r *Run) Sample(s interface{}) {
	r.mu.Lock()
	if len(r.Samples) < 12 {
		r.Samples = append(r.Samples, s)
	}
	r.mu.Unlock()
}

// Set stores an extra coverage key.
func (r *Run) Set(k string, v interface{}) {
	r.mu.Lock()
	r.Extra[k] = v
	r.mu.Unlock()
}

// Add adds to an integer extra coverage key.
func (r *Run) Add(k string, n int64) {
	r.mu.Lock()
	cur, _ := r.Extra[k].(float64)
	r.Extra[k] = cur + float64(n)
	r.mu.Unlock()
}

// AddNote appends a text to a list-valued extra coverage key (at most 20
// entries are kept; lists of workers are concatenated by the parent).
func (r *Run) AddNote(k string, text string) {
	r.mu.Lock()
	defer r.mu.Unlock()
	cur, _ := r.Extra[k].([]interface{})
	if len(cur) < 20 {
		r.Extra[k] = append(cur, text)
	}
}

// Assume records an assumption.
func (r *Run) Assume(s string) {
	r.mu.Lock()
	for _, a := range r.Assumptions {
		if a == s {
			r.mu.Unlock()
			return
		}
	}
	r.Assumptions = append(r.Assumptions, s)
	r.mu.Unlock()
}

// Report records a violated case.  Known findings are matched on Sig.
func (r *Run) Report(f Finding) {
	r.mu.Lock()
	defer r.mu.Unlock()
	for _, k := range r.knownList {
		if k.key == f.Sig || (strings.HasSuffix(k.key, "*") &&
			strings.HasPrefix(f.Sig, strings.TrimSuffix(k.key, "*"))) {
			if _, ok := r.knownSeen[k.key]; !ok {
				r.knownSeen[k.key] = k.what
			}
			return
		}
	}
	r.findingSigs[f.Sig]++
	if r.findingSigs[f.Sig] <= 3 && len(r.findings) < 40 {
		r.findings = append(r.findings, f)
	}
}

// NumFindings returns the number of unlisted violations recorded so far.
func (r *Run) NumFindings() int {
	r.mu.Lock()
	defer r.mu.Unlock()
	n := 0
	for _, c := range r.findingSigs {
		n += c
	}
	return n
}

func writeReplay(prop string, f Finding) string {
	dir := filepath.Join(Root(), "replays")
	os.MkdirAll(dir, 0o755)
	b, _ := json.MarshalIndent(map[string]interface{}{
		"property": prop, "sig": f.Sig, "what": f.What, "case": f.Case,
	}, "", " ")
	h := sha1.Sum(b)
	p := filepath.Join(dir, prop+"-"+hex.EncodeToString(h[:6])+".json")
	os.WriteFile(p, b, 0o644)
	return p
}

// LoadReplay reads the case of a replay artefact into v.
func LoadReplay(path string, v interface{}) error {
	b, err := os.ReadFile(path)
	if err != nil {
		return err
	}
	var w struct {
		Case json.RawMessage `json:"case"`
	}
	if err := json.Unmarshal(b, &w); err != nil {
		return err
	}
	return json.Unmarshal(w.Case, v)
}

// Finish writes the evidence file, prints the result lines and exits.
func (r *Run) Finish() {
	wall := time.Since(r.start).Seconds()
	cov := map[string]interface{}{}
	for k, v := range r.Extra {
		cov[k] = v
	}
	cov["evaluations"] = atomic.LoadInt64(&r.evals)
	cov["distinct_nontrivial"] = len(r.distinct)
	cov["rule"] = r.Rule
	if len(r.Samples) == 0 {
		r.Samples = []interface{}{"(no case was evaluated)"}
	}
	cov["samples"] = r.Samples
	cov["exhaustive"] = r.Exhaustive
	cov["distinct_outcomes"] = len(r.outcomes)
	if len(r.outcomes) <= 40 {
		cov["outcome_histogram"] = r.outcomes
	}
	if len(r.capsHit) > 0 {
		cov["caps_hit"] = r.capsHit
	}
	if len(r.incon) > 0 {
		cov["inconclusive"] = r.incon
	}
	var knownKeys []string
	for k := range r.knownSeen {
		knownKeys = append(knownKeys, k)
	}
	sort.Strings(knownKeys)
	if len(knownKeys) > 0 {
		cov["known_findings_reobserved"] = knownKeys
	}
	nviol := 0
	for _, c := range r.findingSigs {
		nviol += c
	}
	evd := map[string]interface{}{
		"property_id": r.Prop, "tier": r.Tier, "seed": r.Seed,
		"level": r.Level, "coverage": cov, "wall_s": wall,
		"assumptions": r.Assumptions, "violations": nviol,
	}
	if evd["assumptions"] == nil || len(r.Assumptions) == 0 {
		evd["assumptions"] = []string{}
	}
	if r.ReplayPath == "" && os.Getenv("VERIF_NO_EVIDENCE") == "" {
		dir := filepath.Join(Root(), "evidence")
		os.MkdirAll(dir, 0o755)
		b, _ := json.MarshalIndent(evd, "", " ")
		tmp := filepath.Join(dir, r.Prop+".json.tmp")
		if err := os.WriteFile(tmp, append(b, '\n'), 0o644); err == nil {
			os.Rename(tmp, filepath.Join(dir, r.Prop+".json"))
		}
	}
	for _, k := range knownKeys {
		fmt.Printf("KNOWN-FINDING: property=%s key=%s %s\n", r.Prop, k, r.knownSeen[k])
	}
	fmt.Printf("%s tier=%s evaluations=%d distinct=%d outcomes=%d exhaustive=%v wall=%.1fs violations=%d\n",
		r.Prop, r.Tier, atomic.LoadInt64(&r.evals), len(r.distinct),
		len(r.outcomes), r.Exhaustive, wall, nviol)
	for _, c := range r.capsHit {
		fmt.Println("  cap:", c)
	}
	for i, c := range r.incon {
		if i >= 5 {
			fmt.Printf("  inconclusive: ... and %d more\n", len(r.incon)-i)
			break
		}
		fmt.Println("  inconclusive:", Short(c, 300))
	}
	if len(r.findingSigs) > 0 {
		var sigs []string
		for k := range r.findingSigs {
			sigs = append(sigs, k)
		}
		sort.Strings(sigs)
		for _, k := range sigs {
			fmt.Printf("  violation class %s: %d\n", k, r.findingSigs[k])
		}
	}
	if len(r.findings) > 0 {
		for _, f := range r.findings {
			p := r.ReplayPath
			if p == "" {
				p = writeReplay(r.Prop, f)
			}
			what := f.What
			if len(what) > 600 {
				what = what[:600] + "..."
			}
			fmt.Printf("VIOLATION property=%s replay=%s\n  sig=%s\n  %s\n",
				r.Prop, p, f.Sig, strings.ReplaceAll(what, "\n", "\n  "))
		}
		runExitHooks()
		os.Exit(1)
	}
	runExitHooks()
	os.Exit(0)
}

// Workers is the parallelism used by ParallelFor.
func Workers() int {
	if s := os.Getenv("VERIF_WORKERS"); s != "" {
		if n, err := strconv.Atoi(s); err == nil && n > 0 {
			return n
		}
	}
	n := runtime.NumCPU()
	if n > 16 {
		n = 16
	}
	return n
}

// ParallelFor runs f(i) for i in [0,n) on Workers() goroutines.  f returning
// false stops the distribution of further indices.
func ParallelFor(n int, f func(i int) bool) {
	var next int64 = -1
	var stop int32
	var wg sync.WaitGroup
	w := Workers()
	if w > n {
		w = n
	}
	for k := 0; k < w; k++ {
		wg.Add(1)
		go func() {
			defer wg.Done()
			for atomic.LoadInt32(&stop) == 0 {
				i := int(atomic.AddInt64(&next, 1))
				if i >= n {
					return
				}
				if !f(i) {
					atomic.StoreInt32(&stop, 1)
				}
			}
		}()
	}
	wg.Wait()
}

// Rotate returns the visiting order of n items for this seed: a rotation of
// the identity (so that a time-capped run sees a different prefix per seed,
// while an uncapped run visits the same set).
func (r *Run) Rotate(n int) []int {
	out := make([]int, n)
	if n == 0 {
		return out
	}
	off := int(((r.Seed % int64(n)) + int64(n)) % int64(n))
	for i := range out {
		out[i] = (i + off) % n
	}
	return out
}

var exitHooks []func()

// AtExit registers clean-up work (scratch directories) to run before the
// process exits through Finish / FinishWorker.
func AtExit(f func()) { exitHooks = append(exitHooks, f) }

func runExitHooks() {
	for _, f := range exitHooks {
		f()
	}
}

// Short trims a string for inclusion in messages.
func Short(s string, n int) string {
	if len(s) <= n {
		return s
	}
	return s[:n] + fmt.Sprintf("...(%d bytes)", len(s))
}

// ---------------------------------------------------------------------------
// Worker subprocesses.  Checks whose code under test has process-global state
// (hooks, enforcement level, signal handlers) shard their work list over
// worker processes: the parent re-executes itself with VERIF_WORKER=k/n, each
// worker handles the items with index%n==k and dumps its Run state as JSON on
// stdout; the parent merges the dumps.

type dump struct {
	Evals       int64                  `json:"evals"`
	Distinct    []string               `json:"distinct"`
	Outcomes    map[string]int64       `json:"outcomes"`
	Findings    []Finding              `json:"findings"`
	FindingSigs map[string]int         `json:"finding_sigs"`
	KnownSeen   map[string]string      `json:"known_seen"`
	Samples     []interface{}          `json:"samples"`
	Extra       map[string]interface{} `json:"extra"`
	Caps        []string               `json:"caps"`
	Incon       []string               `json:"incon"`
	Assumptions []string               `json:"assumptions"`
	Exhaustive  bool                   `json:"exhaustive"`
}

// WorkerIndex returns (k, n, true) inside a worker process.
func WorkerIndex() (int, int, bool) {
	s := os.Getenv("VERIF_WORKER")
	if s == "" {
		return 0, 1, false
	}
	var k, n int
	if _, err := fmt.Sscanf(s, "%d/%d", &k, &n); err != nil || n <= 0 {
		return 0, 1, false
	}
	return k, n, true
}

// Mine reports whether work item i belongs to this process.
func (r *Run) Mine(i int) bool {
	k, n, ok := WorkerIndex()
	if !ok {
		return true
	}
	return i%n == k
}

// IsWorker reports whether this process is a worker.
func IsWorker() bool { _, _, ok := WorkerIndex(); return ok }

// FinishWorker dumps the run state for the parent and exits.
func (r *Run) FinishWorker() {
	d := dump{Evals: atomic.LoadInt64(&r.evals), Outcomes: r.outcomes,
		Findings: r.findings, FindingSigs: r.findingSigs, KnownSeen: r.knownSeen,
		Samples: r.Samples, Extra: r.Extra, Caps: r.capsHit, Incon: r.incon,
		Assumptions: r.Assumptions, Exhaustive: r.Exhaustive}
	for k := range r.distinct {
		d.Distinct = append(d.Distinct, k)
	}
	b, _ := json.Marshal(d)
	os.Stdout.Write([]byte("\nVERIF-WORKER-DUMP "))
	os.Stdout.Write(b)
	os.Stdout.Write([]byte("\n"))
	runExitHooks()
	os.Exit(0)
}

// RunWorkers re-executes this program n times as workers, merges their
// results into r and returns.  Worker crashes are reported as inconclusive
// (the parent cannot know what the worker would have found), except that a
// worker may leave a crash note via the crashNote callback.
func (r *Run) RunWorkers(n int, extraEnv ...string) {
	if n <= 0 {
		n = Workers()
	}
	type res struct {
		out []byte
		err error
		k   int
	}
	ch := make(chan res, n)
	for k := 0; k < n; k++ {
		go func(k int) {
			cmd := execCommand(os.Args[0], os.Args[1:]...)
			cmd.Env = append(os.Environ(), fmt.Sprintf("VERIF_WORKER=%d/%d", k, n),
				fmt.Sprintf("VERIF_DEADLINE_UNIX=%d", r.deadline.Unix()))
			cmd.Env = append(cmd.Env, extraEnv...)
			cmd.Stderr = os.Stderr
			out, err := cmd.Output()
			ch <- res{out, err, k}
		}(k)
	}
	for i := 0; i < n; i++ {
		x := <-ch
		idx := bytes.LastIndex(x.out, []byte("\nVERIF-WORKER-DUMP "))
		if idx < 0 {
			tail := string(x.out)
			if len(tail) > 400 {
				tail = tail[len(tail)-400:]
			}
			r.Inconclusive(fmt.Sprintf("worker %d/%d ended without a result (%v): %s", x.k, n, x.err, tail))
			continue
		}
		line := x.out[idx+len("\nVERIF-WORKER-DUMP "):]
		if j := bytes.IndexByte(line, '\n'); j >= 0 {
			line = line[:j]
		}
		var d dump
		if err := json.Unmarshal(line, &d); err != nil {
			r.Inconclusive(fmt.Sprintf("worker %d/%d produced an unreadable result: %v", x.k, n, err))
			continue
		}
		r.merge(&d)
	}
}

func (r *Run) merge(d *dump) {
	atomic.AddInt64(&r.evals, d.Evals)
	r.mu.Lock()
	defer r.mu.Unlock()
	for _, k := range d.Distinct {
		r.distinct[k] = struct{}{}
	}
	for k, v := range d.Outcomes {
		r.outcomes[k] += v
	}
	for k, v := range d.FindingSigs {
		r.findingSigs[k] += v
	}
	for _, f := range d.Findings {
		if len(r.findings) < 40 {
			r.findings = append(r.findings, f)
		}
	}
	for k, v := range d.KnownSeen {
		r.knownSeen[k] = v
	}
	for _, s := range d.Samples {
		if len(r.Samples) < 12 {
			r.Samples = append(r.Samples, s)
		}
	}
	for k, v := range d.Extra {
		if f, ok := v.(float64); ok {
			cur, _ := r.Extra[k].(float64)
			r.Extra[k] = cur + f
		} else if l, ok := v.([]interface{}); ok {
			cur, _ := r.Extra[k].([]interface{})
			for _, e := range l {
				if len(cur) < 20 {
					cur = append(cur, e)
				}
			}
			r.Extra[k] = cur
		} else if old, exists := r.Extra[k]; !exists {
			r.Extra[k] = v
		} else if so, ok := old.(string); ok {
			if sv, ok := v.(string); ok && sv != so {
				r.Extra[k+"_mismatch"] = so + " vs " + sv
			}
		}
	}
	for _, c := range d.Caps {
		dupe := false
		for _, e := range r.capsHit {
			dupe = dupe || e == c
		}
		if !dupe && len(r.capsHit) < 50 {
			r.capsHit = append(r.capsHit, c)
		}
	}
	r.incon = append(r.incon, d.Incon...)
	for _, a := range d.Assumptions {
		dupe := false
		for _, e := range r.Assumptions {
			dupe = dupe || e == a
		}
		if !dupe {
			r.Assumptions = append(r.Assumptions, a)
		}
	}
	if !d.Exhaustive {
		r.Exhaustive = false
	}
}

// Done finishes the run: worker dump in a worker, evidence otherwise.
func (r *Run) Done() {
	if IsWorker() {
		r.FinishWorker()
	}
	r.Finish()
}

// CheckDigests reports a finding for every string extra that two workers
// set to different values, and drops the digests from the evidence.
func (r *Run) CheckDigests(sig, format string) {
	r.mu.Lock()
	var bad []string
	for k, v := range r.Extra {
		if strings.HasSuffix(k, "_mismatch") {
			bad = append(bad, fmt.Sprintf(format, strings.TrimSuffix(k, "_mismatch"))+": "+fmt.Sprint(v))
		}
	}
	n := 0
	for k := range r.Extra {
		if strings.HasPrefix(k, "digest_") {
			delete(r.Extra, k)
			n++
		}
	}
	r.Extra["digests_compared_across_processes"] = n
	r.mu.Unlock()
	sort.Strings(bad)
	for _, b := range bad {
		r.Report(Finding{Sig: sig, What: b})
	}
}
