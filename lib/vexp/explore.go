//go:build verif

// Package vexp is the stateless depth-first explorer over the schedules of
// the vshim cooperative scheduler: iterative preemption bounding as in CHESS.
package vexp

import (
	"fmt"

	"github.com/martian-lang/martian/martian/vshim"
)

// Explorer enumerates every schedule of Run with at most Bound preemptions
// (Bound < 0: no bound).
type Explorer struct {
	Bound int
	// Run executes the scenario once, replaying prefix and then taking the
	// default choice (0: keep running the current thread, else lowest id).
	Run func(prefix []int) *vshim.Sched
	// Check is called on every complete execution with its choice sequence.
	Check func(s *vshim.Sched, choices []int)
	// MaxExecs caps the number of executions (0 = none); Capped reports a hit.
	MaxExecs int
	Stop     func() bool

	Execs       int
	Transitions int
	MaxDepth    int
	Capped      bool
	Err         string
}

func preemptionCost(d vshim.Decision, choice int) int {
	if d.RunningEnabled && choice != 0 {
		return 1
	}
	return 0
}

// Explore runs the search from the empty prefix.
func (e *Explorer) Explore() { e.explore(nil, 0) }

func (e *Explorer) explore(prefix []int, prefixCost int) {
	if e.Capped || e.Err != "" {
		return
	}
	if (e.MaxExecs > 0 && e.Execs >= e.MaxExecs) || (e.Stop != nil && e.Stop()) {
		e.Capped = true
		return
	}
	s := e.Run(prefix)
	e.Execs++
	e.Transitions += len(s.Trace)
	if len(s.Trace) > e.MaxDepth {
		e.MaxDepth = len(s.Trace)
	}
	if s.Err != "" {
		e.Err = fmt.Sprintf("prefix %v: %s", prefix, s.Err)
		return
	}
	if len(s.Trace) < len(prefix) {
		e.Err = fmt.Sprintf("prefix %v: execution ended after %d decisions (replay divergence)", prefix, len(s.Trace))
		return
	}
	choices := make([]int, len(s.Trace))
	for i, d := range s.Trace {
		choices[i] = d.Choice
	}
	e.Check(s, choices)
	cost := prefixCost
	for i := len(prefix); i < len(s.Trace); i++ {
		d := s.Trace[i]
		for alt := 1; alt < len(d.Enabled); alt++ {
			c := cost + preemptionCost(d, alt)
			if e.Bound >= 0 && c > e.Bound {
				continue
			}
			np := make([]int, i+1)
			copy(np, choices[:i])
			np[i] = alt
			e.explore(np, c)
			if e.Capped || e.Err != "" {
				return
			}
		}
		cost += preemptionCost(d, d.Choice) // the default choice 0 never preempts
	}
}
