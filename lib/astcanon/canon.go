// Package astcanon renders a parsed MRO syntax tree in a canonical,
// position-free form by reflection: declared fields only, no source
// locations, no comments, no derived lookup tables; numeric literals are
// rendered numerically; the calls of a pipeline are rendered as a sorted set
// (the formatter may reorder calls into dependency order).  It is written
// against the shape of the tree, not against the formatter.
package astcanon

import (
	"fmt"
	"reflect"
	"sort"
	"strconv"
	"strings"
)

var skipFields = map[string]bool{
	"Node": true, "Loc": true, "Comments": true, "scopeComments": true, "comments": true,
	"Files": true, "File": true, "TypeTable": true, "Callables": true, "Errors": true,
	"Table": true, "call": true, "Includes": false, "srcFile": true, "global": true,
	"intern": true, "cmd": true,
}

// Canon renders v.
func Canon(v interface{}) string {
	var b strings.Builder
	canon(reflect.ValueOf(v), &b, 0, map[uintptr]bool{})
	return b.String()
}

func canon(v reflect.Value, b *strings.Builder, depth int, seen map[uintptr]bool) {
	if depth > 60 {
		b.WriteString("<deep>")
		return
	}
	switch v.Kind() {
	case reflect.Invalid:
		b.WriteString("nil")
	case reflect.Ptr:
		if v.IsNil() {
			b.WriteString("nil")
			return
		}
		p := v.Pointer()
		if seen[p] {
			b.WriteString("<cycle>")
			return
		}
		seen[p] = true
		canon(v.Elem(), b, depth+1, seen)
		delete(seen, p)
	case reflect.Interface:
		if v.IsNil() {
			b.WriteString("nil")
			return
		}
		canon(v.Elem(), b, depth+1, seen)
	case reflect.Struct:
		t := v.Type()
		name := t.Name()
		// numeric literals: by value, whatever the literal's syntactic kind
		if name == "IntExp" || name == "FloatExp" {
			f := v.FieldByName("Value")
			switch f.Kind() {
			case reflect.Int64, reflect.Int:
				b.WriteString("num:" + strconv.FormatFloat(float64(f.Int()), 'g', -1, 64))
				if f.Int() > 1<<53 || f.Int() < -(1<<53) {
					b.WriteString(fmt.Sprintf("(%d)", f.Int()))
				}
			case reflect.Float64, reflect.Float32:
				x := f.Float()
				if x == 0 {
					x = 0 // -0.0 and 0 are the same number
				}
				b.WriteString("num:" + strconv.FormatFloat(x, 'g', -1, 64))
			}
			return
		}
		if name == "Modifiers" {
			canonModifiers(v, b, depth, seen)
			return
		}
		b.WriteString(name + "{")
		for i := 0; i < t.NumField(); i++ {
			fn := t.Field(i).Name
			if skip, ok := skipFields[fn]; ok && skip {
				continue
			}
			ft := t.Field(i).Type
			if ft.Kind() == reflect.Ptr && ft.Elem().Name() == "AstNode" {
				// only whether the clause is present
				if v.Field(i).IsNil() {
					b.WriteString(fn + ":unset;")
				} else {
					b.WriteString(fn + ":set;")
				}
				continue
			}
			if ft.Name() == "AstNode" || ft.Name() == "SourceLoc" || ft.Name() == "valExp" {
				// valExp embeds the node and nothing else of interest
				if ft.Name() != "valExp" {
					continue
				}
				continue
			}
			b.WriteString(fn + ":")
			canon(v.Field(i), b, depth+1, seen)
			b.WriteString(";")
		}
		b.WriteString("}")
	case reflect.Slice, reflect.Array:
		if v.Kind() == reflect.Slice && v.IsNil() {
			b.WriteString("[]")
			return
		}
		if v.Type().Elem().Kind() == reflect.Uint8 {
			b.WriteString(strconv.Quote(string(v.Bytes())))
			return
		}
		parts := make([]string, v.Len())
		for i := 0; i < v.Len(); i++ {
			var sb strings.Builder
			canon(v.Index(i), &sb, depth+1, seen)
			parts[i] = sb.String()
		}
		et := v.Type().Elem()
		if et.Kind() == reflect.Ptr && et.Elem().Name() == "CallStm" {
			sort.Strings(parts)
		}
		b.WriteString("[" + strings.Join(parts, ",") + "]")
	case reflect.Map:
		keys := v.MapKeys()
		parts := make([]string, 0, len(keys))
		for _, k := range keys {
			var sb strings.Builder
			canon(k, &sb, depth+1, seen)
			sb.WriteString("=>")
			canon(v.MapIndex(k), &sb, depth+1, seen)
			parts = append(parts, sb.String())
		}
		sort.Strings(parts)
		b.WriteString("map{" + strings.Join(parts, ",") + "}")
	case reflect.String:
		b.WriteString(strconv.Quote(v.String()))
	case reflect.Bool:
		b.WriteString(strconv.FormatBool(v.Bool()))
	case reflect.Int, reflect.Int8, reflect.Int16, reflect.Int32, reflect.Int64:
		b.WriteString(strconv.FormatInt(v.Int(), 10))
	case reflect.Uint, reflect.Uint8, reflect.Uint16, reflect.Uint32, reflect.Uint64:
		b.WriteString(strconv.FormatUint(v.Uint(), 10))
	case reflect.Float32, reflect.Float64:
		b.WriteString(strconv.FormatFloat(v.Float(), 'g', -1, 64))
	case reflect.Func, reflect.Chan, reflect.UnsafePointer:
		b.WriteString("<fn>")
	default:
		b.WriteString(fmt.Sprintf("<%s>", v.Kind()))
	}
}


// canonModifiers renders call modifiers by their effective values: the
// prefix form (call local volatile X) and the using (...) form are the same
// program.
func canonModifiers(v reflect.Value, b *strings.Builder, depth int, seen map[uintptr]bool) {
	flags := map[string]bool{}
	for _, n := range []string{"Local", "Preflight", "Volatile"} {
		if f := v.FieldByName(n); f.IsValid() && f.Kind() == reflect.Bool {
			flags[strings.ToLower(n)] = f.Bool()
		}
	}
	var others []string
	if bs := v.FieldByName("Bindings"); bs.IsValid() && bs.Kind() == reflect.Ptr && !bs.IsNil() {
		list := bs.Elem().FieldByName("List")
		for i := 0; list.IsValid() && i < list.Len(); i++ {
			bind := list.Index(i)
			for bind.Kind() == reflect.Ptr || bind.Kind() == reflect.Interface {
				bind = bind.Elem()
			}
			id := bind.FieldByName("Id").String()
			exp := bind.FieldByName("Exp")
			for exp.Kind() == reflect.Ptr || exp.Kind() == reflect.Interface {
				if exp.IsNil() {
					break
				}
				exp = exp.Elem()
			}
			if exp.Kind() == reflect.Struct && exp.Type().Name() == "BoolExp" && (id == "local" || id == "preflight" || id == "volatile") {
				flags[id] = flags[id] || exp.FieldByName("Value").Bool()
				continue
			}
			var sb strings.Builder
			sb.WriteString(id + "=")
			canon(bind.FieldByName("Exp"), &sb, depth+1, seen)
			others = append(others, sb.String())
		}
	}
	sort.Strings(others)
	b.WriteString(fmt.Sprintf("Modifiers{local:%v;preflight:%v;volatile:%v;%s}", flags["local"], flags["preflight"], flags["volatile"], strings.Join(others, ";")))
}
