// Command rw generates mechanically rewritten copies of repository source
// files for the verif overlay build.  It is its own module (it needs
// golang.org/x/tools v0.29.0, which the martian module cannot use offline).
//
//	rw -repo /repo -out /verif/.build/rw/<name> -map /verif/.build/rw/<name>.map \
//	   -rewrites map,go,fs  ./martian/core ./martian/syntax ...
//
// Rewrites (see DESIGN.md E0):
//
//	map: for k, v := range <map>  ->  iterate vshim.Keys(site, m) (explorer
//	     chosen permutation of a snapshot of the keys; default sorted)
//	go:  go f(a...)               ->  vshim.Go(site, func(){ f(a...) }) with the
//	     arguments evaluated at the go statement
//	fs:  os.WriteFile/Remove/RemoveAll/Rename/Symlink/Mkdir/MkdirAll/Create/
//	     OpenFile, ioutil.WriteFile -> vshim.OsX(site, ...)
//
//	sync=<file>+<file>: in the named files sync.Mutex / sync.Cond / sync.NewCond
//	     -> vshim.Mutex / vshim.Cond / vshim.NewCond, "<-c" -> vshim.ChanRecv(c),
//	     close(c) -> vshim.ChanClose(c)   (cooperative scheduler of C12)
//	call=<old>:<new>+...: calls of the package-level function <old> become
//	     calls of <new> (defined in an overlay file of the same package)
//
// Any construct the rewriter does not understand is a hard error.
package main

import (
	"bytes"
	"flag"
	"fmt"
	"go/ast"
	"go/format"
	"go/token"
	"go/types"
	"os"
	"path/filepath"
	"sort"
	"strconv"
	"strings"

	"golang.org/x/tools/go/ast/astutil"
	"golang.org/x/tools/go/packages"
)

const shimPath = "github.com/martian-lang/martian/martian/vshim"

var fsFuncs = map[string]string{
	"WriteFile": "OsWriteFile", "Remove": "OsRemove", "RemoveAll": "OsRemoveAll",
	"Rename": "OsRename", "Symlink": "OsSymlink", "Mkdir": "OsMkdir",
	"MkdirAll": "OsMkdirAll", "Create": "OsCreate", "OpenFile": "OsOpenFile",
	"Link": "OsLink",
}

type rewriter struct {
	fset     *token.FileSet
	info     *types.Info
	pkg      *packages.Package
	doMap    bool
	doGo     bool
	doFs     bool
	doPid    bool
	doTime   bool // time.Now() -> vshim.Now() (files named by time=...)
	n        int
	changed  bool
	relFile  string
	funcName string
	counts   map[string]int
	noShim   bool
	shimUsed bool
}

func (r *rewriter) site(pos token.Pos) *ast.BasicLit {
	p := r.fset.Position(pos)
	return &ast.BasicLit{Kind: token.STRING,
		Value: strconv.Quote(fmt.Sprintf("%s:%d:%s", r.relFile, p.Line, r.funcName))}
}

func ident(s string) *ast.Ident { return ast.NewIdent(s) }

func shimCall(name string, args ...ast.Expr) *ast.CallExpr {
	return &ast.CallExpr{Fun: &ast.SelectorExpr{X: ident("vshim"), Sel: ident(name)}, Args: args}
}

func hasCall(e ast.Expr) bool {
	found := false
	ast.Inspect(e, func(n ast.Node) bool {
		if _, ok := n.(*ast.CallExpr); ok {
			found = true
		}
		return !found
	})
	return found
}

func isBlank(e ast.Expr) bool {
	if e == nil {
		return true
	}
	id, ok := e.(*ast.Ident)
	return ok && id.Name == "_"
}

// rewriteRange returns the replacement statement(s) for a range over a map.
func (r *rewriter) rewriteRange(rs *ast.RangeStmt, labeled bool) ast.Stmt {
	r.n++
	n := strconv.Itoa(r.n)
	kv, vv, okv, mv := "vk_"+n, "vv_"+n, "vok_"+n, "vm_"+n
	var pre []ast.Stmt
	mexp := rs.X
	wrap := false
	if hasCall(rs.X) {
		if labeled {
			panic(fmt.Sprintf("%s: labeled range over a map-valued call expression is not supported",
				r.fset.Position(rs.Pos())))
		}
		wrap = true
		pre = append(pre, &ast.AssignStmt{Lhs: []ast.Expr{ident(mv)}, Tok: token.DEFINE, Rhs: []ast.Expr{rs.X}})
		mexp = ident(mv)
	}
	var prologue []ast.Stmt
	// vv, vok := m[vk]; if !vok { continue }
	valName := ast.Expr(ident("_"))
	if !isBlank(rs.Value) {
		valName = ident(vv)
	}
	prologue = append(prologue,
		&ast.AssignStmt{Lhs: []ast.Expr{valName, ident(okv)}, Tok: token.DEFINE,
			Rhs: []ast.Expr{&ast.IndexExpr{X: mexp, Index: ident(kv)}}},
		&ast.IfStmt{Cond: &ast.UnaryExpr{Op: token.NOT, X: ident(okv)},
			Body: &ast.BlockStmt{List: []ast.Stmt{&ast.BranchStmt{Tok: token.CONTINUE}}}})
	tok := rs.Tok
	if tok == token.ILLEGAL {
		tok = token.DEFINE
	}
	if !isBlank(rs.Key) {
		prologue = append(prologue, &ast.AssignStmt{Lhs: []ast.Expr{rs.Key}, Tok: tok, Rhs: []ast.Expr{ident(kv)}})
		if tok == token.DEFINE {
			// avoid "declared and not used"
			prologue = append(prologue, &ast.AssignStmt{Lhs: []ast.Expr{ident("_")}, Tok: token.ASSIGN, Rhs: []ast.Expr{rs.Key}})
		}
	}
	if !isBlank(rs.Value) {
		prologue = append(prologue, &ast.AssignStmt{Lhs: []ast.Expr{rs.Value}, Tok: tok, Rhs: []ast.Expr{ident(vv)}})
		if tok == token.DEFINE {
			prologue = append(prologue, &ast.AssignStmt{Lhs: []ast.Expr{ident("_")}, Tok: token.ASSIGN, Rhs: []ast.Expr{rs.Value}})
		}
	}
	body := &ast.BlockStmt{List: append(prologue, rs.Body.List...)}
	loop := &ast.RangeStmt{Key: ident("_"), Value: ident(kv), Tok: token.DEFINE,
		X: shimCall("Keys", r.site(rs.Pos()), mexp), Body: body}
	r.changed = true
	r.counts["map"]++
	if wrap {
		return &ast.BlockStmt{List: append(pre, loop)}
	}
	return loop
}

func (r *rewriter) rewriteGo(gs *ast.GoStmt) ast.Stmt {
	r.n++
	n := strconv.Itoa(r.n)
	call := gs.Call
	var pre []ast.Stmt
	fun := call.Fun
	if _, isLit := fun.(*ast.FuncLit); !isLit {
		fv := "vf_" + n
		pre = append(pre, &ast.AssignStmt{Lhs: []ast.Expr{ident(fv)}, Tok: token.DEFINE, Rhs: []ast.Expr{fun}})
		fun = ident(fv)
	}
	args := make([]ast.Expr, len(call.Args))
	for i, a := range call.Args {
		av := "va_" + n + "_" + strconv.Itoa(i)
		pre = append(pre, &ast.AssignStmt{Lhs: []ast.Expr{ident(av)}, Tok: token.DEFINE, Rhs: []ast.Expr{a}})
		args[i] = ident(av)
	}
	inner := &ast.CallExpr{Fun: fun, Args: args, Ellipsis: call.Ellipsis}
	if call.Ellipsis != token.NoPos {
		inner.Ellipsis = 1
	}
	lit := &ast.FuncLit{Type: &ast.FuncType{Params: &ast.FieldList{}},
		Body: &ast.BlockStmt{List: []ast.Stmt{&ast.ExprStmt{X: inner}}}}
	pre = append(pre, &ast.ExprStmt{X: shimCall("Go", r.site(gs.Pos()), lit)})
	r.changed = true
	r.counts["go"]++
	return &ast.BlockStmt{List: pre}
}

func (r *rewriter) isPkg(x ast.Expr, path string) bool {
	id, ok := x.(*ast.Ident)
	if !ok {
		return false
	}
	if pn, ok := r.info.Uses[id].(*types.PkgName); ok {
		return pn.Imported().Path() == path
	}
	return false
}

// stmtList rewrites a list of statements in place.
func (r *rewriter) stmtList(list []ast.Stmt) {
	for i, s := range list {
		list[i] = r.stmt(s, false)
	}
}

func (r *rewriter) stmt(s ast.Stmt, labeled bool) ast.Stmt {
	switch s := s.(type) {
	case *ast.RangeStmt:
		r.exprs(s)
		r.stmtList(s.Body.List)
		if r.doMap {
			if t := r.info.TypeOf(s.X); t != nil {
				if _, ok := t.Underlying().(*types.Map); ok {
					return r.rewriteRange(s, labeled)
				}
			}
		}
		return s
	case *ast.GoStmt:
		r.exprs(s)
		if r.doGo {
			return r.rewriteGo(s)
		}
		return s
	case *ast.LabeledStmt:
		s.Stmt = r.stmt(s.Stmt, true)
		return s
	case *ast.BlockStmt:
		r.stmtList(s.List)
		return s
	case *ast.IfStmt:
		r.exprs(s.Init)
		r.exprs(s.Cond)
		r.stmtList(s.Body.List)
		if s.Else != nil {
			s.Else = r.stmt(s.Else, false)
		}
		return s
	case *ast.ForStmt:
		r.exprs(s.Init)
		r.exprs(s.Cond)
		r.exprs(s.Post)
		r.stmtList(s.Body.List)
		return s
	case *ast.SwitchStmt:
		r.exprs(s.Init)
		r.exprs(s.Tag)
		for _, c := range s.Body.List {
			cc := c.(*ast.CaseClause)
			for _, e := range cc.List {
				r.exprs(e)
			}
			r.stmtList(cc.Body)
		}
		return s
	case *ast.TypeSwitchStmt:
		r.exprs(s.Init)
		r.exprs(s.Assign)
		for _, c := range s.Body.List {
			r.stmtList(c.(*ast.CaseClause).Body)
		}
		return s
	case *ast.SelectStmt:
		for _, c := range s.Body.List {
			cc := c.(*ast.CommClause)
			r.exprs(cc.Comm)
			r.stmtList(cc.Body)
		}
		return s
	case nil:
		return s
	default:
		r.exprs(s)
		return s
	}
}

// exprs handles function literals (which contain statements) and fs calls
// inside an arbitrary node, without descending into nested statements that
// stmt() handles itself.
func (r *rewriter) exprs(n ast.Node) {
	if n == nil || (fmt.Sprintf("%v", n) == "<nil>") {
		return
	}
	ast.Inspect(n, func(x ast.Node) bool {
		switch x := x.(type) {
		case *ast.FuncLit:
			r.stmtList(x.Body.List)
			return false
		case *ast.BlockStmt:
			if x != n {
				return false
			}
		case *ast.CallExpr:
			if r.doPid {
				if sel, ok := x.Fun.(*ast.SelectorExpr); ok && sel.Sel.Name == "Getpid" && r.isPkg(sel.X, "os") {
					x.Fun = &ast.SelectorExpr{X: ident("vshim"), Sel: ident("Getpid")}
					r.changed = true
					r.counts["pid"]++
				}
			}
			if r.doTime {
				if sel, ok := x.Fun.(*ast.SelectorExpr); ok && sel.Sel.Name == "Now" && r.isPkg(sel.X, "time") {
					x.Fun = &ast.SelectorExpr{X: ident("vshim"), Sel: ident("Now")}
					r.changed = true
					r.counts["time"]++
				}
			}
			if r.doFs {
				if sel, ok := x.Fun.(*ast.SelectorExpr); ok {
					if to, ok := fsFuncs[sel.Sel.Name]; ok && (r.isPkg(sel.X, "os") ||
						(sel.Sel.Name == "WriteFile" && r.isPkg(sel.X, "io/ioutil"))) {
						x.Fun = &ast.SelectorExpr{X: ident("vshim"), Sel: ident(to)}
						x.Args = append([]ast.Expr{r.site(x.Pos())}, x.Args...)
						r.changed = true
						r.counts["fs"]++
					}
				}
			}
		}
		return true
	})
}

func (r *rewriter) file(f *ast.File) {
	for _, d := range f.Decls {
		fd, ok := d.(*ast.FuncDecl)
		if !ok {
			if gd, ok := d.(*ast.GenDecl); ok {
				r.funcName = "init"
				r.exprs(gd)
			}
			continue
		}
		if fd.Body == nil {
			continue
		}
		r.funcName = fd.Name.Name
		if fd.Recv != nil && len(fd.Recv.List) == 1 {
			t := fd.Recv.List[0].Type
			if st, ok := t.(*ast.StarExpr); ok {
				t = st.X
			}
			if id, ok := t.(*ast.Ident); ok {
				r.funcName = id.Name + "." + fd.Name.Name
			}
		}
		r.stmtList(fd.Body.List)
	}
}

// rewriteSync replaces the synchronisation primitives of one file.
func (r *rewriter) rewriteSync(f *ast.File) {
	astutil.Apply(f, func(c *astutil.Cursor) bool {
		switch x := c.Node().(type) {
		case *ast.SelectorExpr:
			if r.isPkg(x.X, "sync") {
				switch x.Sel.Name {
				case "Mutex", "Cond", "NewCond":
					c.Replace(&ast.SelectorExpr{X: ident("vshim"), Sel: ident(x.Sel.Name)})
					r.changed = true
					r.counts["sync"]++
				case "Locker":
				default:
					panic(fmt.Sprintf("%s: sync.%s is not supported by the sync rewrite", r.fset.Position(x.Pos()), x.Sel.Name))
				}
			}
		case *ast.UnaryExpr:
			if x.Op == token.ARROW {
				c.Replace(shimCall("ChanRecv", x.X))
				r.changed = true
				r.counts["recv"]++
			}
		case *ast.SendStmt:
			panic(fmt.Sprintf("%s: channel send is not supported by the sync rewrite", r.fset.Position(x.Pos())))
		case *ast.SelectStmt:
			panic(fmt.Sprintf("%s: select is not supported by the sync rewrite", r.fset.Position(x.Pos())))
		case *ast.CallExpr:
			if id, ok := x.Fun.(*ast.Ident); ok && id.Name == "close" && len(x.Args) == 1 {
				if _, isBuiltin := r.info.Uses[id].(*types.Builtin); isBuiltin {
					c.Replace(shimCall("ChanClose", x.Args[0]))
					r.changed = true
					r.counts["close"]++
				}
			}
		}
		return true
	}, nil)
}

// rewriteCalls renames calls of package-level functions.
func (r *rewriter) rewriteCalls(f *ast.File, ren map[string]string) {
	ast.Inspect(f, func(n ast.Node) bool {
		if ce, ok := n.(*ast.CallExpr); ok {
			if id, ok := ce.Fun.(*ast.Ident); ok {
				if to, ok := ren[id.Name]; ok {
					if fn, isFunc := r.info.Uses[id].(*types.Func); isFunc && fn.Pkg() == r.pkg.Types {
						id.Name = to
						r.changed = true
						r.noShim = true
						r.counts["call"]++
					}
				}
			}
		}
		return true
	})
}

// pkgStillUsed reports whether identifier name (an import name) is still
// referenced in the file.
func pkgStillUsed(f *ast.File, name string) bool {
	used := false
	ast.Inspect(f, func(n ast.Node) bool {
		if sel, ok := n.(*ast.SelectorExpr); ok {
			if id, ok := sel.X.(*ast.Ident); ok && id.Name == name && id.Obj == nil {
				used = true
			}
		}
		return !used
	})
	return used
}

func main() {
	repo := flag.String("repo", "/repo", "repository root")
	out := flag.String("out", "", "output directory for rewritten files")
	mapFile := flag.String("map", "", "overlay map file to write")
	rewrites := flag.String("rewrites", "map", "comma separated: map,go,fs")
	flag.Parse()
	if *out == "" || *mapFile == "" {
		fmt.Fprintln(os.Stderr, "rw: -out and -map are required")
		os.Exit(2)
	}
	want := map[string]bool{}
	syncFiles := map[string]bool{}
	callRen := map[string]string{}
	timeFiles := map[string]bool{}
	for _, w := range strings.Split(*rewrites, ",") {
		w = strings.TrimSpace(w)
		if strings.HasPrefix(w, "sync=") {
			for _, fn := range strings.Split(strings.TrimPrefix(w, "sync="), "+") {
				syncFiles[fn] = true
			}
			continue
		}
		if strings.HasPrefix(w, "time=") {
			for _, fn := range strings.Split(strings.TrimPrefix(w, "time="), "+") {
				timeFiles[fn] = true
			}
			continue
		}
		if strings.HasPrefix(w, "call=") {
			for _, pr := range strings.Split(strings.TrimPrefix(w, "call="), "+") {
				kv := strings.SplitN(pr, ":", 2)
				if len(kv) != 2 {
					fmt.Fprintln(os.Stderr, "rw: bad call rewrite", pr)
					os.Exit(2)
				}
				callRen[kv[0]] = kv[1]
			}
			continue
		}
		want[w] = true
	}
	cfg := &packages.Config{
		Mode: packages.NeedName | packages.NeedFiles | packages.NeedSyntax | packages.NeedTypes |
			packages.NeedTypesInfo | packages.NeedImports | packages.NeedDeps | packages.NeedCompiledGoFiles,
		Dir: *repo,
		Env: append(os.Environ(), "GOFLAGS=-mod=mod", "GOPROXY=off", "GOSUMDB=off", "GOTOOLCHAIN=local"),
	}
	pkgs, err := packages.Load(cfg, flag.Args()...)
	if err != nil {
		fmt.Fprintln(os.Stderr, "rw: load:", err)
		os.Exit(2)
	}
	if err := os.MkdirAll(*out, 0o755); err != nil {
		fmt.Fprintln(os.Stderr, "rw:", err)
		os.Exit(2)
	}
	var mapLines []string
	total := map[string]int{}
	for _, p := range pkgs {
		if len(p.Errors) > 0 {
			for _, e := range p.Errors {
				fmt.Fprintln(os.Stderr, "rw: type error:", e)
			}
			os.Exit(2)
		}
		for i, f := range p.Syntax {
			fname := p.CompiledGoFiles[i]
			if strings.HasSuffix(fname, "_test.go") || !strings.HasPrefix(fname, *repo+"/") {
				continue
			}
			rel, _ := filepath.Rel(*repo, fname)
			r := &rewriter{fset: p.Fset, info: p.TypesInfo, pkg: p,
				doMap: want["map"], doGo: want["go"], doFs: want["fs"], doPid: want["pid"], doTime: timeFiles[filepath.Base(fname)],
				relFile: rel, counts: map[string]int{}}
			func() {
				defer func() {
					if e := recover(); e != nil {
						fmt.Fprintln(os.Stderr, "rw: cannot rewrite", rel, ":", e)
						os.Exit(2)
					}
				}()
				r.file(f)
				if syncFiles[filepath.Base(fname)] {
					r.rewriteSync(f)
				}
				if len(callRen) > 0 {
					r.rewriteCalls(f, callRen)
				}
			}()
			if !r.changed {
				continue
			}
			for k, v := range r.counts {
				total[k] += v
			}
			// add the shim import; drop imports that became unused.
			imp := &ast.ImportSpec{Path: &ast.BasicLit{Kind: token.STRING, Value: strconv.Quote(shimPath)}}
			added := !pkgStillUsed(f, "vshim") // no shim import needed (call renames only)
			for _, d := range f.Decls {
				if gd, ok := d.(*ast.GenDecl); ok && gd.Tok == token.IMPORT {
					var keep []ast.Spec
					for _, s := range gd.Specs {
						is := s.(*ast.ImportSpec)
						path, _ := strconv.Unquote(is.Path.Value)
						name := filepath.Base(path)
						if is.Name != nil {
							name = is.Name.Name
						}
						if (path == "os" || path == "io/ioutil" || path == "sync" || path == "time") && !pkgStillUsed(f, name) {
							continue
						}
						keep = append(keep, s)
					}
					if !added {
						keep = append(keep, imp)
						added = true
					}
					gd.Specs = keep
					if gd.Lparen == token.NoPos && len(keep) > 1 {
						gd.Lparen = gd.Pos()
						gd.Rparen = gd.End()
					}
				}
			}
			if !added {
				gd := &ast.GenDecl{Tok: token.IMPORT, Specs: []ast.Spec{imp}}
				f.Decls = append([]ast.Decl{gd}, f.Decls...)
			}
			f.Comments = nil // comments would be misplaced by the edits
			var buf bytes.Buffer
			buf.WriteString("// Code generated by /verif/rw from " + rel + ". DO NOT EDIT.\n\n")
			if err := format.Node(&buf, p.Fset, f); err != nil {
				fmt.Fprintln(os.Stderr, "rw: format", rel, ":", err)
				os.Exit(2)
			}
			dst := filepath.Join(*out, strings.ReplaceAll(rel, "/", "__"))
			if err := os.WriteFile(dst, buf.Bytes(), 0o644); err != nil {
				fmt.Fprintln(os.Stderr, "rw:", err)
				os.Exit(2)
			}
			mapLines = append(mapLines, fname+" "+dst)
		}
	}
	sort.Strings(mapLines)
	if err := os.WriteFile(*mapFile, []byte(strings.Join(mapLines, "\n")+"\n"), 0o644); err != nil {
		fmt.Fprintln(os.Stderr, "rw:", err)
		os.Exit(2)
	}
	fmt.Printf("rw: %d files rewritten (%v)\n", len(mapLines), total)
}
