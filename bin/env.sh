# sourced by every script in /verif/bin
VERIF_ROOT="${VERIF_ROOT:-$(cd "$(dirname "$0")/.." && pwd)}"
export VERIF_ROOT
export GOFLAGS=-mod=mod GOPROXY=off GOSUMDB=off GOTOOLCHAIN=local
export GOCACHE="${VERIF_GOCACHE:-$VERIF_ROOT/.cache/go-build}"
export REPO="${VERIF_REPO:-/repo}"
mkdir -p "$VERIF_ROOT/.build/bin" "$GOCACHE"
