#!/usr/bin/env python3
"""Regenerates /verif/MANIFEST.json from the table below (kept in one place so
that the manifest is valid at all times)."""
import json, os, sys

ROOT = os.path.dirname(os.path.dirname(os.path.abspath(__file__)))

BASELINE_OFF = ("cd /repo && export GOFLAGS=-mod=mod GOPROXY=off GOSUMDB=off GOTOOLCHAIN=local && "
                "go test -vet=off -count=1 -timeout 25m ./... && (cd test && go test -vet=off -count=1 -timeout 25m ./...)")

# id -> (category, technique, level text, level note, design ref)
CHECKS = {
    "C01": ("exploration",
            "bounded-exhaustive program family x deviation-bounded schedule exploration on the real runtime, reference interpreter as oracle",
            "All programs of three template families (dataflow: 12 dimensions - among them array literals mixing a resolved struct literal with null or a reference, a producer that carries the disabled modifier, a consumer without outputs - with at most 3 (quick) / 4 (thorough) leaving their base value; nested disabling: 0-3(4) wrapper levels x 6 controls x all valuations; two-level nests of mapped calls over arrays / typed maps, literal or produced at run time, non-split and split leaves) are executed on the real martian runtime (InvokePipeline, RefreshState/StepNodes loop, real metadata files) with an in-package job manager and a model job; every job's _args (and chunk_defs/chunk_outs of joins) and the top-level _outs are compared with an independent denotational interpreter of the MRO IR. For each program the default schedule and all 1-deviation schedules (each job held until quiescence, lagged, start-only; a split job lingering one loop iteration after writing _stage_defs; each StepNodes frontier-order occurrence permuted; thorough: pairs of held jobs, every map-iteration site of package core) are explored.",
            "jobs follow the mrjob/adapter metadata protocol (model job); stage functions come from the fixed /verif library; nesting depth, sizes and the value alphabet are bounded by the families",
            "DESIGN.md 4/C01"),
    "C02": ("exploration",
            "deviation-bounded schedule exploration of the real scheduler loop over a program family, ordering oracle on the event log",
            "Same executions as C01 (nested-disable family additionally with each job held): at every job submission the event log must show that every stage call the reference interpreter derives the job's arguments, disabling conditions (own and enclosing) and map sources from has finished all its forks, that all preflights of enclosing pipelines finished, and that split < chunks < join inside each fork.",
            "dependencies are read at stage level (Martian resolves references through pipeline boundaries); completion latency is modelled as 'journal entry appears N iterations late'",
            "DESIGN.md 4/C02"),
    "C03": ("exploration",
            "deviation-bounded schedule exploration over a program family, job multiset compared with the reference interpreter",
            "Same executions as C01: the multiset of submitted jobs (call path x phase x chunk) must equal the multiset the reference interpreter denotes, no job key is submitted twice, no metadata directory receives two submissions, and calls that are disabled or map over nothing execute no job.",
            "fork naming is treated as an implementation detail (jobs are matched per call path and phase)",
            "DESIGN.md 4/C03"),
    "C04": ("exploration",
            "bounded-exhaustive file-flow program family x VDR mode x annotation x deviation-bounded schedules (job timing, deferral of the VDR goroutines) on the real runtime with real files",
            "Every vector of the file-flow family (which output type carries the file incl. projections through arrays/typed maps of structs, strings and untyped maps; split producer; sub-pipeline boundaries; mapped producer/consumer; late second consumer; stage/pipeline retain; returned by the top-level pipeline; pipestance below a symlinked directory with physically reported paths) x {call volatile, none, strict, false} x VDR {rolling, post, strict}: model jobs write real files and every consumer verifies each file named in its arguments at the moment it runs; at completion files named by top-level outputs and retains must be intact. Schedules: default, each job held/start-only, each VDR goroutine deferred 0/1/3 loop iterations.",
            "VDR goroutine bodies are treated as atomic w.r.t. the scheduler loop (deferred as a whole); stages follow Martian's contract for file outputs",
            "DESIGN.md 4/C04"),
    "C11": ("exploration",
            "exhaustive enumeration of a key alphabet on the real encoders and journal-name parser (injectivity + parse round trip), plus end-to-end runs of nested mapped calls over adversarial key sets with an exhaustive per-metadata-object notification routing probe on the real refresh path",
            "(a) Unit level on makeKeySafe / mapKeyFork.forkString / encodeJournalName / Node.parseRunFilename: every key that is a concatenation of at most 3 (thorough 4) atoms of an 18-atom alphabet ('.', '/', '%', '2E', '2F', '25', space, non-ASCII, 'fork', 'chnk1', 'u0123456789', 'complete', newline, ...) plus the adversarial key sets: fork directory name is one legal path component, journal form holds no '.' or '/', both encodings are injective over the whole set, and every journal file name built from 3 call names (including calls named fork1, fork_x, chnk0) x 5 fork-id shapes x chunk {none,0,12} x attempt {none,u0123456789} x 4 notifications parses back to exactly its components. (b) End to end: programs nesting 1-2 mapped calls over literal and run-time arrays (lengths 1,2,10,11; thorough 9,100,101) and typed maps with 18 key sets (dots, slashes, percent signs, text that looks encoded, spaces, empty key, non-ASCII, numeric-looking, fork/chunk/attempt/notification look-alikes, case pairs, keys that are suffixes/prefixes of one another, shell and JSON metacharacters) plus every unordered pair of the 56 keys of one or two atoms of {a,b,_,.,/,%,0} (1540 run-time key sets), non-split and split leaves (2 and 11 chunks). Each run on the real runtime must complete, give every job its denoted arguments, run every fork exactly once and return collections with exactly the keys; fork directories and journal names must be pairwise distinct. Then for EVERY split/join/chunk metadata object of the finished pipestance and each of {complete, errors, progress} the journal file its job would write is written and consumed by the real Node.refreshState: exactly that object must be notified, and a file of another attempt must notify nobody. (c) Attempt phase: for the first, a middle and the last job (thorough: every job) of every program the first attempt dies from a signal, mrp restarts automatically (clock of metadata.go advanced by the retry wait through a rewritten time.Now), and once the second attempt has started the first one - still alive - completes with stale outputs in its own directory under its own journal name: the attempts must have distinct directories, the stale completion must change nothing, the pipestance completes with the denoted values and only the dead job ran twice.",
            "keys whose encoded form exceeds the 255-byte file-name limit are outside the family (documented file-name restriction); journal files are written as mrjob writes them (base name of the run-file argument + phase prefix + name); the routing probe runs on the finished pipestance (all forks and chunks exist), routing during the run is covered indirectly by completion",
            "DESIGN.md 4/C11"),
    "C12": ("model_checking",
            "stateless model checking of the real implementation: exhaustive depth-first enumeration of all thread schedules up to a preemption bound under a cooperative scheduler (hand-written; sync primitives of the two semaphore files mechanically rewritten), in lock step with sequential reference models; exhaustive request-grid enumeration for the normalisation function",
            "resource_semaphore.go and maxjobs_semaphore.go are compiled with sync.Mutex / sync.Cond / <-c / close(c) replaced by scheduler-aware equivalents, every go statement of package core by a scheduler spawn and executeLocal by a harness job body. ALL schedules with at most 2 (thorough 3) preemptions are enumerated for (a) 1550 ResourceSemaphore scenarios (limit 4; 2-3 threads doing Acquire(n)/hold/Release(n) with n in 1..5, re-acquiring threads, observers, an updater doing 1-2 of 8 UpdateActual/UpdateSize/UpdateFreeUsed operations): after EVERY critical section the real reserved / current size / queue are compared with a FIFO reference model stepped with the same operation, plus reserved <= limit, oldest-waiter-fits => granted, the holders' own ledger <= limit, and at quiescence the granted / refused / blocked threads equal the model's; (b) 1080 MaxJobsSemaphore scenarios (limits 1-2; blocking, non-blocking and never-released submitters, duplicate metadata, cancellation while waiting, FindDone): slot set equals the model after every critical section, slots <= limit, submitted-and-unfinished jobs <= limit, Acquire results equal the model's, nobody waits while a slot is free at quiescence (a submitted job stays queued for one scheduling step before it runs, so FindDone meets slot holders that have not started); (c) 420 LocalJobManager.Enqueue scenarios through the real GetSystemReqs + cores->memory->vmem acquisition + deferred release (2-3 jobs from 9 request shapes incl. zero, fractional, over the limit, adaptive; with and without a vmem limit): summed reservations of simultaneously running jobs <= limits, every job runs, nothing stays reserved; (d) GetSystemReqs on a grid of 36 limit settings x 4 availabilities x 1456 requests. Every violating schedule is replayed and must reproduce before it is reported; replay files hold scenario + choice sequence.",
            "sync.Cond.Signal wakes the longest waiter (Go's notifyList); memory-model effects below mutex granularity are not modelled; that all accesses are under the mutexes is guarded by a free-running -race pass of the same scenario bodies on the unmodified files (checks/c12race, evidence key race_pass); availability updates come from a fixed menu rather than the OS; the remote manager's qsub path and procsSem are not driven; preemption bound 2/3, thread count <= 4; one known finding (request beyond int64)",
            "DESIGN.md 4/C12"),
    "C13": ("exploration",
            "exhaustive enumeration of top-level output signatures x leaf modes x mapping/wrapping, run on the real runtime and post-processor, type-directed before/after walk of the outputs record",
            "2744 programs in the quick family (all combinations in thorough): top-level pipelines returning each of 14 producer outputs alone (user file type, file, arrays and typed maps of files, struct / struct array / typed map of structs holding a file, 2-dimensional file array, typed map of file arrays, struct of struct + array + map + explicitly named file, string and untyped map holding a path, directory, int) and three combinations x collection sizes {2,0,1,11} x leaf modes {written, null, named-but-missing, relative symlink, outside the pipestance} x explicit out names x mapped producer x mapped top-level call x pass-through sub-pipeline, plus 5 kinds of output-name collision (explicit vs default name in both declaration orders, two explicit names, inside a struct, file vs directory) and 5 map-key styles (unusual but legal file names; '/', '.', '..', empty; quotes, backslashes, control characters). Each program runs to completion on the real runtime with real files, then VDRKill + PostProcess as mrp does. Oracle: record is valid JSON of the same shape, non-file values unchanged, every non-null file leaf recorded at an existing location under outs/ holding exactly its producer's bytes (files are self-describing), leaves naming different files at different locations, file-type extension kept; colliding names must be rejected at compile time or materialised apart.",
            "two leaves naming the same source file may share one materialised location (unspecified); a producing stage returning a map<file> key that is not a legal file name is refused by output validation (counted as key-refused, not a violation); for symlinked outputs and outputs outside the pipestance any recorded location resolving to the producer's bytes is accepted; the human-readable summary printed to stdout is not checked",
            "DESIGN.md 4/C13"),
    "C14": ("exploration",
            "same executions as C04; reclamation and accounting oracles against a harness-measured removal ledger",
            "On every completed run of the C04 exploration (including its kill-at-every-effect-and-restart phase): files named by a top-level output or a retain declaration were not reclaimed; no per-job tmp file and no chunk-level file of a splitting stage survives; no file written by a volatile stage (strict mode: any stage) survives unless named by a top-level output or retain; every path listed in any _vdrkill is gone; the pipestance-level report is bounded below by the regular files/bytes VDR actually removed (ledger measured by the rewritten os.RemoveAll hook immediately before each removal) and above by files+directories, and lists every removed files/ path; no file-system effect leaves the pipestance directory.",
            "which directory nodes a kill report counts is implementation-defined, so the count/byte check is a two-sided bound (regular files <= report <= all entries); accounting across a kill is not decided (the report of the dead process is lost)",
            "DESIGN.md 4/C14"),
    "C05": ("fault_enumeration",
            "exhaustive crash-point enumeration over the numbered file-system effect history of the real runtime, restart through the real re-attach path",
            "For 12 pipeline shapes, and 2 (thorough 6) pipelines whose top-level outputs are files that post-processing moves to outs/ (for these the final _outs text and the outs/ tree are compared with the uninterrupted run's), the uninterrupted run on the real runtime gives a history of N numbered file-system effects (mrp's, via mechanically rewritten os.* calls, and the model jobs'); for EVERY n the process is made to die at effect n (plus torn variants of plain writes), the stale lock is removed and a second incarnation goes through ReattachToPipestance/Reset/RestartLocalJobs/LoadMetadata and the run loop; it must complete with the reference outputs and must not re-execute jobs whose completion marker had been written. For EVERY n also the handled-signal variant: a termination signal arrives before effect n, the process keeps running while a critical section is open, then the registered handlers (Pipestance.HandleSignal) run and the process is dead; _lock must be gone without operator help and the restart must succeed with the same oracles. Every interruption (kill and handled signal) is run twice: with the running jobs vanishing without a trace, and with their monitors recording '_errors: Caught signal terminated' as mrjob does on SIGTERM. Thorough adds a second crash at every effect of the restart for two shapes.",
            "crash granularity = file-system call (no fsync/block model); in-flight local jobs die with mrp and recorded pids are dead; handled signals are delivered between file-system effects with the handler goroutine's work (wait for critical sections, run registered handlers) executed synchronously by the harness; os.Exit is the simulated death; the real mrp binary and OS signal delivery are not in the loop",
            "DESIGN.md 4/C05"),
    "C06": ("fault_enumeration",
            "exhaustive enumeration job x failure manifestation x enforcement level x schedule on the real runtime, dependency-closure oracle, restart after fault removal",
            "For 8 (quick) / 12 (thorough) pipeline shapes every job of the fault-free run is made to fail in each of 12 metadata-level manifestations (error/assert files, process vanishing, non-zero exit, truncated/missing/ill-typed/extra-key _outs, bad _stage_defs) at enforcement levels disable and error, under the default schedule and with the failing job slowest; with automatic retry enabled every job additionally dies from a signal on its first 1 / 2 / all attempts with 1 or 2 retries allowed (must recover exactly when the failures fit the retries, running the failing job once per attempt and nothing else twice; otherwise fail naming the stage) and a stage-raised error must never be retried; oracle: failed (never success or hang) where the manifestation is decided to be fatal, the reported fqname lies in the failing stage, no dependent call started (reference dependency closure), independent jobs untouched, and a restart without the fault completes with the reference outputs without re-running completed jobs.",
            "process-level manifestations through the real mrjob/adapters are not exercised (model job writes what mrjob would); automatic retry is the harness's transcription of cmd/mrp attemptRetry + restart (IsErrorTransient, RefreshState, CheckHeartbeats, Unlock, ReattachToPipestance, Reset, LoadMetadata) with the default retry pattern '^signal: '; chunk-level type faults and extra keys are fatal only at --strict=error",
            "DESIGN.md 4/C06"),
    "C07": ("exploration",
            "bounded-exhaustive (source type, parameter type, binding context) enumeration; accepted programs executed at --strict=error with three output valuations; reference relation and reference validator",
            "All ordered pairs of a 61-type universe (11 base types incl. two user file types and two structs; arrays to depth 2, typed maps, typed maps of arrays, arrays of typed maps; quick: depth<=1) in 10 binding contexts (stage output, literal, pipeline input, return binding, projection through struct / struct array / typed map of structs, split over array / typed map, wildcard) and all 252 sequences of 2-3 split sources of known/unknown lengths: a reference convertibility relation written from the statement decides must-accept / must-reject / undecided; accepted programs are run on the real runtime at the strictest enforcement level with typical, empty and null-leaf outputs and every delivered argument is checked by the reference validator; rejections must be located inside the offending statement.",
            "undecided pairs (builtin file/path <-> string, filetype <-> other filetype, map -> struct / map<T>, map<T> -> map, struct literal -> map) are checked for run-time soundness only; multi-point mutations are not enumerated",
            "DESIGN.md 4/C07"),
    "C08": ("exploration",
            "bounded-exhaustive input enumeration on the real parser/compiler (token sequences, single edits of a corpus, slot substitutions, nesting series, include graphs), crash/hang/position oracle",
            "Every token sequence of length <=3 (thorough 4) over a 90-token adversarial alphabet through ParseSourceBytes/UncheckedParse/ParseValExp/FormatSrcBytes; for each of the repository's ~60 .mro fixtures every single-token deletion/duplication, byte-prefix truncation, byte corruption and token replacement by each alphabet token; every string slot x 14 awkward strings and numeric slot x 25 edge literals; nesting/size series to 10^5 (10^6), 13 include graphs, and - through what mro check does, compile then call graph of the top-level call - cycles of 1-3 pipelines and every top-level call form {call, map call, local, preflight, volatile} x callee {stage, pipeline, undefined, struct} x 13 binding forms, all in isolated subprocesses. Violation: panic, process death (stack overflow), no result within 60-180 s, or an error without a source position.",
            "the space of all byte strings is approximated by these bounds; time limits are only a hang detector (no proportionality measurement below it)",
            "DESIGN.md 4/C08"),
    "C09": ("exploration",
            "bounded-exhaustive slot/clause/comment-position substitution over template programs plus fixtures, independent canonical-tree oracle",
            "A template program with 17 slots (int/float/string/map/struct/array literals, src/help/outname/special strings, resource numbers, keywords): base, every 1-slot and every 2-slot substitution from per-slot edge-value lists; every optional clause removed singly and in pairs; a comment before each of 23 element positions singly and in pairs, dangling before every closing bracket and inside collections/resource/modifier lists; all 24 orders of four calls; all .mro fixtures of the repository; six include graphs (~4600 accepted sources). Oracle: formatted text parses; an independent reflective canonical rendering of the parsed trees (no positions, numbers by value, calls as a set, modifiers by effect) is equal; comments kept (exactly once unless dangling); format is a fixed point; compiles if the source did; the include-expanded rendering compiles alone with an equal call graph.",
            "sources outside the template/fixture families; semantic equality is judged on unchecked parse trees plus compilation, not on execution",
            "DESIGN.md 4/C09"),
    "C10": ("exploration",
            "explorer-owned map iteration order (mechanically rewritten range statements in syntax/refactoring/core): every single-occurrence permutation of every dynamic map iteration, byte-compare of all outputs",
            "For ~90 programs (hand-written wide-literal, multi-split, typed-map-fork, merge and multi-error programs; programs of the runtime families; the repository's fixtures) the compile error text, formatted text and serialized call graph are recomputed with each single dynamic map-iteration occurrence (>=2 keys; ~4000 occurrences) reversed and rotated; for the runtime-family programs the whole pipestance is re-executed likewise and job names (fork ids), per-fork _invocation files, job arguments and final outputs compared; all outputs must be byte-identical to the default-order run, and the default-order outputs must agree between worker processes.",
            "map iteration is modelled as a permutation of a key snapshot; two simultaneous permutations only in thorough for pairs within one operation (not built: single-occurrence only); address- or time-derived nondeterminism is covered only by the cross-process digest comparison",
            "DESIGN.md 4/C10"),
    "C19": ("exploration",
            "exhaustive edit enumeration (every callable/parameter x every refactoring operation) applied as cmd/mro/edit does, call-graph oracle with inverse renaming",
            "12 programs (nested sub-pipelines, map calls, split stage, struct narrowing, projections, aliases, nested disabled modifiers, retains, wildcard bindings, outputs whose names are prefixes of one another): every callable renamed (fresh name, colliding with each aliased call id, and X->Y->X), every input and output parameter renamed (two new names) and removed (stage inputs; outputs nothing refers to), remove-unused-outputs / remove-unused-calls / both. The result must compile; the serialized call graph of the top-level call must equal the original's after the inverse renaming; for removals remaining nodes keep their inputs/disabled bindings and the top-level outputs, and no removed node is still referenced; X->Y->X must restore the canonical tree.",
            "multi-file programs (edits across includes) are not in the corpus; removing a stage input whose binding was the only use of an enclosing pipeline input is treated as unspecified",
            "DESIGN.md 4/C19"),
    "C15": ("exploration",
            "exhaustive site x edit-catalogue enumeration over base programs, two-sided EquivalentCall oracle plus real re-attach",
            "10 base programs (nested sub-pipelines, map calls, split stage, struct narrowing, projections, preflight, aliases, nested disabled modifiers, file types, retains) x every applicable site of 22 semantic edit kinds (same call name with a callee of a different signature declared on both sides, retyped unused outputs, collection-literal shape edits, rename call, change literal/top argument, add stage input/output, retype parameter, toggle split, retarget return, change/remove/add disabled) and 6 cosmetic kinds (reorder declarations, rename file type, add unused declarations, reformat, comments, whitespace): EquivalentCall must be false both ways for semantic and true both ways for cosmetic edits; the first site of each (base, kind) also goes through InvokePipeline + ReattachToPipestance(checkSrc) on a real pipestance directory; attach while locked must be refused and after unlock accepted.",
            "edits documented as ignored (retain, resources, volatile, chunk params) and switching the callee under an unchanged call name are outside the catalogue (unspecified)",
            "DESIGN.md 4/C15"),
    "C16": ("exploration",
            "bounded-exhaustive signature x value x split-subset enumeration through both converters, exact-decimal JSON comparison; per-fork _invocation files of real runs",
            "Stage signatures with one parameter over 75 types (9 base types x array depth 0-2 x typed-map nesting 0-2) x every value of per-type edge lists (nested structs, typed maps, nulls, +-2^53+-1, int64 limits, 1e21, 5e-324, -0.0, strings with escapes/NUL/non-ASCII, empty collections; every JSON escape spelling - \\u0000-\\u00ff, boundary code units, a surrogate pair, the named escapes - as a string value and as a typed-map key), split over an array / a typed map / an empty array; all ordered pairs of types with all four split subsets: BuildCallSource -> compile -> InvocationDataFromSource -> BuildCallSource must preserve call name, include, split set and every argument value (numbers compared as exact decimals) and be text-stable. Additionally the _invocation file of every stage fork of nine real pipestance runs must compile against the stage's file and carry the arguments the fork's job received.",
            "three-parameter signatures and types deeper than two levels are thorough-only / not covered",
            "DESIGN.md 4/C16"),
    "C17": ("exploration",
            "bounded-exhaustive (type, JSON value) enumeration with single-point near-miss mutations against a three-valued reference validator and reference filter",
            "120 types (14 base types incl. six structs x array depth 0-2 x typed-map nesting 0-2); for each a generated set of valid values and every single-point near-miss mutation (wrong kind at each node, 1.0/1.5, extra nesting, extra/missing field), in compact and oddly spaced raw JSON (about 6*10^4 distinct pairs in quick); checks: IsValidJson agrees with the reference wherever it is decided and accepts null; a departure from the declared shape other than a non-string for a user file type must be refused with an error, not only an alarm; FilterJson is idempotent, equals the reference filter (drops undeclared fields, integral floats to ints) and its result validates; for every ordered type pair (S,D) with D assignable from S every valid S value filtered to D validates for D; assignability is reflexive and component-wise for arrays, typed maps and structs over all 120^2 pairs.",
            "values deeper than the generator bound and mutations beyond one point are not covered; integral floats for int, integers beyond int64 and undeclared fields are unspecified for validation",
            "DESIGN.md 4/C17"),
    "C18": ("exploration",
            "bounded-exhaustive string enumeration, real shell as oracle",
            "Every string of length <=3 over a 27-symbol shell-adversarial alphabet (longer over the 9 shell-active symbols, plus every single byte) is quoted by the real shellSafeQuote and evaluated by dash and bash, which must print the original bytes; whole job scripts rendered by the real RemoteJobManager.jobScript for every shipped template are executed with an argv/environment dumping program for each role (program path, argument, environment value, stdout path, work dir). Exhaustive within the stated alphabet and length bounds.",
            "dash and bash as installed stand for 'a POSIX shell'; strings longer than the bound are covered only through the compositionality of per-character quoting",
            "DESIGN.md 4/C18"),
}

NOT_YET = "check not built yet in this session (design in DESIGN.md section 4); will be claimed once its bounded-exhaustive exploration runs clean on the unchanged tree"

def main():
    props = [json.loads(l)["id"] for l in open(os.path.join(ROOT, "properties.jsonl"))]
    checks = []
    for pid in props:
        if pid not in CHECKS:
            continue
        cat, tech, text, note, ref = CHECKS[pid]
        checks.append({
            "property_id": pid,
            "quick_cmd": "./bin/vcheck %s --tier quick" % pid,
            "thorough_cmd": "./bin/vcheck %s --tier thorough" % pid,
            "evidence_file": "/verif/evidence/%s.json" % pid,
            "replay_cmd_template": "./bin/vcheck %s --replay {path}" % pid,
            "engine": "vcheck",
            "level_claimed": {"category": cat, "text": text, "design_ref": ref},
            "level_note": note,
            "technique": tech,
        })
    na = [{"property_id": p, "reason": NOT_YET} for p in props if p not in CHECKS]
    m = {
        "version": 1,
        "setup_cmd": "./bin/setup",
        "hooks": {
            "guard": "verif",
            "enable": "go build -tags verif -overlay .build/overlay.json (bin/mkoverlay adds /verif/overlay/<pkg>/*.go, all '//go:build verif', to the matching /repo package at build time; /repo itself carries no hook code)",
            "baseline_off_cmd": BASELINE_OFF,
            "source_commits": [],
            "add_only": True,
        },
        "engines": [
            {"name": "vcheck", "path": "bin/vcheck",
             "serves_properties": sorted(CHECKS),
             "kind_free_text": "driver: regenerates the overlay from /repo's working tree, builds checks/<id> with -tags verif and runs it; checks enumerate a stated finite space exhaustively (lib/ev reports coverage)"},
        ],
        "checks": checks,
        "not_applicable": na,
        "notes": "Fix commits in /repo are listed in KNOWN_FINDINGS.txt ('fixed:' lines). Known findings are matched by signature; see DESIGN.md section 6.",
    }
    with open(os.path.join(ROOT, "MANIFEST.json"), "w") as f:
        json.dump(m, f, indent=1)
        f.write("\n")

if __name__ == "__main__":
    main()
